"""C05 — every exposed adjoint satisfies <Ax,y> = <x,A*y> in the spaces' own inner products.

ORACLE (independent of the Lean model, decided on the real code): for an operator A on small
spaces the FULL real-linear matrices of A, A.adjoint and A.adjoint.adjoint are extracted by
applying them to all unit vectors (e_k and i*e_k on complex spaces), the Gram matrices of
domain and range are extracted from the spaces' own `inner`, and
    A_R^T G_ran = G_dom B_R        (<=> Re<Ax,y> = Re<x,A*y> for ALL x, y)
is decided with exact rational arithmetic (entries are dyadic by construction); for a complex
domain and range additionally A* (and A) must be complex linear (then the identity holds
without the real part).  Further: A.adjoint.domain/range == A.range/domain, and the matrix of
A.adjoint.adjoint equals the matrix of A.

TIE (model vs code): modelled leaves and random linear expression trees over modelled leaves
are serialised to the Lean driver (Drivers/C05.lean), which builds the model term, computes
`adj` exactly as coded in the model and prints the matrices of `run t` and `run (adj t)`;
these are compared entry-wise (exactly) with the matrices extracted from the real code.
"""
import inspect
import itertools
from fractions import Fraction

import numpy as np

from vf import core
from vf.core import fs

RULE = ('operator zoo: every module-level linear class with .adjoint found by introspection (plus '
        'the derivative classes defined inside methods of ComplexModulus(Squared)/PointwiseNorm) x its option '
        'sets (weightings none/const/array, real/complex dtype, axes, variants, pad modes, '
        'resize modes, product-space weightings) on spaces with <= 12 entries, plus random '
        'linear expression trees (sum, composition, scalar and vector multiples, block '
        'operators). One case = one operator; the oracle decides the adjoint identity for ALL '
        'x, y through the full matrices. A case is non-trivial when the matrix of A is not '
        'zero; distinct = distinct (class, option signature) or (tree shape signature).')
TRUSTED = ['flattening of ODL elements to coordinate vectors and unit-vector extraction of '
           'matrices (tools/harness/c05.py)',
           'NumPy/SciPy kernels called by the operators (tensordot, bincount, fancy indexing, '
           'np.pad-like resize, FFT, PyWavelets) are outside the model: their adjoint identity '
           'is decided by the matrix oracle on small spaces only']
ASSUMPTIONS = ['floating point rounding is outside the model: all matrix entries and weights '
               'are dyadic by construction so the oracle is exact; classes with irrational '
               'entries (Fourier, wavelet) are compared with relative tolerance 1e-9',
               'opaque leaves (finite differences, resizing, Fourier, wavelets, MatrixOperator with '
               'axis/sparse/n-d, F-order flattening, n-d sampling) enter adj_sound through the '
               'hypothesis Pair of Leaf.opaque, which the oracle decides on spaces with <= 12 '
               'entries only (finite differences / resizing have their own proofs in C13/C16)',
               'the model gives the value of the repaired adjoints of MatrixOperator, Sampling and '
               'Flattening by one formula (W_dom^-1 M^H W_ran, vector multiple by cv/W); the code '
               'returns the bare operator / a scalar multiple / a vector multiple depending on the '
               'weighting class: same action, compared through the matrices',
               'the oracle demands the REAL-PART identity (which determines A* uniquely); for a '
               'complex-linear A between complex spaces this is equivalent to the full complex '
               'identity, for an A that is only real-linear (trees through RealPart/ImagPart/'
               'ComplexEmbedding) the full complex identity cannot hold and is not demanded '
               '(non complex-linear A / A* are recorded as information only)',
               'for FourierTransform, DiscreteFourierTransform and (db2, non-periodized) wavelet '
               'transforms the adjoint identity fails on the unchanged code (open findings F57-F59); '
               'the check only establishes that the returned adjoint is exactly the (scaled) inverse '
               '- any other deviation is a violation - so it gives no further information about '
               'the adjoint identity of these classes',
               'block operators: ProductSpaceOperator refuses weighted product spaces, so the model '
               'and the theorems cover unweighted product spaces (arbitrary weights inside the '
               'components) only',
               'documented-approximate adjoints are exempt: Resampling, RayTransform, LinDeform*']
KNOWN_EXPLAINS_DISAGREEMENT = False

EXEMPT = {'Resampling', 'RayTransform', 'LinDeformFixedDisp', 'LinDeformFixedTempl'}
APPROX = {'DiscreteFourierTransform', 'DiscreteFourierTransformInverse', 'FourierTransform',
          'FourierTransformInverse', 'WaveletTransform', 'WaveletTransformInverse'}


# ---------------------------------------------------------------------------------------------
# flat coordinate views of spaces and elements

def odl_():
    import odl
    return odl


def is_field(S):
    from odl.set import Field
    return isinstance(S, Field)


def is_pspace(S):
    return isinstance(S, odl_().ProductSpace)


def is_cplx(S):
    odl = odl_()
    if is_field(S):
        return isinstance(S, odl.ComplexNumbers)
    return S.field == odl.ComplexNumbers()


def sdim(S):
    """number of scalar entries"""
    if is_field(S):
        return 1
    if is_pspace(S):
        return sum(sdim(s) for s in S)
    return int(S.size)


def rdim(S):
    return sdim(S) * (2 if is_cplx(S) else 1)


def to_flat(S, x):
    """flat numpy vector (complex or float) of an element of S"""
    if is_field(S):
        return np.array([complex(x) if is_cplx(S) else float(x)])
    if is_pspace(S):
        parts = [to_flat(s, xi) for s, xi in zip(S, x)]
        return np.concatenate(parts) if parts else np.zeros(0)
    return np.asarray(x.asarray()).ravel(order='C')


def from_flat(S, v):
    v = np.asarray(v)
    if is_field(S):
        return S.element(complex(v[0]) if is_cplx(S) else float(v[0].real))
    if is_pspace(S):
        parts, k = [], 0
        for s in S:
            n = sdim(s)
            parts.append(from_flat(s, v[k:k + n]))
            k += n
        return S.element(parts)
    if not is_cplx(S):
        v = v.real
    return S.element(np.asarray(v, dtype=S.dtype).reshape(S.shape))


def basis_vec(S, a):
    """a-th real-coordinate unit vector: entry a (real space) or entry a//2 times 1 / i."""
    n = sdim(S)
    v = np.zeros(n, dtype=complex)
    if is_cplx(S):
        v[a // 2] = 1j if a % 2 else 1.0
    else:
        v[a] = 1.0
    return v


def rcoords(S, x, exact=True):
    """real coordinates (Fractions or floats) of an element of S"""
    f = to_flat(S, x)
    if is_cplx(S):
        f = np.asarray(f, dtype=complex)
        vals = []
        for z in f.tolist():
            vals.extend([z.real, z.imag])
    else:
        if np.iscomplexobj(f):
            if np.any(f.imag != 0):
                raise ValueError('complex entries in an element of a real space')
            f = f.real
        vals = [float(t) for t in f.tolist()]
    if exact:
        return [core.frac(t) for t in vals]
    return vals


def pairing(S, x, y):
    if is_field(S):
        return complex(x) * complex(y).conjugate()
    return complex(S.inner(x, y))


_GRAM = {}


def gram(S):
    """diagonal of the real Gram matrix of S from its own inner product (exact), after
    checking that the off-diagonal part vanishes."""
    # keyed by the space itself (== / hash compare the weighting exactly); repr() rounds the
    # weights and would identify c with c(1+1e-6)
    key = S
    try:
        if key in _GRAM:
            return _GRAM[key]
    except TypeError:
        key = None
    n = rdim(S)
    bs = [from_flat(S, basis_vec(S, a)) for a in range(n)]
    G = np.zeros((n, n))
    for a in range(n):
        for b in range(n):
            G[a, b] = pairing(S, bs[a], bs[b]).real
    off = G - np.diag(np.diag(G))
    if np.any(off != 0):
        raise ValueError('Gram matrix of {!r} is not diagonal'.format(S))
    d = [core.frac(G[a, a]) for a in range(n)]
    if key is not None:
        _GRAM[key] = d
    return d


def matrix_of(op, dom, ran, exact=True, inplace=False):
    """real-coordinate matrix as list of columns; dom/ran are the spaces whose coordinates are
    used (elements of `dom` are fed to op). `inplace`: evaluate as op(x, out=y) into an
    output element prefilled with junk (the result must not depend on it)."""
    cols = []
    for a in range(rdim(dom)):
        x = from_flat(dom, basis_vec(dom, a))
        if inplace:
            y = from_flat(ran, np.full(sdim(ran), 7.0 + (3.0j if is_cplx(ran) else 0.0)))
            r = op(x, out=y)
            if r is not None and r is not y:
                raise OpFail('op(x, out=y) returned a different object than y')
        else:
            y = op(x)
        if not is_field(ran) and y not in ran:
            raise OpFail('result {!r} is not an element of {!r}'.format(
                getattr(y, 'space', type(y).__name__), ran))
        cols.append(rcoords(ran, y, exact))
    return cols


class OpFail(Exception):
    pass


def guarded(f, what):
    try:
        return f()
    except Exception as e:  # noqa
        raise OpFail('{} raised {}: {}'.format(what, type(e).__name__, str(e)[:160]))


# ---------------------------------------------------------------------------------------------
# the oracle

def oracle(A, approx=False):
    """Returns (status, problems, info). status: 'ok' | 'noadjoint:<kind>' ; problems: list of
    (failkind, text). info: dict with matrices for the correspondence."""
    info = {}
    problems = []
    try:
        B = A.adjoint
    except Exception as e:  # noqa
        return 'noadjoint:' + type(e).__name__, problems, info
    if B is None:
        return 'noadjoint:None', problems, info
    dom, ran = A.domain, A.range
    exact = not approx
    if B.domain != ran or B.range != dom:
        problems.append(('type', 'adjoint maps {!r} -> {!r}, expected {!r} -> {!r}'.format(
            B.domain, B.range, ran, dom)))
    try:
        MA = guarded(lambda: matrix_of(A, dom, ran, exact), 'A(x)')
        info['A'] = MA
        MB = guarded(lambda: matrix_of(B, ran, dom, exact), 'A.adjoint(y)')
        info['B'] = MB
        Gd, Gr = gram(dom), gram(ran)
        info['Gd'], info['Gr'] = Gd, Gr
    except OpFail as e:
        problems.append(('raises', str(e)))
        return 'ok', problems, info
    except ValueError as e:
        problems.append(('value', str(e)[:200]))
        return 'ok', problems, info
    # the same operators evaluated IN PLACE must give the same matrices (solvers and
    # matrix_representation call op(x, out=...)); a difference is reported as the adjoint
    # identity failing for the in-place evaluation
    for nm, op_, d_, r_, M_ in (('A', A, dom, ran, MA), ('A.adjoint', B, ran, dom, MB)):
        if is_field(r_):
            continue
        try:
            Mi = guarded(lambda: matrix_of(op_, d_, r_, exact, inplace=True), nm + '(x, out=y)')
        except OpFail as e:
            problems.append(('inplace-raises', str(e)))
            continue
        mx_ = max([0.0] + [abs(float(v)) for c_ in M_ for v in c_])
        dif = [(a, b) for a in range(len(M_)) for b in range(len(M_[a])) if Mi[a][b] != M_[a][b]
               and abs(float(Mi[a][b]) - float(M_[a][b])) > (1e-9 if approx else 1e-11) * max(
                   abs(float(Mi[a][b])), abs(float(M_[a][b]))) + (1e-9 * mx_ if approx else 0.0)]
        if dif:
            a, b = dif[0]
            problems.append(('identity-inplace',
                             '{nm}(e_{a}, out=z) gives entry {b} = {v} but {nm}(e_{a}) gives {w} '
                             '({n} entries differ): the adjoint identity fails for the in-place '
                             'evaluation'.format(nm=nm, a=a, b=b, v=_fstr(Mi[a][b]),
                                                 w=_fstr(M_[a][b]), n=len(dif))))
    nd, nr = len(Gd), len(Gr)
    # RELATIVE tolerances: weights, cell volumes and scalars of every magnitude (1e-12 ... 1e12)
    # must be compared on their own scale.  Exact stream: entries are dyadic, a difference is
    # tolerated (and counted as `inexact`) only up to 1e-11 of the entry itself.  Approximate
    # stream (FFT / wavelets): additionally 1e-9 of the largest pairing value.
    L = [[MA[a][b] * Gr[b] for b in range(nr)] for a in range(nd)]
    Rm = [[Gd[a] * MB[b][a] for b in range(nr)] for a in range(nd)]
    maxabs = max([0.0] + [abs(float(v)) for row in L for v in row] +
                 [abs(float(v)) for row in Rm for v in row])
    scale = maxabs if maxabs > 0 else 1.0
    floor = 1e-9 * maxabs if approx else 0.0

    def close(u, v, rel=1e-11):
        fu, fv = float(u), float(v)
        return abs(fu - fv) <= rel * max(abs(fu), abs(fv)) + floor
    tol = floor
    bad = []
    inexact = 0
    for a in range(nd):
        for b in range(nr):
            lhs, rhs = L[a][b], Rm[a][b]
            if lhs != rhs:
                if close(lhs, rhs, 1e-9 if approx else 1e-11):
                    inexact += 1
                    continue
                bad.append((a, b, lhs, rhs))
    info['inexact'] = inexact
    if bad:
        a, b, lhs, rhs = bad[0]
        # Signature of the failure, so that a recorded finding of one specific shape cannot
        # mask any other defect of the same class:
        #   adjoint-is-inverse         A*(A x) = x for all x (the code returned the inverse)
        #   adjoint-is-scaled-inverse  A*(A x) = c x
        #   adjoint-is-plain-transpose A* is the transpose for UNWEIGHTED pairings (weights ignored)
        #   common-factor              <Ax,y> = c <x,A*y> for one constant c
        kind = 'identity'
        FA = np.array([[float(v) for v in col] for col in MA]).T if nd else np.zeros((nr, 0))
        FB = np.array([[float(v) for v in col] for col in MB]).T if nr else np.zeros((nd, 0))
        if FA.shape == (nr, nd) and FB.shape == (nd, nr):
            BA = FB.dot(FA)
            c0 = BA[0, 0] if nd else 0.0
            AB = FA.dot(FB)
            mA = max(1e-300, float(np.max(np.abs(FA))) if FA.size else 0.0)
            if (nd and np.all(np.abs(BA - np.eye(nd)) <= 1e-9)) or \
                    (nr and np.all(np.abs(AB - np.eye(nr)) <= 1e-9)):
                # left or right inverse (the transforms need not be square)
                kind = 'identity-adjoint-is-inverse'
            elif nd and c0 != 0 and np.all(np.abs(BA - c0 * np.eye(nd)) <= 1e-9 * abs(c0)):
                kind = 'identity-adjoint-is-scaled-inverse'
                if np.all(np.abs(FB - FA.T) <= 1e-9 * mA):
                    # a scaled-orthogonal matrix: the returned operator is ALSO the plain transpose
                    kind += '+plain-transpose'
            elif np.all(np.abs(FB - FA.T) <= 1e-9 * mA):
                kind = 'identity-adjoint-is-plain-transpose'
        if kind == 'identity' and len(bad) > 1 and float(rhs) != 0:
            c = float(lhs) / float(rhs)
            uni = all(abs(float(L[i][j]) - c * float(Rm[i][j])) <=
                      1e-9 * max(abs(float(L[i][j])), abs(c * float(Rm[i][j]))) + floor
                      for i in range(nd) for j in range(nr))
            if uni:
                kind = 'identity-common-factor'
        problems.append((kind,
                         '<A e_{a}, f_{b}>_ran = {l} but <e_{a}, A* f_{b}>_dom = {r} '
                         '({n} of {t} basis pairs differ; real-coordinate unit vectors e_{a} of '
                         'the domain, f_{b} of the range)'.format(
                             a=a, b=b, l=_fstr(lhs), r=_fstr(rhs), n=len(bad), t=nd * nr)))
    # complex linearity (full complex identity) when both spaces are complex
    if is_cplx(dom) and is_cplx(ran):
        for nm, M, n_in in (('A', MA, nd), ('A.adjoint', MB, nr)):
            ok = True
            for k in range(n_in // 2):
                c0, c1 = M[2 * k], M[2 * k + 1]
                for j in range(len(c0) // 2):
                    d1 = c1[2 * j] + c0[2 * j + 1]
                    d2 = c1[2 * j + 1] - c0[2 * j]
                    mag = max(abs(float(c0[2 * j])), abs(float(c0[2 * j + 1])),
                              abs(float(c1[2 * j])), abs(float(c1[2 * j + 1])))
                    if (d1 != 0 or d2 != 0) and max(abs(float(d1)), abs(float(d2))) > \
                            1e-9 * mag + floor:
                        ok = False
            if not ok:
                # the real-part identity determines A* uniquely; a non complex-linear A (e.g.
                # embedding o real part) only has a real-part adjoint: informational
                info.setdefault('not_complex_linear', []).append(nm)
    # adjoint of the adjoint acts like A
    try:
        C = guarded(lambda: B.adjoint, 'A.adjoint.adjoint')
        if C is None:
            raise OpFail('A.adjoint.adjoint is None')
        if C.domain != dom or C.range != ran:
            raise OpFail('A.adjoint.adjoint maps {!r} -> {!r} but A maps {!r} -> {!r}'.format(
                C.domain, C.range, dom, ran))
        MC = guarded(lambda: matrix_of(C, dom, ran, exact), 'A.adjoint.adjoint(x)')
        info['C'] = MC
        mxA = max([0.0] + [abs(float(v)) for c_ in MA for v in c_])
        diff = [(a, b) for a in range(nd) for b in range(nr) if MC[a][b] != MA[a][b] and
                abs(float(MC[a][b]) - float(MA[a][b])) > (1e-9 if approx else 1e-11) * max(
                    abs(float(MC[a][b])), abs(float(MA[a][b]))) + (1e-9 * mxA if approx else 0.0)]
        if diff:
            a, b = diff[0]
            problems.append(('adjadj', 'A.adjoint.adjoint differs from A: entry ({},{}) is {} '
                             'vs {}'.format(b, a, _fstr(MC[a][b]), _fstr(MA[a][b]))))
    except OpFail as e:
        m = str(e)
        kind = 'adjadj-type' if ' maps ' in m and ' but A maps ' in m else 'adjadj-raises'
        if kind == 'adjadj-raises':
            import re as _re
            mm = _re.search(r'raised (\w+)', m)
            kind += '-' + (mm.group(1) if mm else 'error')
        problems.append((kind, m))
    return 'ok', problems, info


def _fstr(v):
    return fs(v) if isinstance(v, Fraction) else repr(v)


# ---------------------------------------------------------------------------------------------
# space zoo

def dy(rng, lo=-16, hi=16, den=4, nz=False):
    while True:
        k = rng.randint(lo, hi)
        if k or not nz:
            return k / den


def rand_el(rng, S, nz=False):
    n = sdim(S)
    if is_cplx(S):
        v = np.array([complex(dy(rng, -8, 8, 2, nz), dy(rng, -8, 8, 2)) for _ in range(n)])
    else:
        v = np.array([dy(rng, -8, 8, 2, nz) for _ in range(n)], dtype=complex)
    return from_flat(S, v)


def tensor_spaces(tier):
    """(tag, space) small tensor / discretized spaces with every weighting kind."""
    odl = odl_()
    zoo = [
        ('rn3', odl.rn(3)),
        ('rn4/const', odl.rn(4, weighting=2.0)),
        ('rn3/array', odl.rn(3, weighting=[1.0, 2.0, 4.0])),
        ('cn3', odl.cn(3)),
        ('cn2/const', odl.cn(2, weighting=0.5)),
        ('cn3/array', odl.cn(3, weighting=[2.0, 1.0, 4.0])),
        ('rn2x3', odl.rn((2, 3))),
        ('rn2x2/const', odl.rn((2, 2), weighting=0.5)),
        ('cn2x2', odl.cn((2, 2))),
        ('discr4', odl.uniform_discr(0, 4, 4)),
        ('discr4/half', odl.uniform_discr(0, 2, 4)),
        ('discr4/bdry', odl.uniform_discr(0, 3, 4, nodes_on_bdry=True)),
        ('discr2x4', odl.uniform_discr([0, 0], [1, 2], (2, 4))),
        ('cdiscr3', odl.uniform_discr(0, 6, 3, dtype='complex128')),
        ('cdiscr2x2', odl.uniform_discr([0, 0], [1, 1], (2, 2), dtype='complex128')),
    ]
    if tier != 'quick':
        zoo += [
            ('rn1', odl.rn(1)),
            ('rn12', odl.rn(12)),
            ('rn3x4/array', odl.rn((3, 4), weighting=np.array(
                [[1.0, 2, 4, 1], [2, 2, 1, 0.5], [0.25, 1, 1, 8]]))),
            ('discr5/bdryL', odl.uniform_discr(0, 4.5, 5, nodes_on_bdry=[(True, False)])),
            ('discr3x4', odl.uniform_discr([0, 0], [3, 2], (3, 4))),
            ('discr2x2x3', odl.uniform_discr([0, 0, 0], [1, 1, 3], (2, 2, 3))),
            ('discr4/wconst', odl.uniform_discr(0, 2, 4, weighting=4.0)),
            ('f32_4', odl.rn(4, dtype='float32')),
            ('cdiscr4/half', odl.uniform_discr(0, 2, 4, dtype='complex128')),
        ]
    return zoo


def is_discr(S):
    return isinstance(S, odl_().DiscretizedSpace)


def wkind(S):
    odl = odl_()
    if is_field(S):
        return 'field'
    w = S.weighting
    nm = type(w).__name__
    if 'Array' in nm:
        k = 'array'
    elif 'Const' in nm:
        k = 'const' if getattr(w, 'const', 1.0) != 1.0 else 'none'
    else:
        k = nm
    if is_pspace(S):
        return 'P[' + k + ';' + ','.join(sorted({wkind(s) for s in S})) + ']'
    return k


def sp_sig(S):
    if is_field(S):
        return 'C' if is_cplx(S) else 'R'
    if is_pspace(S):
        return 'P{}[{}]w={}'.format(len(S), sp_sig(S[0]) if len(S) else '', wkind(S))
    return '{}{}d{}w={}'.format('c' if is_cplx(S) else 'r', 'D' if is_discr(S) else 'T',
                                S.ndim, wkind(S))


# ---------------------------------------------------------------------------------------------
# operator zoo: (class name, option signature, thunk building the operator, model spec or None)

class Case(object):
    def __init__(self, cls, opts, build, spec=None, approx=False):
        self.cls, self.opts, self.build, self.spec, self.approx = cls, opts, build, spec, approx

    def key(self):
        return 'class={} opts={}'.format(self.cls, self.opts)


def zoo_cases(ctx, rng=None):
    """Generator of Case objects. Values come from ctx.rng (dyadic)."""
    odl = odl_()
    rng = rng or ctx.rng
    tier = ctx.tier
    tsp = tensor_spaces(tier)
    R, C = odl.RealNumbers(), odl.ComplexNumbers()
    scal_r = [2.0, -0.5, 0.0, 1.0]
    scal_c = [1 + 2j, -0.5j, 2.0]

    def mk(cls, opts, f, spec=None, approx=False):
        return Case(cls, opts, f, spec, approx)

    # --- default_ops
    for tag, S in tsp:
        sc = scal_c if is_cplx(S) else scal_r
        for s in (sc if tier != 'quick' else sc[:2] + sc[2:3]):
            yield mk('ScalingOperator', 'space={} s={}'.format(sp_sig(S), sclass(s)),
                     lambda S=S, s=s: odl.ScalingOperator(S, s), ('scaling', S, s))
        yield mk('IdentityOperator', 'space={}'.format(sp_sig(S)),
                 lambda S=S: odl.IdentityOperator(S), ('scaling', S, 1.0))
        yield mk('ZeroOperator', 'space={}'.format(sp_sig(S)),
                 lambda S=S: odl.ZeroOperator(S), ('zero', S, S))
        v = rand_el(rng, S)
        yield mk('MultiplyOperator', 'space={} by=vector'.format(sp_sig(S)),
                 lambda v=v: odl.MultiplyOperator(v), ('multiply', S, S, v))
        yield mk('MultiplyOperator', 'space={} by=vector domain=field'.format(sp_sig(S)),
                 lambda v=v, S=S: odl.MultiplyOperator(v, domain=S.field), ('multfield', S, v))
        s0 = (sc[0])
        yield mk('MultiplyOperator', 'space={} by=scalar'.format(sp_sig(S)),
                 lambda S=S, s0=s0: odl.MultiplyOperator(s0, domain=S, range=S),
                 None)
        if not is_discr(S) and wkind(S) == 'none':
            S2 = type(S)(S.shape, dtype=S.dtype, weighting=2.0)
            yield mk('MultiplyOperator', 'space={} by=scalar range=other-weighting'.format(sp_sig(S)),
                     lambda S=S, S2=S2, s0=s0: odl.MultiplyOperator(s0, domain=S, range=S2), None)
        yield mk('InnerProductOperator', 'space={}'.format(sp_sig(S)),
                 lambda v=v: odl.InnerProductOperator(v), ('inner', S, v))
        yield mk('RealPart', 'space={}'.format(sp_sig(S)), lambda S=S: odl.RealPart(S),
                 ('realpart', S))
        yield mk('ImagPart', 'space={}'.format(sp_sig(S)), lambda S=S: odl.ImagPart(S),
                 ('imagpart', S))
        for s in ([1.0, 1j, 1 + 2j, -2.0] if tier != 'quick' else [1.0, 1j, 1 + 2j]):
            yield mk('ComplexEmbedding', 'space={} s={}'.format(sp_sig(S), sclass(s)),
                     lambda S=S, s=s: odl.ComplexEmbedding(S, s), ('cembed', S, s))
        v2 = rand_el(rng, S)
        yield mk('FunctionalLeftVectorMult', 'space={}'.format(sp_sig(S)),
                 lambda v=v, v2=v2: odl.operator.operator.FunctionalLeftVectorMult(
                     odl.InnerProductOperator(v), v2), None)
    for F in (R, C):
        for s in (scal_c if F is C else scal_r)[:2]:
            yield mk('ScalingOperator', 'space={} s={}'.format(sp_sig(F), sclass(s)),
                     lambda F=F, s=s: odl.ScalingOperator(F, s), None)
    yield mk('ZeroOperator', 'dom=rT1 ran=rT2', lambda: odl.ZeroOperator(odl.rn(3), odl.rn((2, 2))),
             ('zero', odl.rn(3), odl.rn((2, 2))))
    yield mk('ZeroOperator', 'dom=rT1/const ran=cT1',
             lambda: odl.ZeroOperator(odl.rn(2, weighting=2.0), odl.cn(3)),
             ('zero', odl.rn(2, weighting=2.0), odl.cn(3)))
    yield mk('ConstantOperator', 'zero constant', lambda: odl.ConstantOperator(odl.rn(3).zero()))

    # --- MatrixOperator
    for c in matrix_cases(ctx, rng, mk):
        yield c
    # --- pointwise inner products on power spaces
    for c in pointwise_cases(ctx, rng, mk):
        yield c
    # --- sampling / flattening
    for c in sampling_cases(ctx, rng, mk):
        yield c
    # --- product space operators
    for c in pspace_cases(ctx, rng, mk):
        yield c
    # --- opaque leaves: finite differences, resizing, Fourier, wavelets
    for c in diff_cases(ctx, rng, mk):
        yield c
    for c in resize_cases(ctx, rng, mk):
        yield c
    for c in trafo_cases(ctx, rng, mk):
        yield c
    for c in functional_cases(ctx, rng, mk):
        yield c
    for c in expr_cases(ctx, rng, mk):
        yield c
    # --- round 5: derived operators (dunder arithmetic, .inverse, .derivative, __getitem__)
    for c in derived_cases(ctx, rng, mk):
        yield c
    # --- round 5: construction options / validation branches no other stream reaches
    for c in option_cases(ctx, rng, mk):
        yield c
    # --- round 4: n-d leaves (axis matrices, F-order flattening, n-d sampling) and trees over them
    for c in nd_cases(ctx, rng, mk):
        yield c
    for c in hidden_cases(ctx, rng, mk):
        yield c
    for c in minimal_cases(ctx, rng, mk):
        yield c
    for c in gate_cases(ctx, rng, mk):
        yield c
    for c in magnitude_cases(ctx, rng, mk):
        yield c


# strata of the generator that every run (both tiers) must hit
EXPECTED_STRATA = ['diffop/min-axis-2', 'diffop/min-axis-3', 'minimal/matrix-1x1',
                   'minimal/matrix-1xn', 'minimal/matrix-nx1', 'minimal/pspace-1-component',
                   'minimal/resize-axis-1', 'minimal/resize-axis-2',
                   'minimal/fourier-axis-2', 'minimal/wavelet-axis-2', 'minimal/sampling-1-point',
                   'minimal/space-1-entry', 'gate/fourier-exponent', 'gate/is-linear',
                   'magnitude/array-span', 'magnitude/scalar'] + \
    ['gate/wavelet-family-' + f for f in ('haar', 'db', 'sym', 'coif', 'bior', 'rbio', 'dmey')] + \
    ['magnitude/weight-' + m for m in ('1e-12', '1e-6', '1', '1e6', '1e12')] + \
    ['magnitude/pair-' + q for q in ('c,c', 'c,2c', 'c,c(1+1e-6)', 'c,c(1+1e-3)')]
# (+ DERIVED_STRATA of round 5, appended below its definition)


def minimal_cases(ctx, rng, mk):
    """smallest admissible sizes of the other operator families"""
    odl = odl_()
    import odl.trafos as tr
    hit = ctx.hit
    # matrices 1x1, 1xn, nx1 (real, complex, weighted)
    for tag, r, c in (('1x1', 1, 1), ('1xn', 1, 3), ('nx1', 3, 1)):
        hit('minimal/matrix-' + tag)
        for dn, mkdom in (('none', lambda c: odl.rn(c)), ('const', lambda c: odl.rn(c, weighting=2.0)),
                          ('array', lambda c: odl.rn(c, weighting=[2.0, 1.0, 4.0][:c])),
                          ('cplx', lambda c: odl.cn(c))):
            M = rand_mat(rng, r, c, dn == 'cplx')
            dom = mkdom(c)
            yield mk('MatrixOperator', 'minimal shape={} domw={}'.format(tag, dn),
                     lambda M=M, dom=dom: odl.MatrixOperator(M, domain=dom), ('matrix', M, dom, None))
    # spaces with a single entry
    hit('minimal/space-1-entry')
    for tag, S in (('rn1', odl.rn(1)), ('cn1/const', odl.cn(1, weighting=0.5)),
                   ('discr1', odl.uniform_discr(0, 0.5, 1)), ('rn1x1', odl.rn((1, 1)))):
        v = rand_el(rng, S, nz=True)
        yield mk('MultiplyOperator', 'minimal space=' + tag, lambda v=v: odl.MultiplyOperator(v),
                 ('multiply', S, S, v))
        yield mk('InnerProductOperator', 'minimal space=' + tag,
                 lambda v=v: odl.InnerProductOperator(v), ('inner', S, v))
        yield mk('FlatteningOperator', 'minimal space=' + tag, lambda S=S: odl.FlatteningOperator(S),
                 ('flatten', S, 'C'))
        yield mk('RealPart', 'minimal space=' + tag, lambda S=S: odl.RealPart(S), ('realpart', S))
        yield mk('ComplexEmbedding', 'minimal space=' + tag,
                 lambda S=S: odl.ComplexEmbedding(S, 1 + 2j), ('cembed', S, 1 + 2j))
    # product spaces with ONE component
    hit('minimal/pspace-1-component')
    X = odl.rn(2)
    for wn, P in (('none', odl.ProductSpace(X, 1)), ('const', odl.ProductSpace(X, 1, weighting=2.0)),
                  ('array', odl.ProductSpace(X, 1, weighting=[4.0]))):
        G = rand_el(rng, P, nz=True)
        yield mk('PointwiseInner', 'minimal d=1 pspace-w=' + wn,
                 lambda P=P, G=G: odl.PointwiseInner(P, G), ('pwinner', P, X, G, None))
        yield mk('PointwiseInner', 'minimal d=1 op-w=unit pspace-w=' + wn,
                 lambda P=P, G=G: odl.PointwiseInner(P, G, weighting=1.0), ('pwinner', P, X, G, 1.0))
        yield mk('PointwiseSum', 'minimal d=1 pspace-w=' + wn, lambda P=P: odl.PointwiseSum(P),
                 ('pwinner', P, X, P.one(), None))
        yield mk('ComponentProjection', 'minimal d=1 index=int pspace-w=' + wn,
                 lambda P=P: odl.ComponentProjection(P, 0), ('proj', P, 0))
        yield mk('ComponentProjection', 'minimal d=1 index=list pspace-w=' + wn,
                 lambda P=P: odl.ComponentProjection(P, [0]), ('proj', P, [0]))
        yield mk('ComponentProjectionAdjoint', 'minimal d=1 index=int pspace-w=' + wn,
                 lambda P=P: odl.ComponentProjectionAdjoint(P, 0), ('projadj', P, 0))
    lf = small_leaf(rng, X)
    yield mk('ProductSpaceOperator', 'minimal 1x1 block',
             lambda lf=lf: odl.ProductSpaceOperator([[lf[0]]]),
             ('blocks', 'pso', odl.ProductSpace(X, 1), odl.ProductSpace(X, 1), [(0, 0, lf[1])]))
    # sampling a single point / all points of a 1-entry space
    hit('minimal/sampling-1-point')
    for tag, S in (('discr1', odl.uniform_discr(0, 0.5, 1)), ('rn1/const', odl.rn(1, weighting=2.0)),
                   ('discr2', odl.uniform_discr(0, 1, 2))):
        for variant in ('point_eval', 'integrate'):
            yield mk('SamplingOperator', 'minimal dom={} variant={}'.format(tag, variant),
                     lambda S=S, variant=variant: odl.SamplingOperator(S, [0], variant),
                     ('sampling', S, [0], variant))
        for variant in ('char_fun', 'dirac'):
            yield mk('WeightedSumSamplingOperator', 'minimal ran={} variant={}'.format(tag, variant),
                     lambda S=S, variant=variant: odl.WeightedSumSamplingOperator(S, [0, 0], variant),
                     ('wsum', S, [0, 0], variant))
    # resizing from / to axes of length 1 and 2
    from odl.util import numerics
    modes = list(getattr(numerics, '_SUPPORTED_RESIZE_PAD_MODES',
                         ('constant', 'symmetric', 'periodic', 'order0', 'order1')))
    for n in (1, 2):
        hit('minimal/resize-axis-{}'.format(n))
        S = odl.uniform_discr(0, n * 0.5, n)
        S2 = odl.uniform_discr([0, 0], [n * 0.5, 1.5], (n, 3))
        for mode in modes:
            for tag, dom, kw in (('extend', S, dict(ran_shp=(n + 1,))),
                                 ('extend-both', S, dict(ran_shp=(n + 2,))),
                                 ('shrink-to-1', S, dict(ran_shp=(1,))),
                                 ('2d', S2, dict(ran_shp=(n + 1, 2)))):
                if tag == 'shrink-to-1' and n == 1:
                    continue
                if n == 1 and tag != 'shrink-to-1' and mode in ('symmetric', 'order1'):
                    # documented preconditions: symmetric padding needs pad length < size,
                    # order1 needs at least 2 points
                    continue
                yield mk('ResizingOperator', 'minimal n={} {} mode={}'.format(n, tag, mode),
                         lambda dom=dom, kw=kw, mode=mode: odl.ResizingOperator(dom, pad_mode=mode, **kw))
                yield mk('ResizingOperatorAdjoint', 'minimal n={} {} mode={}'.format(n, tag, mode),
                         lambda dom=dom, kw=kw, mode=mode:
                         odl.ResizingOperator(dom, pad_mode=mode, **kw).adjoint)
    # Fourier transforms on axes of length 1 and 2, wavelets on 2 points
    # (a Fourier transform over an axis with ONE grid point cannot be constructed: the
    # reciprocal grid needs two points - the classes do not admit it)
    for n in (2,):
        hit('minimal/fourier-axis-{}'.format(n))
        dc = odl.uniform_discr(0, n, n, dtype='complex128')
        dr = odl.uniform_discr(0, n, n)
        d2 = odl.uniform_discr([0, 0], [n, 3], (n, 3), dtype='complex128')
        for impl in ('numpy', 'pyfftw'):
            yield mk('DiscreteFourierTransform', 'minimal n={} complex impl={}'.format(n, impl),
                     lambda dc=dc, impl=impl: tr.DiscreteFourierTransform(dc, impl=impl), approx=True)
            yield mk('DiscreteFourierTransform', 'minimal n={} real-halfcomplex impl={}'.format(n, impl),
                     lambda dr=dr, impl=impl: tr.DiscreteFourierTransform(dr, impl=impl, halfcomplex=True),
                     approx=True)
            yield mk('DiscreteFourierTransform', 'minimal n={}x3 axes=0 impl={}'.format(n, impl),
                     lambda d2=d2, impl=impl: tr.DiscreteFourierTransform(d2, axes=(0,), impl=impl),
                     approx=True)
            yield mk('FourierTransform', 'minimal n={} complex impl={}'.format(n, impl),
                     lambda dc=dc, impl=impl: tr.FourierTransform(dc, impl=impl), approx=True)
    hit('minimal/wavelet-axis-2')
    w2 = odl.uniform_discr(0, 2, 2)
    for pad in ('pywt_periodic', 'constant', 'symmetric'):
        yield mk('WaveletTransform', 'minimal n=2 wavelet=haar pad={}'.format(pad),
                 lambda pad=pad: tr.WaveletTransform(w2, 'haar', nlevels=1, pad_mode=pad), approx=True)
        yield mk('WaveletTransformInverse', 'minimal n=2 wavelet=haar pad={}'.format(pad),
                 lambda pad=pad: tr.WaveletTransform(w2, 'haar', nlevels=1, pad_mode=pad).inverse,
                 approx=True)


def gate_cases(ctx, rng, mk):
    """every option value that decides whether `.adjoint` is EXPOSED: either the documented
    error is raised (table EXPECT_NOADJ) or the returned operator passes the full identity"""
    odl = odl_()
    import odl.trafos as tr
    import pywt
    w8 = odl.uniform_discr(0, 8, 8)
    w16 = odl.uniform_discr(0, 4, 16)        # cell volume 1/4
    fams = []
    for fam in ('haar', 'db', 'sym', 'coif', 'bior', 'rbio', 'dmey'):
        names = pywt.wavelist(fam)
        fams.append((fam, names[0]))
        if len(names) > 1:
            fams.append((fam, names[1]))
    for fam, wav in fams:
        W = pywt.Wavelet(wav)
        ctx.hit('gate/wavelet-family-' + fam)
        if W.dec_len > 16:
            continue          # filter longer than the test spaces (dmey): family noted only
        for tag, S in (('discr8', w8), ('discr16/quarter', w16)):
            gate = 'orthogonal' if W.orthogonal else 'nonorthogonal'
            yield mk('WaveletTransform', 'gate dom={} wavelet={} family={} {} pad=pywt_periodic'.format(
                tag, wav, fam, gate),
                lambda S=S, wav=wav: tr.WaveletTransform(S, wav, nlevels=1, pad_mode='pywt_periodic'),
                approx=True)
            yield mk('WaveletTransformInverse', 'gate ran={} wavelet={} family={} {} pad=pywt_periodic'.format(
                tag, wav, fam, gate),
                lambda S=S, wav=wav: tr.WaveletTransform(S, wav, nlevels=1,
                                                         pad_mode='pywt_periodic').inverse,
                approx=True)
    # exponent gate of the Fourier transforms: adjoint only for (2, 2)
    ctx.hit('gate/fourier-exponent')
    d4 = odl.uniform_discr(-1, 1, 4, dtype='complex128', exponent=1.0)
    yield mk('FourierTransform', 'gate exponent=1', lambda: tr.FourierTransform(d4), approx=True)
    yield mk('DiscreteFourierTransform', 'gate exponent=1',
             lambda: tr.DiscreteFourierTransform(odl.uniform_discr(0, 4, 4, dtype='complex128',
                                                                   exponent=1.0)), approx=True)
    # is_linear gates: affine / non-linear operators expose no adjoint
    ctx.hit('gate/is-linear')
    X = odl.uniform_discr(0, 2, 4)
    r3 = odl.rn(3)
    yield mk('PartialDerivative', 'gate pad_const=1 (affine)',
             lambda: odl.PartialDerivative(X, 0, pad_mode='constant', pad_const=1))
    yield mk('Gradient', 'gate pad_const=1 (affine)',
             lambda: odl.Gradient(X, pad_mode='constant', pad_const=1))
    yield mk('Divergence', 'gate pad_const=1 (affine)',
             lambda: odl.Divergence(range=X, pad_mode='constant', pad_const=1))
    yield mk('Laplacian', 'gate pad_const=1 (affine)',
             lambda: odl.Laplacian(X, pad_mode='constant', pad_const=1))
    yield mk('ResizingOperator', 'gate pad_const=1 (affine)',
             lambda: odl.ResizingOperator(X, ran_shp=(6,), pad_mode='constant', pad_const=1))
    yield mk('ConstantOperator', 'gate nonzero constant', lambda: odl.ConstantOperator(r3.one()))
    yield mk('PowerOperator', 'gate exponent=2', lambda: odl.PowerOperator(r3, 2))
    yield mk('OperatorVectorSum', 'gate affine',
             lambda: odl.operator.operator.OperatorVectorSum(odl.IdentityOperator(r3), r3.one()))
    yield mk('UfuncOperator', 'gate sin', lambda: odl.ufunc_ops.sin(r3))
    yield mk('PointwiseNorm', 'gate nonlinear', lambda: odl.PointwiseNorm(odl.ProductSpace(r3, 2)))
    yield mk('ComplexModulus', 'gate nonlinear', lambda: odl.ComplexModulus(odl.cn(3)))


# magnitudes (powers of two near 1e-12, 1e-6, 1, 1e6, 1e12) and domain/range pairs
MAGS = [('1e-12', 2.0 ** -40), ('1e-6', 2.0 ** -20), ('1', 1.0), ('1e6', 2.0 ** 20),
        ('1e12', 2.0 ** 40)]
PAIRS = [('c,c', 1.0), ('c,2c', 2.0), ('c,c(1+1e-6)', 1.0 + 2.0 ** -20),
         ('c,c(1+1e-3)', 1.0 + 2.0 ** -10)]


def magnitude_cases(ctx, rng, mk):
    """wherever weights / cell volumes / scalings enter an adjoint: every magnitude and every
    kind of domain/range pair (equal, factor 2, nearly equal), array weights spanning many
    orders of magnitude, tiny and huge scalar multiples"""
    odl = odl_()
    import odl.trafos as tr
    from odl.operator import operator as opm
    from odl.operator.tensor_ops import PointwiseInnerAdjoint
    for mn, c in MAGS:
        ctx.hit('magnitude/weight-' + mn)
        for pn, f in PAIRS:
            ctx.hit('magnitude/pair-' + pn)
            c2 = c * f
            tag = 'mag={} pair={}'.format(mn, pn)
            M = rand_mat(rng, 2, 3)
            dom, ran = odl.rn(3, weighting=c), odl.rn(2, weighting=c2)
            yield mk('MatrixOperator', 'magnitude ' + tag,
                     lambda M=M, dom=dom, ran=ran: odl.MatrixOperator(M, domain=dom, range=ran),
                     ('matrix', M, dom, ran))
            X = odl.rn(2)
            V = odl.ProductSpace(X, 2, weighting=c)
            G = rand_el(rng, V, nz=True)
            yield mk('PointwiseInner', 'magnitude pspace-w=c op-w=c2 ' + tag,
                     lambda V=V, G=G, c2=c2: odl.PointwiseInner(V, G, weighting=c2),
                     ('pwinner', V, X, G, c2))
            yield mk('PointwiseInnerAdjoint', 'magnitude pspace-w=c op-w=c2 ' + tag,
                     lambda V=V, G=G, c2=c2, X=X: PointwiseInnerAdjoint(X, G, vfspace=V, weighting=c2),
                     ('pwinneradj', V, X, G, c2))
            Va = odl.ProductSpace(X, 2, weighting=[c, c2])
            Ga = rand_el(rng, Va, nz=True)
            yield mk('PointwiseInner', 'magnitude pspace-w=[c,c2] op-w=[c2,c] ' + tag,
                     lambda Va=Va, Ga=Ga, c=c, c2=c2: odl.PointwiseInner(Va, Ga, weighting=[c2, c]),
                     ('pwinner', Va, X, Ga, [c2, c]))
            P = odl.ProductSpace(odl.rn(2), odl.rn(3), weighting=[c, c2])
            yield mk('ComponentProjection', 'magnitude index=int ' + tag,
                     lambda P=P: odl.ComponentProjection(P, 1), ('proj', P, 1))
            yield mk('ComponentProjection', 'magnitude index=list ' + tag,
                     lambda P=P: odl.ComponentProjection(P, [1, 0]), ('proj', P, [1, 0]))
            yield mk('ComponentProjectionAdjoint', 'magnitude index=int ' + tag,
                     lambda P=P: odl.ComponentProjectionAdjoint(P, 0), ('projadj', P, 0))
            D = odl.uniform_discr(0, 4 * c, 4)           # cell volume c
            D2 = odl.uniform_discr(0, 4 * c, 4, weighting=c2)
            for S_, sn in ((D, 'cell=c'), (D2, 'cell=c weighting=c2'),
                           (odl.rn(4, weighting=c2), 'rn w=c2')):
                if sn == 'cell=c' and pn != 'c,c':
                    continue
                for variant in ('point_eval', 'integrate'):
                    yield mk('SamplingOperator', 'magnitude {} variant={} {}'.format(sn, variant, tag),
                             lambda S_=S_, variant=variant: odl.SamplingOperator(S_, [1, 3, 1], variant),
                             ('sampling', S_, [1, 3, 1], variant))
                yield mk('WeightedSumSamplingOperator', 'magnitude {} variant=dirac {}'.format(sn, tag),
                         lambda S_=S_: odl.WeightedSumSamplingOperator(S_, [1, 3, 1], 'dirac'),
                         ('wsum', S_, [1, 3, 1], 'dirac'))
                yield mk('FlatteningOperator', 'magnitude {} {}'.format(sn, tag),
                         lambda S_=S_: odl.FlatteningOperator(S_), ('flatten', S_, 'C'))
        # cell volume / cell side c alone: differential, resizing, wavelet, Fourier operators
        D = odl.uniform_discr(0, 4 * c, 4)
        D2d = odl.uniform_discr([0, 0], [3 * c, 4.0], (3, 4))
        tag = 'mag=' + mn
        for method in ('forward', 'central'):
            for pad in ('constant', 'symmetric', 'order1'):
                yield mk('PartialDerivative', 'magnitude cell-side {} method={} pad={}'.format(tag, method, pad),
                         lambda D=D, method=method, pad=pad: odl.PartialDerivative(
                             D, 0, method=method, pad_mode=pad))
        yield mk('Gradient', 'magnitude cell-sides (c, 1) ' + tag, lambda D2d=D2d: odl.Gradient(D2d))
        yield mk('Divergence', 'magnitude cell-sides (c, 1) ' + tag,
                 lambda D2d=D2d: odl.Divergence(range=D2d))
        yield mk('Laplacian', 'magnitude cell-sides (c, 1) ' + tag, lambda D2d=D2d: odl.Laplacian(D2d))
        for mode in ('constant', 'periodic', 'order0', 'order1'):
            yield mk('ResizingOperator', 'magnitude cell-side {} mode={}'.format(tag, mode),
                     lambda D=D, mode=mode: odl.ResizingOperator(D, ran_shp=(7,), pad_mode=mode))
            yield mk('ResizingOperatorAdjoint', 'magnitude cell-side {} mode={}'.format(tag, mode),
                     lambda D=D, mode=mode: odl.ResizingOperator(D, ran_shp=(7,), pad_mode=mode).adjoint)
        W8 = odl.uniform_discr(0, 8 * c, 8)
        yield mk('WaveletTransform', 'magnitude cell-side {} wavelet=haar pad=pywt_periodic'.format(tag),
                 lambda W8=W8: tr.WaveletTransform(W8, 'haar', nlevels=1, pad_mode='pywt_periodic'),
                 approx=True)
        yield mk('WaveletTransformInverse', 'magnitude cell-side {} wavelet=haar pad=pywt_periodic'.format(tag),
                 lambda W8=W8: tr.WaveletTransform(W8, 'haar', nlevels=1, pad_mode='pywt_periodic').inverse,
                 approx=True)
        Dc = odl.uniform_discr(0, 4 * c, 4, dtype='complex128')
        yield mk('DiscreteFourierTransform', 'magnitude cell-side ' + tag,
                 lambda Dc=Dc: tr.DiscreteFourierTransform(Dc), approx=True)
        yield mk('FourierTransform', 'magnitude cell-side ' + tag,
                 lambda Dc=Dc: tr.FourierTransform(Dc), approx=True)
        # plain weighted spaces of that magnitude
        S = odl.cn(2, weighting=c)
        v = rand_el(rng, S, nz=True)
        yield mk('InnerProductOperator', 'magnitude ' + tag, lambda v=v: odl.InnerProductOperator(v),
                 ('inner', S, v))
        yield mk('MultiplyOperator', 'magnitude domain=field ' + tag,
                 lambda v=v, S=S: odl.MultiplyOperator(v, domain=S.field), ('multfield', S, v))
        yield mk('ComplexEmbedding', 'magnitude ' + tag,
                 lambda c=c: odl.ComplexEmbedding(odl.rn(2, weighting=c), 1 + 2j),
                 ('cembed', odl.rn(2, weighting=c), 1 + 2j))
    # array weights spanning many orders of magnitude
    ctx.hit('magnitude/array-span')
    wd, wr = [2.0 ** -40, 1.0, 2.0 ** 40], [2.0 ** 20, 2.0 ** -20]
    M = rand_mat(rng, 2, 3)
    dom, ran = odl.rn(3, weighting=wd), odl.rn(2, weighting=wr)
    yield mk('MatrixOperator', 'magnitude array-span', lambda: odl.MatrixOperator(M, domain=dom, range=ran),
             ('matrix', M, dom, ran))
    Mc = rand_mat(rng, 3, 3, True)
    domc = odl.cn(3, weighting=wd)
    yield mk('MatrixOperator', 'magnitude array-span complex default-range',
             lambda: odl.MatrixOperator(Mc, domain=domc), ('matrix', Mc, domc, None))
    Sa = odl.rn(3, weighting=wd)
    yield mk('SamplingOperator', 'magnitude array-span', lambda: odl.SamplingOperator(Sa, [2, 0, 2]),
             ('sampling', Sa, [2, 0, 2], 'point_eval'))
    yield mk('FlatteningOperator', 'magnitude array-span',
             lambda: odl.FlatteningOperator(odl.rn((1, 3), weighting=[wd])), None)
    X = odl.rn(2)
    Vs = odl.ProductSpace(X, 3, weighting=wd)
    Gs = rand_el(rng, Vs, nz=True)
    yield mk('PointwiseInner', 'magnitude array-span op-w=reversed',
             lambda: odl.PointwiseInner(Vs, Gs, weighting=wd[::-1]), ('pwinner', Vs, X, Gs, wd[::-1]))
    yield mk('PointwiseSum', 'magnitude array-span', lambda: odl.PointwiseSum(Vs),
             ('pwinner', Vs, X, Vs.one(), None))
    yield mk('ComponentProjection', 'magnitude array-span index=list',
             lambda: odl.ComponentProjection(Vs, [2, 0]), ('proj', Vs, [2, 0]))
    # tiny and huge scalar multiples
    ctx.hit('magnitude/scalar')
    c3 = odl.cn(3, weighting=2.0)
    for sn, sc in (('1e-9', 2.0 ** -30), ('1e9', 2.0 ** 30), ('1e-9j', (2.0 ** -30) * 1j),
                   ('1e9(1+j)', (2.0 ** 30) * (1 + 1j))):
        Mm = rand_mat(rng, 3, 3, True)
        A0 = odl.MatrixOperator(Mm, domain=c3, range=c3)
        sA0 = ('matrix', Mm, c3, c3)
        yield mk('ScalingOperator', 'magnitude scalar=' + sn,
                 lambda sc=sc: odl.ScalingOperator(c3, sc), ('scaling', c3, sc))
        yield mk('OperatorLeftScalarMult', 'magnitude scalar=' + sn,
                 lambda A0=A0, sc=sc: opm.OperatorLeftScalarMult(A0, sc), ('lsc', sA0, sc))
        yield mk('OperatorRightScalarMult', 'magnitude scalar=' + sn,
                 lambda A0=A0, sc=sc: opm.OperatorRightScalarMult(A0, sc), ('rsc', sA0, sc))
        yield mk('ComplexEmbedding', 'magnitude scalar=' + sn,
                 lambda sc=sc: odl.ComplexEmbedding(odl.rn(2), sc), ('cembed', odl.rn(2), sc))


def sclass(s):
    z = complex(s)
    if z.imag != 0:
        return 'cplx' if z.real != 0 else 'imag'
    return {0.0: '0', 1.0: '1'}.get(z.real, 'gen' if z.real > 0 else 'neg')


def rand_mat(rng, r, c, cplx=False):
    M = np.array([[dy(rng, -8, 8, 2) for _ in range(c)] for _ in range(r)])
    if cplx:
        M = M + 1j * np.array([[dy(rng, -4, 4, 2) for _ in range(c)] for _ in range(r)])
    return M


def matrix_cases(ctx, rng, mk):
    odl = odl_()
    quick = ctx.quick
    doms = [('none', odl.rn(3)), ('const', odl.rn(3, weighting=2.0)),
            ('array', odl.rn(3, weighting=[1.0, 2.0, 4.0])),
            ('discr', odl.uniform_discr(0, 1.5, 3))]
    for wk, dom in doms:
        for rows in (2, 3):
            M = rand_mat(rng, rows, 3)
            yield mk('MatrixOperator', 'domw={} ranw=default shape={}x3 dtype=real'.format(wk, rows),
                     lambda M=M, dom=dom: odl.MatrixOperator(M, domain=dom),
                     ('matrix', M, dom, None))
    M = rand_mat(rng, 2, 3)
    yield mk('MatrixOperator', 'domw=none ranw=none shape=2x3 dtype=real spaces=default',
             lambda M=M: odl.MatrixOperator(M), ('matrix', M, None, None))
    for dw, rw in [(2.0, 2.0), (2.0, 4.0), (None, 2.0), (0.5, None)]:
        M = rand_mat(rng, 2, 3)
        dom = odl.rn(3, weighting=dw) if dw else odl.rn(3)
        ran = odl.rn(2, weighting=rw) if rw else odl.rn(2)
        yield mk('MatrixOperator', 'domw={} ranw={} explicit-range {} shape=2x3 dtype=real'.format(
            'const' if dw else 'none', 'const' if rw else 'none',
            'equal' if dw == rw else 'unequal'),
            lambda M=M, dom=dom, ran=ran: odl.MatrixOperator(M, domain=dom, range=ran),
            ('matrix', M, dom, ran))
    M = rand_mat(rng, 2, 2)
    yield mk('MatrixOperator', 'domw=array ranw=array explicit-range equal-arrays shape=2x2',
             lambda M=M: odl.MatrixOperator(M, domain=odl.rn(2, weighting=[1.0, 2.0]),
                                            range=odl.rn(2, weighting=[1.0, 2.0])),
             ('matrix', M, odl.rn(2, weighting=[1.0, 2.0]), odl.rn(2, weighting=[1.0, 2.0])))
    # complex
    M = rand_mat(rng, 2, 3, True)
    yield mk('MatrixOperator', 'domw=none shape=2x3 dtype=complex dom=complex',
             lambda M=M: odl.MatrixOperator(M, domain=odl.cn(3)), ('matrix', M, odl.cn(3), None))
    M = rand_mat(rng, 3, 2, True)
    yield mk('MatrixOperator', 'domw=const shape=3x2 dtype=complex dom=complex',
             lambda M=M: odl.MatrixOperator(M, domain=odl.cn(2, weighting=0.5)),
             ('matrix', M, odl.cn(2, weighting=0.5), None))
    M = rand_mat(rng, 2, 3)
    yield mk('MatrixOperator', 'domw=none shape=2x3 dtype=real dom=complex',
             lambda M=M: odl.MatrixOperator(M, domain=odl.cn(3)), ('matrix', M, odl.cn(3), None))
    M = rand_mat(rng, 2, 3, True)
    yield mk('MatrixOperator', 'domw=none shape=2x3 dtype=complex dom=real',
             lambda M=M: odl.MatrixOperator(M, domain=odl.rn(3)), None)
    # axes on 2-d domains
    for axis in (0, 1):
        M = rand_mat(rng, 2, 3 if axis == 1 else 2)
        dom = odl.rn((2, 3))
        yield mk('MatrixOperator', 'domw=none ndim=2 axis={}'.format(axis),
                 lambda M=M, dom=dom, axis=axis: odl.MatrixOperator(M, domain=dom, axis=axis),
                 ('matrixaxis', M, None, None, axis))
        domd = odl.uniform_discr([0, 0], [1, 3], (2, 3))
        yield mk('MatrixOperator', 'domw=discr ndim=2 axis={}'.format(axis),
                 lambda M=M, domd=domd, axis=axis: odl.MatrixOperator(M, domain=domd, axis=axis),
                 ('matrixaxis', M, None, None, axis))
    M = rand_mat(rng, 2, 3)

    def _custom():
        return odl.rn(3, inner=lambda x, y: 2.0 * float(np.vdot(y.data, x.data)))
    yield mk('MatrixOperator', 'domw=custom ranw=none explicit-range shape=2x3',
             lambda M=M: odl.MatrixOperator(M, domain=_custom(), range=odl.rn(2)))
    yield mk('MatrixOperator', 'domw=custom ranw=default shape=2x3',
             lambda M=M: odl.MatrixOperator(M, domain=_custom()))
    M = rand_mat(rng, 2, 2)
    yield mk('MatrixOperator', 'domw=array ndim=2 axis=0',
             lambda M=M: odl.MatrixOperator(M, domain=odl.rn((2, 3), weighting=np.array(
                 [[1.0, 2.0, 4.0], [2.0, 1.0, 0.5]])), axis=0), ('matrixaxis', M, None, None, 0))
    yield mk('MatrixOperator', 'domw=const ranw=const ndim=2 axis=1 explicit-range unequal',
             lambda M=M: odl.MatrixOperator(M, domain=odl.rn((3, 2), weighting=2.0),
                                            range=odl.rn((3, 2), weighting=0.5), axis=1),
             ('matrixaxis', M, None, None, 1))
    if not quick:
        import scipy.sparse
        M = rand_mat(rng, 3, 3)
        M[0, 1] = M[2, 0] = 0
        yield mk('MatrixOperator', 'sparse domw=none shape=3x3',
                 lambda M=M: odl.MatrixOperator(scipy.sparse.coo_matrix(M)))
        yield mk('MatrixOperator', 'sparse domw=const shape=3x3',
                 lambda M=M: odl.MatrixOperator(scipy.sparse.csr_matrix(M),
                                                domain=odl.rn(3, weighting=2.0)))
        yield mk('MatrixOperator', 'sparse domw=array ranw=const shape=3x3',
                 lambda M=M: odl.MatrixOperator(scipy.sparse.csr_matrix(M),
                                                domain=odl.rn(3, weighting=[1.0, 2.0, 4.0]),
                                                range=odl.rn(3, weighting=0.5)))


def power_spaces(ctx):
    odl = odl_()
    bases = [('rn2', odl.rn(2)), ('rn2/const', odl.rn(2, weighting=2.0)), ('cn2', odl.cn(2)),
             ('discr3', odl.uniform_discr(0, 1.5, 3)), ('rn2/array', odl.rn(2, weighting=[1.0, 4.0]))]
    if not ctx.quick:
        bases += [('discr2x2', odl.uniform_discr([0, 0], [1, 1], (2, 2))),
                  ('cdiscr2', odl.uniform_discr(0, 1, 2, dtype='complex128'))]
    for tag, X in bases:
        for d in ((2, 3) if not ctx.quick else (2,)):
            yield 'none', X, d, odl.ProductSpace(X, d)
            yield 'const', X, d, odl.ProductSpace(X, d, weighting=2.0)
            yield 'array', X, d, odl.ProductSpace(X, d, weighting=[1.0, 2.0, 4.0][:d])


def pointwise_cases(ctx, rng, mk):
    odl = odl_()
    for pw, X, d, V in power_spaces(ctx):
        G = rand_el(rng, V)
        for ow, wt in (('default', None), ('const', 0.5), ('array', [2.0, 1.0, 0.25][:d]),
                       ('unit-const', 1.0), ('unit-array', [1.0, 1.0, 1.0][:d])):
            opts = 'base={} d={} pspace-w={} op-w={}'.format(sp_sig(X), d, pw, ow)
            yield mk('PointwiseInner', opts,
                     lambda V=V, G=G, wt=wt: odl.PointwiseInner(V, G, weighting=wt),
                     ('pwinner', V, X, G, wt))
            yield mk('PointwiseInnerAdjoint', opts,
                     lambda V=V, G=G, wt=wt, X=X: odl.operator.tensor_ops.PointwiseInnerAdjoint(
                         X, G, vfspace=V, weighting=wt), ('pwinneradj', V, X, G, wt))
        yield mk('PointwiseSum', 'base={} d={} pspace-w={} op-w=default'.format(sp_sig(X), d, pw),
                 lambda V=V: odl.PointwiseSum(V), ('pwinner', V, X, V.one(), None))
        yield mk('PointwiseSum', 'base={} d={} pspace-w={} op-w=const'.format(sp_sig(X), d, pw),
                 lambda V=V: odl.PointwiseSum(V, weighting=4.0), ('pwinner', V, X, V.one(), 4.0))
        yield mk('PointwiseSum', 'base={} d={} pspace-w={} op-w=unit-const'.format(sp_sig(X), d, pw),
                 lambda V=V: odl.PointwiseSum(V, weighting=1.0), ('pwinner', V, X, V.one(), 1.0))
    X = odl.rn(2)
    G = rand_el(rng, odl.ProductSpace(X, 2))
    yield mk('PointwiseInnerAdjoint', 'base=rT1 d=2 default-range op-w=array',
             lambda: odl.operator.tensor_ops.PointwiseInnerAdjoint(X, G, weighting=[2.0, 4.0]))


def sampling_cases(ctx, rng, mk):
    odl = odl_()
    doms = [('rn4', odl.rn(4)), ('discr4', odl.uniform_discr(0, 2, 4)),
            ('discr4/unit', odl.uniform_discr(0, 4, 4)),
            ('rn4/const', odl.rn(4, weighting=2.0)),
            ('rn4/array', odl.rn(4, weighting=[1.0, 2.0, 4.0, 1.0])),
            ('cn4', odl.cn(4)), ('cdiscr4', odl.uniform_discr(0, 2, 4, dtype='complex128'))]
    pts_sets = [('distinct', [0, 2]), ('dup', [1, 3, 1]), ('single', 2)]
    for tag, S in doms:
        for pn, pts in pts_sets:
            for variant in ('point_eval', 'integrate'):
                yield mk('SamplingOperator', 'dom={} pts={} variant={}'.format(sp_sig(S), pn, variant),
                         lambda S=S, pts=pts, variant=variant: odl.SamplingOperator(S, pts, variant),
                         ('sampling', S, pts, variant))
            for variant in ('char_fun', 'dirac'):
                yield mk('WeightedSumSamplingOperator',
                         'ran={} pts={} variant={}'.format(sp_sig(S), pn, variant),
                         lambda S=S, pts=pts, variant=variant:
                         odl.WeightedSumSamplingOperator(S, pts, variant),
                         ('wsum', S, pts, variant))
    S2 = odl.uniform_discr([0, 0], [1, 2], (2, 4))
    for variant in ('point_eval', 'integrate'):
        yield mk('SamplingOperator', 'dom={} pts=dup2d variant={}'.format(sp_sig(S2), variant),
                 lambda variant=variant: odl.SamplingOperator(S2, [[0, 1, 1, 0], [0, 3, 3, 2]], variant),
                 ('sampling', S2, [[0, 1, 1, 0], [0, 3, 3, 2]], variant))
    yield mk('WeightedSumSamplingOperator', 'ran={} pts=dup2d variant=dirac'.format(sp_sig(S2)),
             lambda: odl.WeightedSumSamplingOperator(S2, [[0, 1, 1], [1, 3, 3]], 'dirac'),
             ('wsum', S2, [[0, 1, 1], [1, 3, 3]], 'dirac'))
    fl = [odl.rn((2, 3)), odl.uniform_discr([0, 0], [1, 3], (2, 3)),
          odl.uniform_discr([0, 0], [1, 1.5], (2, 3)), odl.rn((2, 2), weighting=2.0),
          odl.cn((2, 2)), odl.rn(3), odl.uniform_discr(0, 1.5, 3),
          odl.rn((2, 2), weighting=[[1.0, 2.0], [4.0, 1.0]])]
    for S in fl:
        for order in ('C', 'F'):
            yield mk('FlatteningOperator', 'dom={} order={}'.format(sp_sig(S), order),
                     lambda S=S, order=order: odl.FlatteningOperator(S, order),
                     ('flatten', S, order))
            yield mk('FlatteningOperatorInverse', 'dom={} order={}'.format(sp_sig(S), order),
                     lambda S=S, order=order: odl.FlatteningOperator(S, order).inverse,
                     ('flatteninv', S, order))


def nd_cases(ctx, rng, mk):
    """round 4 stream: the n-d leaves of the model (MatrixOperator along an axis, F-order
    flattening, n-d sampling) on several ranks / shapes / weightings, alone and inside
    expression trees (so that `adj_sound` over the proved leaf contracts is what is compared)"""
    odl = odl_()
    from odl.operator import operator as opm
    shapes = [(2, 3), (3, 2), (2, 2, 3)]
    if not ctx.quick:
        shapes += [(3, 1, 2), (2, 3, 2, 2), (1, 4), (4, 1)]

    def spaces(sh):
        nd = len(sh)
        yield 'none', odl.rn(sh)
        yield 'const', odl.rn(sh, weighting=2.0)
        yield 'discr', odl.uniform_discr([0] * nd, [n / 2.0 for n in sh], sh)
        yield 'cplx-const', odl.cn(sh, weighting=0.5)
        arr = np.array([2.0 ** ((i % 5) - 2) for i in range(int(np.prod(sh)))]).reshape(sh)
        yield 'array', odl.rn(sh, weighting=arr)
        if not ctx.quick:
            yield 'cdiscr', odl.uniform_discr([0] * nd, [n / 2.0 for n in sh], sh, dtype='complex128')

    for sh in shapes:
        shs = 'x'.join(map(str, sh))
        for wtag, S in spaces(sh):
            cplx = is_cplx(S)
            ctx.hit('nd/rank-{}'.format(len(sh)))
            ctx.hit('nd/weight-' + wtag)
            for axis in range(len(sh)):
                m = rng.choice([1, 2, 3])
                M = rand_mat(rng, m, sh[axis], cplx and rng.random() < 0.7)
                rsh = tuple(m if a == axis else n for a, n in enumerate(sh))
                for rtag, rw in (('default', None), ('const4', 4.0)):
                    if wtag == 'array':
                        # bare transpose on n-d array weightings = open finding F7, witnessed (and
                        # its model branch tied) by the case `domw=array ndim=2 axis=0` above
                        continue

                    def build(M=M, S=S, axis=axis, rw=rw, rsh=rsh):
                        if rw is None:
                            return odl.MatrixOperator(M, domain=S, axis=axis)
                        return odl.MatrixOperator(M, domain=S, axis=axis, range=odl.tensor_space(
                            rsh, dtype=S.dtype, weighting=rw))
                    yield mk('MatrixOperator', 'nd shape={} domw={} axis={} rows={} ran={}'.format(
                        shs, wtag, axis, m, rtag), build, ('matrixaxis', M, None, None, axis))
            for order in ('F',):
                yield mk('FlatteningOperator', 'nd shape={} domw={} order={}'.format(shs, wtag, order),
                         lambda S=S, order=order: odl.FlatteningOperator(S, order),
                         ('flatten', S, order))
                yield mk('FlatteningOperatorInverse', 'nd shape={} domw={} order={}'.format(shs, wtag, order),
                         lambda S=S, order=order: odl.FlatteningOperator(S, order).inverse,
                         ('flatteninv', S, order))
            npts = rng.choice([1, 3, 4])
            pts = [[rng.randrange(n) for _ in range(npts)] for n in sh]
            if npts > 1:
                for row in pts:
                    row[-1] = row[0]        # a duplicate point
            for variant in ('point_eval', 'integrate'):
                yield mk('SamplingOperator', 'nd shape={} domw={} npts={} variant={}'.format(
                    shs, wtag, npts, variant),
                    lambda S=S, pts=pts, variant=variant: odl.SamplingOperator(S, pts, variant),
                    ('sampling', S, pts, variant))
            for variant in ('char_fun', 'dirac'):
                yield mk('WeightedSumSamplingOperator', 'nd shape={} ranw={} npts={} variant={}'.format(
                    shs, wtag, npts, variant),
                    lambda S=S, pts=pts, variant=variant: odl.WeightedSumSamplingOperator(S, pts, variant),
                    ('wsum', S, pts, variant))
            # trees over the new leaves: s * (Flatten_F o MatrixOperator(axis)) + Flatten_F o (v *)
            if wtag in ('array',):
                continue
            axis = rng.randrange(len(sh))
            M = rand_mat(rng, sh[axis], sh[axis], cplx)
            sc = rng.choice([2.0, -0.5] + ([1 + 1j, -2j] if cplx else []))
            v = rand_el(rng, S)
            sM = ('matrixaxis', M, S, S, axis)
            sF = ('flatten', S, 'F')

            def tree(M=M, S=S, axis=axis, sc=sc, v=v):
                F = odl.FlatteningOperator(S, 'F')
                A = odl.MatrixOperator(M, domain=S, range=S, axis=axis)
                return opm.OperatorSum(
                    opm.OperatorLeftScalarMult(opm.OperatorComp(F, A), sc),
                    opm.OperatorRightVectorMult(F, v))
            yield mk('OperatorSum', 'nd-tree shape={} domw={} axis={} s={}'.format(
                shs, wtag, axis, sclass(sc)), tree,
                ('sum', ('lsc', ('comp', sF, sM), sc), ('rvec', sF, v, S)))
            pts2 = [[rng.randrange(n) for _ in range(2)] for n in sh]

            def tree2(M=M, S=S, axis=axis, pts2=pts2):
                A = odl.MatrixOperator(M, domain=S, range=S, axis=axis)
                return opm.OperatorComp(odl.SamplingOperator(S, pts2, 'integrate'), A)
            yield mk('OperatorComp', 'nd-tree sampling-after-matrix shape={} domw={} axis={}'.format(
                shs, wtag, axis), tree2,
                ('comp', ('sampling', S, pts2, 'integrate'), sM))


DERIVED_STRATA = (
    ['dunder/' + n for n in ('__add__', '__sub__', '__neg__', '__pos__', '__mul__/operator',
                             '__mul__/real', '__mul__/complex', '__mul__/vector',
                             '__rmul__/scalar', '__rmul__/vector', '__rmul__/functional',
                             '__matmul__', '__rmatmul__', '__pow__', '__truediv__',
                             '__radd__/affine', '__rsub__/affine', '__add__/scalar-affine')] +
    ['via/inverse/' + n for n in ('ScalingOperator', 'RealPart', 'ImagPart', 'ComplexEmbedding',
                                  'MatrixOperator', 'OperatorComp', 'OperatorLeftScalarMult',
                                  'OperatorRightScalarMult', 'OperatorLeftVectorMult',
                                  'OperatorRightVectorMult', 'DiagonalOperator',
                                  'FlatteningOperatorInverse', 'ResizingOperator',
                                  'ResizingOperatorAdjoint')] +
    ['via/derivative/' + n for n in ('linear', 'RealPart', 'ImagPart', 'OperatorSum',
                                     'OperatorComp', 'OperatorPointwiseProduct',
                                     'OperatorLeftScalarMult', 'OperatorRightScalarMult',
                                     'OperatorLeftVectorMult', 'OperatorRightVectorMult',
                                     'FunctionalLeftVectorMult', 'OperatorVectorSum',
                                     'NormOperator', 'DistOperator', 'PowerOperator',
                                     'ConstantOperator', 'PartialDerivative', 'Gradient',
                                     'Divergence', 'Laplacian', 'ResizingOperator',
                                     'ProductSpaceOperator', 'BroadcastOperator',
                                     'ReductionOperator', 'DiagonalOperator', 'PointwiseNorm')] +
    ['via/getitem/' + n for n in ('ProductSpaceOperator-entry', 'ProductSpaceOperator-row',
                                  'ProductSpaceOperator-row-heterogeneous', 'BroadcastOperator',
                                  'ReductionOperator', 'DiagonalOperator')])


def derived_cases(ctx, rng, mk):
    """round 5 stream: operators that the code DERIVES from others and that expose an adjoint
    themselves: the arithmetic dunder methods of `Operator` (what users write: A + B, A - B,
    2 * A, A * v, A ** 3, A / 2, v @ A ...; compared with the model's expression classes too),
    `.inverse` of every invertible linear class, `.derivative(x)` of affine / non-linear
    operators (a linear operator with an adjoint), and `__getitem__` of the block operators.
    Every result goes through the full adjoint oracle."""
    odl = odl_()
    from odl.operator import operator as opm
    S, C = odl.rn(3, weighting=2.0), odl.cn(3, weighting=2.0)
    D = odl.uniform_discr(0, 2, 4)
    D2 = odl.uniform_discr([0, 0], [1, 1.5], (2, 3))
    W2 = odl.rn(2)
    M = rand_mat(rng, 3, 3)
    Mc = rand_mat(rng, 3, 3, True)
    v, vc = rand_el(rng, S, nz=True), rand_el(rng, C, nz=True)
    x0 = rand_el(rng, S, nz=True)
    w = rand_el(rng, W2, nz=True)
    A = odl.MatrixOperator(M, domain=S, range=S)
    Ac = odl.MatrixOperator(Mc, domain=C, range=C)
    B, Bc = odl.MultiplyOperator(v), odl.MultiplyOperator(vc)
    sA, sAc = ('matrix', M, S, S), ('matrix', Mc, C, C)
    sB, sBc = ('multiply', S, S, v), ('multiply', C, C, vc)
    f = odl.InnerProductOperator(v)
    sf = ('inner', S, v)
    P = odl.PowerOperator(S, 2)
    Sc, Sc4 = odl.ScalingOperator(S, 2.0), odl.ScalingOperator(S, 4.0)
    PS2 = odl.ProductSpace(S, 2)
    xx = PS2.element([x0, v])
    try:    # values of the real code used in the model specs of the chain / product rule
        Ax0, Px0 = A(x0), P(x0)
    except Exception:  # noqa  (a mutated repo must not crash the generator)
        Ax0, Px0 = x0, x0
    # model specs of derivatives: PowerOperator(S, 2).derivative(y) = 2 * MultiplyOperator(y)
    def sPd(y):
        return ('lsc', ('multiply', S, S, S.element(y)), 2.0)
    # invertible with a dyadic inverse: power-of-two diagonal, strictly upper triangular rest
    Mi = np.triu(M, 1) + np.diag([2.0, 4.0, 0.5])

    def d(stratum, cls, opts, build, spec=None, approx=False):
        ctx.hit(stratum)
        return mk(cls, opts, build, spec, approx)

    # --- arithmetic dunder methods (operator.py: Operator.__add__ ... __truediv__)
    for fld, a, b, vv, sa, sb, SS in (('real', A, B, v, sA, sB, S), ('complex', Ac, Bc, vc, sAc, sBc, C)):
        o = 'field=' + fld
        yield d('dunder/__add__', 'Operator.__add__', o, lambda a=a, b=b: a + b, ('sum', sa, sb))
        yield d('dunder/__sub__', 'Operator.__sub__', o, lambda a=a, b=b: a - b,
                ('sum', sa, ('lsc', sb, -1)))
        yield d('dunder/__neg__', 'Operator.__neg__', o, lambda a=a: -a, ('lsc', sa, -1))
        yield d('dunder/__pos__', 'Operator.__pos__', o, lambda a=a: +a, sa)
        yield d('dunder/__mul__/operator', 'Operator.__mul__', o + ' by=operator',
                lambda a=a, b=b: a * b, ('comp', sa, sb))
        yield d('dunder/__mul__/real', 'Operator.__mul__', o + ' by=real-scalar',
                lambda a=a: a * 2.0, ('lsc', sa, 2.0))
        yield d('dunder/__mul__/vector', 'Operator.__mul__', o + ' by=vector',
                lambda a=a, vv=vv: a * vv, ('rvec', sa, vv, SS))
        yield d('dunder/__rmul__/scalar', 'Operator.__rmul__', o + ' by=real-scalar',
                lambda a=a: -0.5 * a, ('lsc', sa, -0.5))
        yield d('dunder/__rmul__/vector', 'Operator.__rmul__', o + ' by=vector',
                lambda a=a, vv=vv: vv * a, ('lvec', sa, vv, SS))
        yield d('dunder/__matmul__', 'Operator.__matmul__', o, lambda a=a, b=b: a @ b,
                ('comp', sa, sb))
        yield d('dunder/__rmatmul__', 'Operator.__rmatmul__', o + ' by=vector',
                lambda a=a, vv=vv: vv @ a, ('lvec', sa, vv, SS))
        yield d('dunder/__pow__', 'Operator.__pow__', o + ' n=3', lambda a=a: a ** 3,
                ('comp', sa, ('comp', sa, sa)))
        yield d('dunder/__pow__', 'Operator.__pow__', o + ' n=1', lambda a=a: a ** 1, sa)
        yield d('dunder/__truediv__', 'Operator.__truediv__', o, lambda a=a: a / 4.0,
                ('lsc', sa, 0.25))
    yield d('dunder/__mul__/complex', 'Operator.__mul__', 'field=complex by=complex-scalar',
            lambda: Ac * (1 + 2j), ('rsc', sAc, 1 + 2j))
    yield d('dunder/__rmul__/scalar', 'Operator.__rmul__', 'field=complex by=complex-scalar',
            lambda: (1 - 2j) * Ac, ('lsc', sAc, 1 - 2j))
    yield d('dunder/__rmul__/functional', 'Operator.__rmul__', 'functional by=vector-of-other-space',
            lambda: w * f, ('flv', sf, w, W2))
    yield d('dunder/__radd__/affine', 'Operator.__radd__', 'affine vector+operator', lambda: v + A)
    yield d('dunder/__rsub__/affine', 'Operator.__rsub__', 'affine vector-operator', lambda: v - A)
    yield d('dunder/__add__/scalar-affine', 'Operator.__add__', 'affine operator+scalar',
            lambda: A + 2.0)
    yield d('via/derivative/OperatorVectorSum', 'OperatorVectorSum.derivative', 'of=vector+operator',
            lambda: (v + A).derivative(x0), sA)
    yield d('via/derivative/OperatorVectorSum', 'OperatorVectorSum.derivative', 'of=vector-operator',
            lambda: (v - A).derivative(x0), ('lsc', sA, -1))

    # --- .inverse of linear operators: the inverse is itself an operator with an adjoint
    inv = [
        ('ScalingOperator', 'real', lambda: Sc.inverse, ('scaling', S, 0.5)),
        ('ScalingOperator', 'complex', lambda: odl.ScalingOperator(C, 1 + 1j).inverse,
         ('scaling', C, 0.5 - 0.5j)),
        ('RealPart', 'complex-space', lambda: odl.RealPart(C).inverse, None),
        ('RealPart', 'real-space', lambda: odl.RealPart(S).inverse, None),
        ('ImagPart', 'complex-space', lambda: odl.ImagPart(C).inverse, None),
        ('ComplexEmbedding', 'real-space s=1', lambda: odl.ComplexEmbedding(S, 1.0).inverse, None),
        ('ComplexEmbedding', 'real-space s=2i', lambda: odl.ComplexEmbedding(S, 2j).inverse, None),
        ('ComplexEmbedding', 'real-space s=1+i', lambda: odl.ComplexEmbedding(S, 1 + 1j).inverse, None),
        ('ComplexEmbedding', 'complex-space s=1+i', lambda: odl.ComplexEmbedding(C, 1 + 1j).inverse, None),
        ('MatrixOperator', '1d', lambda: odl.MatrixOperator(Mi, domain=S, range=S).inverse, None),
        ('MatrixOperator', 'nd axis=1',
         lambda: odl.MatrixOperator(Mi, domain=odl.rn((2, 3), weighting=2.0), axis=1).inverse, None),
        ('OperatorComp', 'scaling o scaling', lambda: opm.OperatorComp(Sc, Sc4).inverse,
         ('comp', ('scaling', S, 0.25), ('scaling', S, 0.5))),
        ('OperatorLeftScalarMult', 's=4', lambda: opm.OperatorLeftScalarMult(Sc, 4.0).inverse,
         ('lsc', ('scaling', S, 0.5), 0.25)),
        ('OperatorRightScalarMult', 's=4', lambda: opm.OperatorRightScalarMult(Sc, 4.0).inverse,
         ('lsc', ('scaling', S, 0.5), 0.25)),
        ('OperatorLeftVectorMult', 'scaling', lambda: opm.OperatorLeftVectorMult(Sc, v).inverse, None),
        ('OperatorRightVectorMult', 'scaling', lambda: opm.OperatorRightVectorMult(Sc, v).inverse, None),
        ('DiagonalOperator', 'scalings', lambda: odl.DiagonalOperator(Sc, Sc4).inverse,
         ('blocks', 'diag', PS2, PS2, [(0, 0, ('scaling', S, 0.5)), (1, 1, ('scaling', S, 0.25))])),
        ('FlatteningOperatorInverse', 'order=F',
         lambda: odl.FlatteningOperator(D2, 'F').inverse.inverse, ('flatten', D2, 'F')),
        ('ResizingOperator', 'grow', lambda: odl.ResizingOperator(D, ran_shp=(6,)).inverse, None),
        ('ResizingOperatorAdjoint', 'grow',
         lambda: odl.ResizingOperator(D, ran_shp=(6,)).adjoint.inverse, None),
    ]
    for cls, o, build, spec in inv:
        yield d('via/inverse/' + cls, cls + '.inverse', 'of=' + o, build, spec)

    # --- .derivative(x): linear operators return themselves, affine / non-linear ones a linear
    #     operator that exposes an adjoint
    PD = odl.ProductSpace(D, 2)
    der = [
        ('linear', 'MatrixOperator', lambda: A.derivative(x0), sA),
        ('RealPart', 'complex-space', lambda: odl.RealPart(C).derivative(vc), ('realpart', C)),
        ('ImagPart', 'complex-space', lambda: odl.ImagPart(C).derivative(vc), ('imagpart', C)),
        ('OperatorSum', 'linear+power', lambda: opm.OperatorSum(A, P).derivative(x0), ('sum', sA, sPd(x0))),
        ('OperatorComp', 'linear o power', lambda: opm.OperatorComp(A, P).derivative(x0), ('comp', sA, sPd(x0))),
        ('OperatorComp', 'power o linear', lambda: opm.OperatorComp(P, A).derivative(x0), ('comp', sPd(Ax0), sA)),
        ('OperatorPointwiseProduct', 'power . linear',
         lambda: opm.OperatorPointwiseProduct(P, A).derivative(x0),
         # product rule: A(x0) * P'(x0) + P(x0) * A
         ('sum', ('lvec', sPd(x0), Ax0, S), ('lvec', sA, Px0, S))),
        ('OperatorLeftScalarMult', 'power', lambda: opm.OperatorLeftScalarMult(P, 2.0).derivative(x0), ('lsc', sPd(x0), 2.0)),
        ('OperatorRightScalarMult', 'power', lambda: opm.OperatorRightScalarMult(P, 2.0).derivative(x0), ('lsc', sPd(2.0 * x0), 2.0)),
        ('OperatorLeftVectorMult', 'power', lambda: opm.OperatorLeftVectorMult(P, v).derivative(x0), ('lvec', sPd(x0), v, S)),
        ('OperatorRightVectorMult', 'power', lambda: opm.OperatorRightVectorMult(P, v).derivative(x0), ('rvec', sPd(v * x0), v, S)),
        ('FunctionalLeftVectorMult', 'norm',
         lambda: opm.FunctionalLeftVectorMult(odl.NormOperator(S), w).derivative(x0), None),
        ('NormOperator', 'weighted', lambda: odl.NormOperator(S).derivative(x0), None),
        ('DistOperator', 'weighted', lambda: odl.DistOperator(v).derivative(x0 + 4 * S.one()), None),
        ('PowerOperator', 'p=2', lambda: P.derivative(x0), sPd(x0)),
        ('PowerOperator', 'p=3', lambda: odl.PowerOperator(S, 3).derivative(x0), None),
        ('ConstantOperator', 'vector', lambda: odl.ConstantOperator(v).derivative(x0), ('zero', S, S)),
        ('PartialDerivative', 'pad_const=1',
         lambda: odl.PartialDerivative(D, 0, pad_mode='constant', pad_const=1).derivative(D.one()),
         ('partialderiv', D, 0, 'forward', 'constant')),
        ('Gradient', 'pad_const=1',
         lambda: odl.Gradient(D2, pad_mode='constant', pad_const=1).derivative(D2.one()),
         ('gradient', D2, odl.ProductSpace(D2, 2), 'forward', 'constant')),
        ('Divergence', 'pad_const=1',
         lambda: odl.Divergence(range=D2, pad_mode='constant', pad_const=1).derivative(None),
         ('divergence', D2, odl.ProductSpace(D2, 2), 'forward', 'constant')),
        ('Laplacian', 'pad_const=1',
         lambda: odl.Laplacian(D2, pad_mode='constant', pad_const=1).derivative(D2.one()),
         ('laplacian', D2, 'constant')),
        ('ResizingOperator', 'pad_const=1',
         lambda: odl.ResizingOperator(D, ran_shp=(6,), pad_const=1).derivative(D.one()), None),
        ('ProductSpaceOperator', 'power entry',
         lambda: odl.ProductSpaceOperator([[A, P], [0, B]]).derivative(xx), None),
        ('BroadcastOperator', 'power entry', lambda: odl.BroadcastOperator(A, P).derivative(x0), None),
        ('ReductionOperator', 'power entry', lambda: odl.ReductionOperator(A, P).derivative(xx), None),
        ('DiagonalOperator', 'power entry', lambda: odl.DiagonalOperator(A, P).derivative(xx), None),
        ('PointwiseNorm', 'p=2', lambda: odl.PointwiseNorm(PD).derivative(PD.one()), None),
        ('PointwiseNorm', 'p=3 weighted',
         lambda: odl.PointwiseNorm(PD, exponent=3, weighting=[1.0, 2.0]).derivative(PD.one()), None),
    ]
    for cls, o, build, spec in der:
        yield d('via/derivative/' + cls, cls + '.derivative', 'of=' + o, build, spec)

    # --- __getitem__ of the block operators
    R2 = odl.rn(2)
    Mh = rand_mat(rng, 2, 3)
    yield d('via/getitem/ProductSpaceOperator-entry', 'ProductSpaceOperator.__getitem__', 'entry (1,0)',
            lambda: odl.ProductSpaceOperator([[A, 0], [B, Sc]])[1, 0], sB)
    yield d('via/getitem/ProductSpaceOperator-row', 'ProductSpaceOperator.__getitem__', 'row 0 with zero block',
            lambda: odl.ProductSpaceOperator([[A, 0], [B, Sc]])[0],
            ('blocks', 'red', PS2, S, [(0, 0, sA)]))
    yield d('via/getitem/ProductSpaceOperator-row-heterogeneous', 'ProductSpaceOperator.__getitem__',
            'row 0 with zero block range!=domain',
            lambda: odl.ProductSpaceOperator(
                [[odl.MatrixOperator(Mh, domain=S, range=R2), 0]],
                domain=odl.ProductSpace(S, S), range=odl.ProductSpace(R2, 1))[0],
            ('blocks', 'red', odl.ProductSpace(S, S), R2, [(0, 0, ('matrix', Mh, S, R2))]))
    yield d('via/getitem/BroadcastOperator', 'BroadcastOperator.__getitem__', 'index 1',
            lambda: odl.BroadcastOperator(A, B)[1], sB)
    yield d('via/getitem/ReductionOperator', 'ReductionOperator.__getitem__', 'index 0',
            lambda: odl.ReductionOperator(A, B)[0], sA)
    yield d('via/getitem/DiagonalOperator', 'DiagonalOperator.__getitem__', 'index 1',
            lambda: odl.DiagonalOperator(A, B)[1], sB)


OPTION_STRATA = (
    ['option/' + n for n in ('OperatorSum-tmp', 'OperatorComp-tmp', 'Gradient-range-only',
                             'Divergence-domain-only', 'Sampling-single-nd-point',
                             'Sampling-nested-1d', 'Sampling-int', 'Resizing-explicit-range',
                             'Resizing-range-const-weight', 'Resizing-range-array-weight',
                             'Resizing-nodes-on-bdry', 'Resizing-discr-kwargs',
                             'Fourier-inverse-property',
                             'Fourier-temporaries', 'Fourier-pyfftw', 'Fourier-pyfftw-plan',
                             'Wavelet-nodes-on-bdry', 'Wavelet-odd-axis',
                             'Wavelet-array-weighting')] +
    ['validation/' + n for n in ('OperatorSum', 'OperatorComp', 'Gradient', 'Divergence',
                                 'PointwiseInnerAdjoint', 'Sampling', 'Resizing',
                                 'MatrixOperator', 'ProductSpaceOperator')])

RAISED_AS_DOCUMENTED = 'raised-as-documented'


def _must_raise(f, excs):
    """the documented rejection of invalid construction arguments: the sentinel if `f` raises one
    of `excs`; any other exception propagates (reported as construct-raises); an accepted input
    is returned as a tuple (reported as not-an-operator)"""
    try:
        op = f()
    except excs:
        return RAISED_AS_DOCUMENTED
    return ('ACCEPTED-INVALID-INPUT', repr(op)[:200])


def option_cases(ctx, rng, mk):
    """round 5 stream: construction OPTIONS and validation branches of the anchored classes that
    no other stream reaches (measured by tools/covmap.py): temporaries of OperatorSum/Comp,
    Gradient/Divergence given by the product space only, scalar / nested / single n-d sampling
    points, ResizingOperator with an explicit (differently weighted, array weighted) range and
    on nodes_on_bdry grids, Fourier transforms through `.inverse`, cached temporaries, the
    pyfftw backend and FFTW plans, wavelets on nodes_on_bdry / odd-length / array-weighted
    spaces: full adjoint oracle; invalid arguments must raise the documented error."""
    odl = odl_()
    from odl.operator import operator as opm
    from odl.operator.tensor_ops import PointwiseInnerAdjoint
    S = odl.rn(3, weighting=2.0)
    M = rand_mat(rng, 3, 3)
    v = rand_el(rng, S, nz=True)
    A, B = odl.MatrixOperator(M, domain=S, range=S), odl.MultiplyOperator(v)
    sA, sB = ('matrix', M, S, S), ('multiply', S, S, v)
    D = odl.uniform_discr(0, 2, 4)
    D2 = odl.uniform_discr([0, 0], [1, 1.5], (2, 3))
    Db = odl.uniform_discr(0, 3, 4, nodes_on_bdry=True)
    V = odl.ProductSpace(D2, 2)
    Dbig = odl.uniform_discr(-1, 3, 8)
    Dbig_w = odl.uniform_discr(-1, 3, 8, weighting=2.0)
    Dbig_a = odl.uniform_discr(-1, 3, 8, weighting=np.array([1.0, 2, 4, 1, 2, 4, 1, 2]))
    Cd = odl.uniform_discr(0, 4, 4, dtype='complex128')
    Cd8 = odl.uniform_discr(-1, 1, 8, dtype='complex128')

    def o(stratum, cls, opts, build, spec=None, approx=False):
        ctx.hit('option/' + stratum)
        return mk(cls, 'option ' + opts, build, spec, approx)

    yield o('OperatorSum-tmp', 'OperatorSum', 'tmp_ran+tmp_dom',
            lambda: opm.OperatorSum(A, B, S.element(), S.element()), ('sum', sA, sB))
    yield o('OperatorComp-tmp', 'OperatorComp', 'tmp', lambda: opm.OperatorComp(A, B, S.element()),
            ('comp', sA, sB))
    yield o('Gradient-range-only', 'Gradient', 'range-only', lambda: odl.Gradient(range=V),
            ('gradient', D2, V, 'forward', 'constant'))
    yield o('Divergence-domain-only', 'Divergence', 'domain-only', lambda: odl.Divergence(domain=V),
            ('divergence', D2, V, 'forward', 'constant'))
    yield o('Sampling-single-nd-point', 'SamplingOperator', 'single-nd-point',
            lambda: odl.SamplingOperator(D2, [1, 2]), ('sampling', D2, [[1], [2]], 'point_eval'))
    yield o('Sampling-single-nd-point', 'WeightedSumSamplingOperator', 'single-nd-point',
            lambda: odl.WeightedSumSamplingOperator(D2, [1, 2]), ('wsum', D2, [[1], [2]], 'char_fun'))
    yield o('Sampling-nested-1d', 'SamplingOperator', 'nested-1d-list',
            lambda: odl.SamplingOperator(D, [[0, 2]]), ('sampling', D, [0, 2], 'point_eval'))
    yield o('Sampling-int', 'SamplingOperator', 'int-index',
            lambda: odl.SamplingOperator(D, 2, 'integrate'), ('sampling', D, 2, 'integrate'))
    for mode in ('constant', 'symmetric', 'order1'):
        yield o('Resizing-explicit-range', 'ResizingOperator', 'explicit-range mode=' + mode,
                lambda mode=mode: odl.ResizingOperator(D, Dbig, pad_mode=mode))
        yield o('Resizing-range-const-weight', 'ResizingOperator', 'range-const-weight mode=' + mode,
                lambda mode=mode: odl.ResizingOperator(D, Dbig_w, pad_mode=mode))
        yield o('Resizing-range-const-weight', 'ResizingOperatorAdjoint', 'range-const-weight mode=' + mode,
                lambda mode=mode: odl.ResizingOperator(D, Dbig_w, pad_mode=mode).adjoint)
        yield o('Resizing-range-array-weight', 'ResizingOperator', 'range-array-weight mode=' + mode,
                lambda mode=mode: odl.ResizingOperator(D, Dbig_a, pad_mode=mode))
        yield o('Resizing-nodes-on-bdry', 'ResizingOperator', 'nodes-on-bdry extend mode=' + mode,
                lambda mode=mode: odl.ResizingOperator(Db, ran_shp=(6,), pad_mode=mode))
        yield o('Resizing-nodes-on-bdry', 'ResizingOperator', 'nodes-on-bdry shrink mode=' + mode,
                lambda mode=mode: odl.ResizingOperator(Db, ran_shp=(3,), pad_mode=mode))
    # round 6: `discr_kwargs` of ResizingOperator -> _resize_discr (nodes_on_bdry as bool, as a
    # pair for one axis, per axis with mixed bools and pairs): the range grid, hence the weights
    # of the range inner product and the boundary-cell scaling of the adjoint, depend on them
    nb = [('bool extend constant', D, dict(ran_shp=(6,), discr_kwargs={'nodes_on_bdry': True})),
          ('bool extend symmetric', D, dict(ran_shp=(6,), pad_mode='symmetric',
                                            discr_kwargs={'nodes_on_bdry': True})),
          ('pair extend offset', D, dict(ran_shp=(7,), offset=(1,),
                                         discr_kwargs={'nodes_on_bdry': (True, False)})),
          ('pair shrink', D, dict(ran_shp=(3,), discr_kwargs={'nodes_on_bdry': (False, True)})),
          ('per-axis 2d order0', D2, dict(ran_shp=(4, 5), pad_mode='order0',
                                          discr_kwargs={'nodes_on_bdry': [(True, False), False]})),
          ('per-axis 2d periodic', D2, dict(ran_shp=(4, 5), pad_mode='periodic',
                                            discr_kwargs={'nodes_on_bdry': [(True, False), True]}))]
    for tag, dom_, kw in nb:
        yield o('Resizing-discr-kwargs', 'ResizingOperator', 'discr_kwargs nodes_on_bdry ' + tag,
                lambda dom_=dom_, kw=kw: odl.ResizingOperator(dom_, **kw))
        yield o('Resizing-discr-kwargs', 'ResizingOperatorAdjoint', 'discr_kwargs nodes_on_bdry ' + tag,
                lambda dom_=dom_, kw=kw: odl.ResizingOperator(dom_, **kw).adjoint)
    tr = odl.trafos

    def ft_temp():
        ft = tr.FourierTransform(Cd8)
        ft.create_temporaries()
        return ft

    def ft_plan():
        ft = tr.FourierTransform(Cd8, impl='pyfftw')
        ft.init_fftw_plan()
        return ft

    def dft_plan():
        ft = tr.DiscreteFourierTransform(Cd, impl='pyfftw')
        ft.init_fftw_plan()
        return ft
    yield o('Fourier-inverse-property', 'DiscreteFourierTransformInverse', 'via inverse property',
            lambda: tr.DiscreteFourierTransform(Cd).inverse, None, True)
    yield o('Fourier-inverse-property', 'FourierTransformInverse', 'via inverse property',
            lambda: tr.FourierTransform(Cd8).inverse, None, True)
    yield o('Fourier-temporaries', 'FourierTransform', 'cached temporaries', ft_temp, None, True)
    try:
        import pyfftw  # noqa
        have_fftw = True
    except Exception:  # noqa
        have_fftw = False
    if have_fftw:
        yield o('Fourier-pyfftw', 'FourierTransform', 'impl=pyfftw',
                lambda: tr.FourierTransform(Cd8, impl='pyfftw'), None, True)
        yield o('Fourier-pyfftw', 'DiscreteFourierTransform', 'impl=pyfftw',
                lambda: tr.DiscreteFourierTransform(Cd, impl='pyfftw'), None, True)
        yield o('Fourier-pyfftw-plan', 'FourierTransform', 'impl=pyfftw fftw-plan', ft_plan, None, True)
        yield o('Fourier-pyfftw-plan', 'DiscreteFourierTransform', 'impl=pyfftw fftw-plan', dft_plan,
                None, True)
    else:
        ctx.hit('option/Fourier-pyfftw')
        ctx.hit('option/Fourier-pyfftw-plan')
        ctx.notes.append('pyfftw not importable: the pyfftw strata are empty')
    yield o('Wavelet-nodes-on-bdry', 'WaveletTransform', 'nodes-on-bdry wavelet=haar pad=pywt_periodic',
            lambda: tr.WaveletTransform(odl.uniform_discr(0, 1, 8, nodes_on_bdry=True), 'haar',
                                        pad_mode='pywt_periodic'), None, True)
    yield o('Wavelet-odd-axis', 'WaveletTransform', 'odd-axis-7 wavelet=haar pad=pywt_periodic nlevels=1',
            lambda: tr.WaveletTransform(odl.uniform_discr(0, 1, 7), 'haar', nlevels=1,
                                        pad_mode='pywt_periodic'), None, True)
    yield o('Wavelet-odd-axis', 'WaveletTransformInverse',
            'odd-axis-7 wavelet=haar pad=pywt_periodic nlevels=1',
            lambda: tr.WaveletTransform(odl.uniform_discr(0, 1, 7), 'haar', nlevels=1,
                                        pad_mode='pywt_periodic').inverse, None, True)
    yield o('Wavelet-array-weighting', 'WaveletTransform', 'array-weighting no-adjoint',
            lambda: tr.WaveletTransform(odl.uniform_discr(0, 1, 4, weighting=np.array([1.0, 2, 1, 2])),
                                        'haar', pad_mode='pywt_periodic'), None, True)

    # --- invalid construction arguments: the documented error, never an operator
    R2 = odl.rn(2)
    A23 = odl.MatrixOperator(rand_mat(rng, 2, 3), domain=S, range=R2)
    TE, VE = TypeError, ValueError
    from odl.operator.operator import OpTypeError, OpRangeError, OpDomainError
    bad = [
        ('OperatorSum', 'range mismatch', lambda: opm.OperatorSum(A, A23), (OpTypeError,)),
        ('OperatorSum', 'domain mismatch',
         lambda: opm.OperatorSum(A23, odl.MatrixOperator(np.ones((2, 2)), domain=R2, range=R2)), (OpTypeError,)),
        ('OperatorSum', 'tmp_ran outside range', lambda: opm.OperatorSum(A, B, R2.element()), (OpRangeError,)),
        ('OperatorSum', 'tmp_dom outside domain',
         lambda: opm.OperatorSum(A, B, None, R2.element()), (OpDomainError,)),
        ('OperatorComp', 'range/domain mismatch', lambda: opm.OperatorComp(A23, A23), (OpTypeError,)),
        ('Gradient', 'neither domain nor range', lambda: odl.Gradient(), (VE,)),
        ('Gradient', 'range not a product space', lambda: odl.Gradient(D2, range=D2), (TE,)),
        ('Gradient', 'range not a power space',
         lambda: odl.Gradient(D2, range=odl.ProductSpace(D2, D)), (VE,)),
        ('Gradient', 'domain not discretized', lambda: odl.Gradient(odl.rn(3)), (TE,)),
        ('Divergence', 'neither domain nor range', lambda: odl.Divergence(), (VE,)),
        ('Divergence', 'domain not a product space', lambda: odl.Divergence(domain=D2, range=D2), (TE,)),
        ('Divergence', 'range not discretized', lambda: odl.Divergence(range=odl.rn(3)), (TE,)),
        ('PointwiseInnerAdjoint', 'vfspace not a product space',
         lambda: PointwiseInnerAdjoint(D2, V.one(), vfspace=D2), (TE,)),
        ('PointwiseInnerAdjoint', 'base space mismatch',
         lambda: PointwiseInnerAdjoint(D, V.one(), vfspace=V), (VE,)),
        ('Sampling', 'variant not understood', lambda: odl.SamplingOperator(D, [0], 'nearest'), (VE,)),
        ('Sampling', 'wsum variant not understood',
         lambda: odl.WeightedSumSamplingOperator(D, [0], 'delta'), (VE,)),
        ('Sampling', '2-d index array for 1-d space', lambda: odl.SamplingOperator(D, [[0, 1], [1, 2]]), (VE,)),
        ('Sampling', 'nd points not a sequence', lambda: odl.SamplingOperator(D2, 1), (TE,)),
        ('Resizing', 'neither range nor ran_shp', lambda: odl.ResizingOperator(D), (VE,)),
        ('Resizing', 'ran_shp of wrong length', lambda: odl.ResizingOperator(D, ran_shp=(4, 4)), (VE,)),
        ('Resizing', 'offset with explicit range', lambda: odl.ResizingOperator(D, Dbig, offset=(1,)), (VE,)),
        ('Resizing', 'range and ran_shp', lambda: odl.ResizingOperator(D, Dbig, ran_shp=(8,)), (VE,)),
        ('Resizing', 'domain not discretized', lambda: odl.ResizingOperator(odl.rn(3), ran_shp=(4,)), (TE,)),
        ('Resizing', 'nodes_on_bdry list of wrong length',
         lambda: odl.ResizingOperator(D2, ran_shp=(4, 5), discr_kwargs={'nodes_on_bdry': [True, False, True]}),
         (VE,)),
        ('Resizing', 'range with other cell sides',
         lambda: odl.ResizingOperator(D, odl.uniform_discr(0, 8, 8)), (VE,)),
        ('MatrixOperator', 'non-integer axis',
         lambda: odl.MatrixOperator(np.ones((2, 2)), domain=odl.rn((2, 3)), axis=0.5), (VE, TE)),
        ('MatrixOperator', 'matrix/domain shape mismatch',
         lambda: odl.MatrixOperator(np.ones((2, 2)), domain=odl.rn(3)), (VE,)),
        ('MatrixOperator', 'range shape mismatch',
         lambda: odl.MatrixOperator(np.ones((2, 3)), domain=odl.rn(3), range=odl.rn(3)), (VE,)),
        ('ProductSpaceOperator', 'inconsistent column domains',
         lambda: odl.ProductSpaceOperator([[A], [A23 * odl.MatrixOperator(np.ones((3, 2)), domain=R2, range=S)]]),
         (VE,)),
    ]
    for cls, name, f, excs in bad:
        ctx.hit('validation/' + cls)
        yield mk('Validation', '{} {}'.format(cls, name), lambda f=f, excs=excs: _must_raise(f, excs))


EXPECTED_STRATA = EXPECTED_STRATA + DERIVED_STRATA + OPTION_STRATA


def small_leaf(rng, dom, ran=None):
    """a random simple linear operator dom -> ran (ran defaults to dom) with a model spec"""
    odl = odl_()
    if ran is None or ran == dom:
        k = rng.randint(0, 2)
        if k == 0:
            s = rng.choice([2.0, -0.5, 1.0] + ([1 + 1j] if is_cplx(dom) else []))
            return odl.ScalingOperator(dom, s), ('scaling', dom, s)
        if k == 1:
            v = rand_el(rng, dom)
            return odl.MultiplyOperator(v), ('multiply', dom, dom, v)
        return odl.IdentityOperator(dom), ('scaling', dom, 1.0)
    M = rand_mat(rng, sdim(ran), sdim(dom), is_cplx(dom) and rng.random() < 0.5)
    return odl.MatrixOperator(M, domain=dom, range=ran), ('matrix', M, dom, ran)


def pspace_cases(ctx, rng, mk):
    odl = odl_()
    r2, r3, c2 = odl.rn(2), odl.rn(3), odl.cn(2)
    d3 = odl.uniform_discr(0, 1.5, 3)
    r2w = odl.rn(2, weighting=2.0)
    # ComponentProjection
    spaces = [('plain', odl.ProductSpace(r2, r3, d3)), ('power', odl.ProductSpace(c2, 3)),
              ('w-const', odl.ProductSpace(r2, 3, weighting=2.0)),
              ('w-array', odl.ProductSpace(r2, r3, d3, weighting=[1.0, 2.0, 4.0]))]
    for tag, P in spaces:
        for iname, idx in (('int', 1), ('list', [0, 2]), ('slice', slice(1, 3)), ('perm', [2, 0])):
            yield mk('ComponentProjection', 'pspace={} index={}'.format(tag, iname),
                     lambda P=P, idx=idx: odl.ComponentProjection(P, idx),
                     ('proj', P, idx))
            yield mk('ComponentProjectionAdjoint', 'pspace={} index={}'.format(tag, iname),
                     lambda P=P, idx=idx: odl.ComponentProjectionAdjoint(P, idx),
                     ('projadj', P, idx))
    # block operators over simple leaves
    combos = [('r2r3', [r2, r3], [r3, r2]), ('c2c2', [c2, c2], [c2, c2]),
              ('mixedw', [r2w, d3], [d3, r2w])]
    for tag, doms, rans in combos:
        for pattern in ('full', 'upper', 'emptyrow'):
            specs = []
            rows = []
            for i, ran in enumerate(rans):
                row = []
                for j, dom in enumerate(doms):
                    skip = (pattern == 'upper' and j < i) or (pattern == 'emptyrow' and i == 1)
                    if skip or (dom != ran and (wkind(dom) != wkind(ran) or
                                                (wkind(dom) != 'none'))):
                        row.append(0)
                        continue
                    op, sp = small_leaf(rng, dom, ran)
                    row.append(op)
                    specs.append((i, j, sp))
                rows.append(row)
            P, Q = odl.ProductSpace(*doms), odl.ProductSpace(*rans)
            yield mk('ProductSpaceOperator', 'spaces={} pattern={}'.format(tag, pattern),
                     lambda rows=rows, P=P, Q=Q: odl.ProductSpaceOperator(rows, domain=P, range=Q),
                     ('blocks', 'pso', P, Q, specs))
    for tag, X in (('r3', r3), ('c2', c2), ('d3', d3), ('r2w', r2w)):
        for n in (1, 2, 3):
            leaves = [small_leaf(rng, X) for _ in range(n)]
            ops = [l[0] for l in leaves]
            P = odl.ProductSpace(X, n)
            yield mk('BroadcastOperator', 'base={} n={}'.format(sp_sig(X), n),
                     lambda ops=ops: odl.BroadcastOperator(*ops),
                     ('blocks', 'bcast', X, P, [(i, 0, l[1]) for i, l in enumerate(leaves)]))
            yield mk('ReductionOperator', 'base={} n={}'.format(sp_sig(X), n),
                     lambda ops=ops: odl.ReductionOperator(*ops),
                     ('blocks', 'red', P, X, [(0, i, l[1]) for i, l in enumerate(leaves)]))
            yield mk('DiagonalOperator', 'base={} n={}'.format(sp_sig(X), n),
                     lambda ops=ops: odl.DiagonalOperator(*ops),
                     ('blocks', 'diag', P, P, [(i, i, l[1]) for i, l in enumerate(leaves)]))
    M = rand_mat(rng, 2, 3)
    yield mk('BroadcastOperator', 'heterogeneous ranges',
             lambda: odl.BroadcastOperator(odl.MatrixOperator(M), odl.IdentityOperator(r3)))
    yield mk('ReductionOperator', 'heterogeneous domains',
             lambda: odl.ReductionOperator(odl.MatrixOperator(M), odl.IdentityOperator(r2)))
    yield mk('DiagonalOperator', 'heterogeneous',
             lambda: odl.DiagonalOperator(odl.MatrixOperator(M), odl.ScalingOperator(r2w, 2.0)))
    yield mk('BroadcastOperator', 'repeat syntax', lambda: odl.BroadcastOperator(
        odl.ScalingOperator(r3, 2.0), 2))


def diff_cases(ctx, rng, mk):
    odl = odl_()
    from odl.discr import diff_ops
    spaces = [('1d', odl.uniform_discr(0, 2, 4)), ('1d/bdry', odl.uniform_discr(0, 3, 4, nodes_on_bdry=True)),
              ('2d', odl.uniform_discr([0, 0], [1.5, 2], (3, 4))),
              ('1d/cplx', odl.uniform_discr(0, 2, 4, dtype='complex128'))]
    if not ctx.quick:
        spaces += [('1d/n3', odl.uniform_discr(0, 3, 3)), ('2d/3x3', odl.uniform_discr([0, 0], [3, 1.5], (3, 3))),
                   ('1d/n6', odl.uniform_discr(0, 3, 6)),
                   ('2d/bdry', odl.uniform_discr([0, 0], [2, 3], (3, 4), nodes_on_bdry=True))]
    # smallest admissible axis lengths (2 and 3 points), alone, mixed with longer axes and at
    # every axis position: boundary rows alias there (out[1] is out[-1] on two points)
    spaces += [('min2/1d', odl.uniform_discr(0, 1, 2)), ('min2/2x4', odl.uniform_discr([0, 0], [1, 2], (2, 4))),
               ('min2/4x2', odl.uniform_discr([0, 0], [2, 1], (4, 2))),
               ('min3/1d', odl.uniform_discr(0, 1.5, 3)), ('min3/4x3', odl.uniform_discr([0, 0], [2, 1.5], (4, 3))),
               ('min2/2x3', odl.uniform_discr([0, 0], [1, 1.5], (2, 3)))]
    if not ctx.quick:
        spaces += [('min2/2x2', odl.uniform_discr([0, 0], [1, 1], (2, 2))),
                   ('min2/cplx', odl.uniform_discr(0, 1, 2, dtype='complex128')),
                   ('min2/3x2x2', odl.uniform_discr([0, 0, 0], [1.5, 1, 1], (3, 2, 2))),
                   ('min3/3x3x2', odl.uniform_discr([0, 0, 0], [1.5, 1.5, 1], (3, 3, 2)))]
    methods = list(diff_ops._SUPPORTED_DIFF_METHODS)
    pads = list(diff_ops._SUPPORTED_PAD_MODES)

    def admits(S, pad, axes):
        # 'order2' padding needs at least 3 points along a differentiated axis (documented)
        return not (pad.startswith('order2') and any(S.shape[a] < 3 for a in axes))

    def stratum(S, axes):
        m = min(S.shape[a] for a in axes)
        return 'diffop/min-axis-{}'.format(m) if m <= 3 else None

    for tag, S in spaces:
        for method in methods:
            for pad in pads:
                for axis in range(S.ndim):
                    if not admits(S, pad, [axis]):
                        continue
                    if stratum(S, [axis]):
                        ctx.hit(stratum(S, [axis]))
                    yield mk('PartialDerivative', 'space={} axis={} method={} pad={}'.format(
                        tag, axis, method, pad),
                        lambda S=S, axis=axis, method=method, pad=pad:
                        odl.PartialDerivative(S, axis, method=method, pad_mode=pad),
                        ('partialderiv', S, axis, method, pad))
                if not admits(S, pad, range(S.ndim)):
                    continue
                if stratum(S, range(S.ndim)):
                    ctx.hit(stratum(S, range(S.ndim)))
                yield mk('Gradient', 'space={} method={} pad={}'.format(tag, method, pad),
                         lambda S=S, method=method, pad=pad: odl.Gradient(S, method=method, pad_mode=pad),
                         ('gradient', S, None, method, pad))
                yield mk('Divergence', 'space={} method={} pad={}'.format(tag, method, pad),
                         lambda S=S, method=method, pad=pad: odl.Divergence(
                             range=S, method=method, pad_mode=pad),
                         ('divergence', S, None, method, pad))
        for pad in pads:
            if not admits(S, pad, range(S.ndim)):
                continue
            yield mk('Laplacian', 'space={} pad={}'.format(tag, pad),
                     lambda S=S, pad=pad: odl.Laplacian(S, pad_mode=pad), ('laplacian', S, pad))
    S = odl.uniform_discr([0, 0], [1.5, 2], (3, 4))
    V = odl.ProductSpace(S, 2, weighting=[1.0, 2.0])
    yield mk('Gradient', 'space=2d range-weighted=array method=forward pad=constant',
             lambda: odl.Gradient(S, range=V), ('gradient', S, V, 'forward', 'constant'))
    yield mk('Divergence', 'space=2d domain-weighted=array method=forward pad=constant',
             lambda: odl.Divergence(domain=V, range=S), ('divergence', S, V, 'forward', 'constant'))


def resize_cases(ctx, rng, mk):
    odl = odl_()
    from odl.util import numerics
    modes = list(getattr(numerics, '_SUPPORTED_RESIZE_PAD_MODES',
                         ('constant', 'symmetric', 'periodic', 'order0', 'order1')))
    s1 = odl.uniform_discr(0, 2, 4)
    s2 = odl.uniform_discr([0, 0], [1, 2], (2, 4))
    sc = odl.uniform_discr(0, 2, 4, dtype='complex128')
    plans = [('1d extend', s1, dict(ran_shp=(7,))), ('1d extend offset0', s1, dict(ran_shp=(6,), offset=(0,))),
             ('1d extend offset2', s1, dict(ran_shp=(6,), offset=(2,))),
             ('1d shrink', s1, dict(ran_shp=(2,))), ('1d shrink offset', s1, dict(ran_shp=(3,), offset=(1,))),
             ('2d mixed', s2, dict(ran_shp=(3, 3))), ('2d extend', s2, dict(ran_shp=(3, 6), offset=(1, 0))),
             ('1d cplx extend', sc, dict(ran_shp=(6,)))]
    if not ctx.quick:
        plans += [('1d extend big', s1, dict(ran_shp=(10,), offset=(3,))),
                  ('1d same', s1, dict(ran_shp=(4,))),
                  ('2d shrink', s2, dict(ran_shp=(1, 2), offset=(1, 1)))]
    for tag, S, kw in plans:
        for mode in modes:
            yield mk('ResizingOperator', '{} mode={}'.format(tag, mode),
                     lambda S=S, kw=kw, mode=mode: odl.ResizingOperator(S, pad_mode=mode, **kw))
            yield mk('ResizingOperatorAdjoint', '{} mode={}'.format(tag, mode),
                     lambda S=S, kw=kw, mode=mode: odl.ResizingOperator(S, pad_mode=mode, **kw).adjoint)


def trafo_cases(ctx, rng, mk):
    odl = odl_()
    import odl.trafos as tr
    c4 = odl.uniform_discr(0, 4, 4, dtype='complex128')
    c2x4 = odl.uniform_discr([0, 0], [2, 4], (2, 4), dtype='complex128')
    r4 = odl.uniform_discr(0, 4, 4)
    for impl in ('numpy', 'pyfftw'):
        for sign in ('-', '+'):
            yield mk('DiscreteFourierTransform', 'dom=cn4 impl={} sign={}'.format(impl, sign),
                     lambda impl=impl, sign=sign: tr.DiscreteFourierTransform(c4, impl=impl, sign=sign),
                     approx=True)
            yield mk('DiscreteFourierTransformInverse', 'ran=cn4 impl={} sign={}'.format(impl, sign),
                     lambda impl=impl, sign=sign: tr.DiscreteFourierTransformInverse(c4, impl=impl, sign=sign),
                     approx=True)
        yield mk('DiscreteFourierTransform', 'dom=cn2x4 axes=1 impl={}'.format(impl),
                 lambda impl=impl: tr.DiscreteFourierTransform(c2x4, axes=(1,), impl=impl), approx=True)
        yield mk('DiscreteFourierTransform', 'dom=cn2x4 axes=all impl={}'.format(impl),
                 lambda impl=impl: tr.DiscreteFourierTransform(c2x4, impl=impl), approx=True)
        yield mk('DiscreteFourierTransform', 'dom=rn4 halfcomplex impl={}'.format(impl),
                 lambda impl=impl: tr.DiscreteFourierTransform(r4, impl=impl, halfcomplex=True), approx=True)
        yield mk('DiscreteFourierTransform', 'dom=rn4 full impl={}'.format(impl),
                 lambda impl=impl: tr.DiscreteFourierTransform(r4, impl=impl, halfcomplex=False), approx=True)
        d4 = odl.uniform_discr(-1, 1, 4, dtype='complex128')
        d2x4 = odl.uniform_discr([-1, -1], [1, 1], (2, 4), dtype='complex128')
        dr4 = odl.uniform_discr(-1, 1, 4)
        for sign in ('-', '+'):
            yield mk('FourierTransform', 'dom=cdiscr4 impl={} sign={}'.format(impl, sign),
                     lambda impl=impl, sign=sign: tr.FourierTransform(d4, impl=impl, sign=sign), approx=True)
        yield mk('FourierTransform', 'dom=cdiscr2x4 impl={}'.format(impl),
                 lambda impl=impl: tr.FourierTransform(d2x4, impl=impl), approx=True)
        yield mk('FourierTransform', 'dom=cdiscr2x4 axes=0 impl={}'.format(impl),
                 lambda impl=impl: tr.FourierTransform(d2x4, impl=impl, axes=(0,)), approx=True)
        yield mk('FourierTransform', 'dom=rdiscr4 halfcomplex impl={}'.format(impl),
                 lambda impl=impl: tr.FourierTransform(dr4, impl=impl, halfcomplex=True), approx=True)
        yield mk('FourierTransform', 'dom=rdiscr4 full impl={}'.format(impl),
                 lambda impl=impl: tr.FourierTransform(dr4, impl=impl, halfcomplex=False), approx=True)
        yield mk('FourierTransformInverse', 'ran=cdiscr4 impl={}'.format(impl),
                 lambda impl=impl: tr.FourierTransform(d4, impl=impl).inverse, approx=True)
    w8 = odl.uniform_discr(0, 8, 8)
    w4x4 = odl.uniform_discr([0, 0], [4, 4], (4, 4))
    for wav in ('haar', 'db2'):
        for pad in ('pywt_periodic', 'periodic', 'constant', 'symmetric'):
            yield mk('WaveletTransform', 'dom=discr8 wavelet={} pad={} nlevels=1'.format(wav, pad),
                     lambda wav=wav, pad=pad: tr.WaveletTransform(w8, wav, nlevels=1, pad_mode=pad),
                     approx=True)
            yield mk('WaveletTransformInverse', 'ran=discr8 wavelet={} pad={} nlevels=1'.format(wav, pad),
                     lambda wav=wav, pad=pad: tr.WaveletTransform(w8, wav, nlevels=1, pad_mode=pad).inverse,
                     approx=True)
    yield mk('WaveletTransform', 'dom=discr8 wavelet=haar pad=pywt_periodic nlevels=2',
             lambda: tr.WaveletTransform(w8, 'haar', nlevels=2, pad_mode='pywt_periodic'), approx=True)
    yield mk('WaveletTransform', 'dom=discr4x4 wavelet=haar pad=pywt_periodic nlevels=1',
             lambda: tr.WaveletTransform(w4x4, 'haar', nlevels=1, pad_mode='pywt_periodic'), approx=True)


def functional_cases(ctx, rng, mk):
    odl = odl_()
    import odl.solvers as sol
    R = odl.RealNumbers()
    yield mk('IdentityFunctional', 'field=R', lambda: sol.IdentityFunctional(R))
    yield mk('ScalingFunctional', 'field=R s=gen', lambda: sol.ScalingFunctional(R, 2.0))
    yield mk('ZeroFunctional', 'space=rT1', lambda: sol.ZeroFunctional(odl.rn(3)))
    v = rand_el(rng, odl.rn(3))
    yield mk('FunctionalLeftScalarMult', 'inner * 2',
             lambda: 2.0 * sol.ScalingFunctional(R, 2.0))


def expr_cases(ctx, rng, mk):
    """every expression class of operator.py x field configuration of the operand
    (real->real, complex->complex, real->complex, complex->real) x real / genuinely complex
    scalars and vectors wherever the constructor admits them"""
    odl = odl_()
    from odl.operator import operator as opm
    r3, c3 = odl.rn(3), odl.cn(3)
    r3w, c3w = odl.rn(3, weighting=2.0), odl.cn(3, weighting=2.0)
    d3 = odl.uniform_discr(0, 1.5, 3)
    cd3 = odl.uniform_discr(0, 1.5, 3, dtype='complex128')

    def operand(cfg, R, C):
        if cfg == 'rr':
            M = rand_mat(rng, 3, 3)
            if wclass(R)[0] == 'const' and not is_discr(R):
                return odl.MatrixOperator(M, domain=R, range=R), ('matrix', M, R, R)
            v = rand_el(rng, R, nz=True)
            return odl.MultiplyOperator(v), ('multiply', R, R, v)
        if cfg == 'cc':
            M = rand_mat(rng, 3, 3, True)
            if wclass(C)[0] == 'const' and not is_discr(C):
                return odl.MatrixOperator(M, domain=C, range=C), ('matrix', M, C, C)
            v = rand_el(rng, C, nz=True)
            return odl.MultiplyOperator(v), ('multiply', C, C, v)
        if cfg == 'rc':
            s = rng.choice([1 + 2j, 1j, 2 - 1j])
            return odl.ComplexEmbedding(R, s), ('cembed', R, s)
        if rng.random() < 0.5:
            return odl.RealPart(C), ('realpart', C)
        return odl.ImagPart(C), ('imagpart', C)

    for tag, R, C in (('T', r3, c3), ('Tw', r3w, c3w), ('D', d3, cd3)):
        for cfg in ('rr', 'cc', 'rc', 'cr'):
            A, sA = operand(cfg, R, C)
            dom, ran = A.domain, A.range
            pre = 'operand={}/{}'.format(cfg, tag)
            # vectors: genuinely complex wherever the space is complex
            v_ran, v_dom = rand_el(rng, ran, nz=True), rand_el(rng, dom, nz=True)
            yield mk('OperatorLeftVectorMult', pre + ' vector={}'.format('cplx' if is_cplx(ran) else 'real'),
                     lambda A=A, v=v_ran: opm.OperatorLeftVectorMult(A, v), ('lvec', sA, v_ran, ran))
            yield mk('OperatorRightVectorMult', pre + ' vector={}'.format('cplx' if is_cplx(dom) else 'real'),
                     lambda A=A, v=v_dom: opm.OperatorRightVectorMult(A, v), ('rvec', sA, v_dom, dom))
            for sn, sc in [('real', -0.5)] + ([('cplx', 1 + 2j)] if is_cplx(ran) else []):
                yield mk('OperatorLeftScalarMult', pre + ' scalar=' + sn,
                         lambda A=A, sc=sc: opm.OperatorLeftScalarMult(A, sc), ('lsc', sA, sc))
            for sn, sc in [('real', -0.5)] + ([('cplx', 1 + 2j)] if is_cplx(dom) else []):
                yield mk('OperatorRightScalarMult', pre + ' scalar=' + sn,
                         lambda A=A, sc=sc: opm.OperatorRightScalarMult(A, sc), ('rsc', sA, sc))
            if cfg == 'rr' and tag == 'T':
                # a NON-LINEAR operand anywhere: `.adjoint` must raise (model: adj = none)
                N, sN = odl.PowerOperator(R, 2), ('nonlin', R, R)
                vv = rand_el(rng, R, nz=True)
                for nm, f, sp_ in (
                        ('OperatorSum', lambda: opm.OperatorSum(A, N), ('sum', sA, sN)),
                        ('OperatorComp', lambda: opm.OperatorComp(N, A), ('comp', sN, sA)),
                        ('OperatorComp', lambda: opm.OperatorComp(A, N), ('comp', sA, sN)),
                        ('OperatorLeftScalarMult', lambda: opm.OperatorLeftScalarMult(N, 2.0),
                         ('lsc', sN, 2.0)),
                        ('OperatorRightScalarMult', lambda: opm.OperatorRightScalarMult(N, 2.0),
                         ('rsc', sN, 2.0)),
                        ('OperatorLeftVectorMult', lambda: opm.OperatorLeftVectorMult(N, vv),
                         ('lvec', sN, vv, R)),
                        ('OperatorRightVectorMult', lambda: opm.OperatorRightVectorMult(N, vv),
                         ('rvec', sN, vv, R)),
                        ('BroadcastOperator', lambda: odl.BroadcastOperator(A, N),
                         ('blocks', 'bcast', R, odl.ProductSpace(R, 2), [(0, 0, sA), (1, 0, sN)]))):
                    yield mk(nm, pre + ' nonlinear-operand#{}'.format(tree_shape(sp_)), f, sp_)
            if cfg == 'cc':
                # complex -> complex but only REAL-linear operand (embedding o real part) under
                # genuinely complex scalar multiples, and through the operator arithmetic
                E = opm.OperatorComp(odl.ComplexEmbedding(R, 1 + 1j), odl.RealPart(C))
                sE = ('comp', ('cembed', R, 1 + 1j), ('realpart', C))
                yield mk('OperatorLeftScalarMult', pre + ' operand=real-linear-only scalar=cplx',
                         lambda E=E: opm.OperatorLeftScalarMult(E, 2j), ('lsc', sE, 2j))
                yield mk('OperatorRightScalarMult', pre + ' operand=real-linear-only scalar=cplx',
                         lambda E=E: opm.OperatorRightScalarMult(E, 1 + 2j), ('rsc', sE, 1 + 2j))
                yield mk('OperatorLeftScalarMult', pre + ' operand=real-linear-only via s*A',
                         lambda E=E: 2j * E, ('lsc', sE, 2j))
                yield mk('OperatorRightScalarMult', pre + ' operand=RealPart scalar=cplx',
                         lambda C=C: opm.OperatorRightScalarMult(odl.RealPart(C), 2j),
                         ('rsc', ('realpart', C), 2j))
            B, sB = operand(cfg, R, C)
            yield mk('OperatorSum', pre, lambda A=A, B=B: opm.OperatorSum(A, B), ('sum', sA, sB))
            for cfg2 in ('rr', 'cc', 'rc', 'cr'):
                if cfg2[1] != cfg[0]:
                    continue
                B2, sB2 = operand(cfg2, R, C)
                yield mk('OperatorComp', 'left={}/{} right={}'.format(cfg, tag, cfg2),
                         lambda A=A, B2=B2: opm.OperatorComp(A, B2), ('comp', sA, sB2))
            # FunctionalLeftVectorMult(<., w> o A, u): dom -> ran
            w = rand_el(rng, ran, nz=True)
            u = rand_el(rng, ran, nz=True)
            yield mk('FunctionalLeftVectorMult', pre + ' composed',
                     lambda A=A, w=w, u=u: opm.FunctionalLeftVectorMult(
                         opm.OperatorComp(odl.InnerProductOperator(w), A), u),
                     ('flv', ('comp', ('inner', ran, w), sA), u, ran))


def hidden_cases(ctx, rng, mk):
    """linear operators with an adjoint whose classes are defined inside methods (invisible
    to the introspection of the namespaces): derivatives of ComplexModulus(Squared) and of
    PointwiseNorm, and their adjoint classes"""
    odl = odl_()
    for tag, C in (('cn3', odl.cn(3)), ('cn2/array', odl.cn(2, weighting=[2.0, 0.5])),
                   ('cdiscr3', odl.uniform_discr(0, 1.5, 3, dtype='complex128'))):
        pt = from_flat(C, np.array([3 + 4j, -4 + 3j, 5j][:sdim(C)]))  # |.| = 5: dyadic ratios
        yield mk('ComplexModulusSquaredDerivative', 'space=' + tag,
                 lambda C=C, pt=pt: odl.ComplexModulusSquared(C).derivative(pt))
        yield mk('ComplexModulusSquaredDerivativeAdjoint', 'space=' + tag,
                 lambda C=C, pt=pt: odl.ComplexModulusSquared(C).derivative(pt).adjoint)
        yield mk('ComplexModulusDerivative', 'space=' + tag,
                 lambda C=C, pt=pt: odl.ComplexModulus(C).derivative(pt), approx=True)
        yield mk('ComplexModulusDerivativeAdjoint', 'space=' + tag,
                 lambda C=C, pt=pt: odl.ComplexModulus(C).derivative(pt).adjoint, approx=True)
    V = odl.ProductSpace(odl.rn(2), 2)
    pt = V.element([[3.0, -4.0], [4.0, 3.0]])
    yield mk('PointwiseNormDerivative', 'base=rn2 d=2',
             lambda: odl.PointwiseNorm(V).derivative(pt), approx=True)


def introspect():
    """All Operator subclasses reachable from the odl namespaces that define .adjoint."""
    odl = odl_()
    import odl.trafos
    import odl.tomo
    import odl.deform
    import odl.solvers
    from odl.operator import Operator
    found = {}
    for mod in (odl, odl.trafos, odl.tomo, odl.deform, odl.solvers, odl.operator.operator,
                odl.operator.tensor_ops, odl.operator.pspace_ops, odl.operator.default_ops,
                odl.discr.diff_ops, odl.discr.discr_ops):
        for n in dir(mod):
            o = getattr(mod, n)
            if inspect.isclass(o) and issubclass(o, Operator) and o is not Operator:
                has = any('adjoint' in c.__dict__ for c in o.__mro__ if c is not Operator)
                if has:
                    found[n] = o
    return found


# ---------------------------------------------------------------------------------------------
# serialisation of modelled operators for the Lean driver

class NotModelled(Exception):
    pass


def cs(z):
    z = complex(z)
    return fs(z.real) if z.imag == 0 else fs(z.real) + ':' + fs(z.imag)


def cvec(S, x):
    f = to_flat(S, x)
    return ','.join(cs(z) for z in np.asarray(f, dtype=complex).tolist()) or '-'


def comp_sizes(S):
    if is_field(S):
        return [1]
    if is_pspace(S):
        out = []
        for s in S:
            if is_pspace(s):
                raise NotModelled('nested product space')
            out.append(sdim(s))
        return out
    return [sdim(S)]


def space_sig(S):
    """field flag, component sizes and the weight of every entry (as the driver prints it)"""
    g = gram(S)
    w = g[::2] if is_cplx(S) else g
    return ('c:' if is_cplx(S) else 'r:') + (','.join(str(n) for n in comp_sizes(S)) or '-') + \
        ':w=' + (','.join(fs(t) for t in w) or '-')


class TB(object):
    """token builder with a table of spaces"""

    def __init__(self):
        self.spaces = []
        self.keys = {}
        self.toks = []

    def sp(self, S):
        k = S if not is_field(S) else repr(S)   # exact equality of spaces, not repr()
        if k not in self.keys:
            g = gram(S)
            w = g[::2] if is_cplx(S) else g
            desc = '{};{};{}'.format('c' if is_cplx(S) else 'r',
                                     ','.join(str(n) for n in comp_sizes(S)) or '-',
                                     ','.join(fs(t) for t in w) or '-')
            self.keys[k] = len(self.spaces)
            self.spaces.append(desc)
        return str(self.keys[k])

    def line(self):
        return 'tree ' + ' '.join('S{}={}'.format(i, d) for i, d in enumerate(self.spaces)) + \
            ' t=' + '|'.join(self.toks)


def pweights(V):
    w = V.weighting
    if hasattr(w, 'array'):
        return [float(t) for t in np.asarray(w.array).ravel()]
    if hasattr(w, 'const'):
        return [float(w.const)] * len(V)
    raise NotModelled('product space weighting')


def emit(tb, spec):
    """append the postfix tokens of a spec; returns the set of branch names used"""
    odl = odl_()
    k = spec[0]
    t = tb.toks
    if k == 'scaling':
        _, S, s = spec
        t.append('scal;{};{}'.format(tb.sp(S), cs(s)))
    elif k == 'zero':
        t.append('zero;{};{}'.format(tb.sp(spec[1]), tb.sp(spec[2])))
    elif k == 'nonlin':
        t.append('nonlin;{};{}'.format(tb.sp(spec[1]), tb.sp(spec[2])))
    elif k == 'opaque':
        # unmodelled operator: forward and adjoint matrices are taken from the real code
        _, op, D, R = spec
        if is_cplx(D) or is_cplx(R) or is_pspace(D) or is_pspace(R) or is_field(D) or is_field(R):
            raise NotModelled('opaque leaf on complex / product spaces')
        MA = matrix_of(op, D, R)
        MB = matrix_of(op.adjoint, R, D)

        def rows(cols, nrows):
            return '~'.join(','.join(fs(cols[k][i]) for k in range(len(cols)))
                            for i in range(nrows)) or '-'
        t.append('opq;0;{};{};{};{}'.format(tb.sp(D), tb.sp(R), rows(MA, sdim(R)), rows(MB, sdim(D))))
    elif k == 'multiply':
        _, D, R, v = spec
        t.append('mul;{};{};{}'.format(tb.sp(D), tb.sp(R), cvec(D, v)))
    elif k == 'multfield':
        _, S, v = spec
        t.append('mulf;{};{};{}'.format(tb.sp(S), tb.sp(S.field), cvec(S, v)))
    elif k == 'inner':
        _, S, v = spec
        t.append('inner;{};{};{}'.format(tb.sp(S), tb.sp(S.field), cvec(S, v)))
    elif k in ('realpart', 'imagpart'):
        S = spec[1]
        t.append('{};{};{}'.format('re' if k == 'realpart' else 'im', tb.sp(S), tb.sp(S.real_space)))
    elif k == 'cembed':
        _, S, s = spec
        t.append('cemb;{};{};{}'.format(tb.sp(S), tb.sp(S.complex_space), cs(s)))
    elif k == 'partialderiv':
        # round 4: PartialDerivative = the C13 `finite_diff` model (generated tables) along `axis`
        _, S, axis, method, pad = spec
        q = int(np.prod(S.shape[axis + 1:], dtype=int))
        t.append('pderiv;{};{};{};{};{};{}'.format(tb.sp(S), S.shape[axis], q, method, pad,
                                                 fs(float(S.cell_sides[axis]))))
    elif k == 'laplacian':
        # round 5: Laplacian = sum over the axes of (forward - backward)(dx^2), same pad mode
        _, S, pad = spec
        t.append('lap;{};{};{};{}'.format(tb.sp(S), ','.join(str(n) for n in S.shape), pad,
                                          ','.join(fs(float(d)) for d in S.cell_sides)))
    elif k in ('gradient', 'divergence'):
        # round 4: Gradient / Divergence = block column / row of the partial derivatives
        # (`gradTree` / `divTree` of the model); V = the power space as the code built it
        _, S, V, method, pad = spec
        if not is_pspace(V) or len(V) != S.ndim:
            raise NotModelled('gradient range is not S^ndim')
        sh = ','.join(str(n) for n in S.shape)
        dxs = ','.join(fs(float(d)) for d in S.cell_sides)
        if k == 'gradient':
            t.append('grad;{};{};{};{};{};{}'.format(tb.sp(S), tb.sp(V), sh, method, pad, dxs))
        else:
            t.append('div;{};{};{};{};{};{}'.format(tb.sp(V), tb.sp(S), sh, method, pad, dxs))
    elif k == 'matrixaxis':
        # round 4: MatrixOperator along `axis` of an n-d tensor, shape (p, n, q) -> (p, m, q);
        # `cw` mirrors the code's own test `getattr(weighting, 'const', None)` on both sides
        _, M, D, R, axis = spec
        M = np.asarray(M)
        if D.ndim < 2 or M.ndim != 2:
            raise NotModelled('matrixaxis on a 1-d space')
        q = int(np.prod(D.shape[axis + 1:], dtype=int))
        dc = getattr(D.weighting, 'const', None)
        rc = getattr(R.weighting, 'const', None)
        cw = '-' if dc is None or rc is None else fs(dc) + ',' + fs(rc)
        rows = '~'.join(','.join(cs(z) for z in row) for row in M.tolist())
        t.append('mataxis;{};{};{};{};{};{};{}'.format(tb.sp(D), tb.sp(R), D.shape[axis], M.shape[0],
                                                     q, cw, rows))
    elif k == 'matrix':
        _, M, D, R = spec
        if D.ndim != 1 or R.ndim != 1:
            raise NotModelled('matrix on tensors with ndim > 1')
        rows = '~'.join(','.join(cs(z) for z in row) for row in np.asarray(M).tolist())
        t.append('mat;{};{};{}'.format(tb.sp(D), tb.sp(R), rows))
    elif k in ('pwinner', 'pwinneradj'):
        _, V, X, G, wt = spec
        v = pweights(V)
        if wt is None:
            w = v
        elif np.isscalar(wt):
            w = [float(wt)] * len(V)
        else:
            w = [float(z) for z in wt]
        G = V.element(G)
        if k == 'pwinner':
            t.append('pwi;{};{};{};{};{}'.format(tb.sp(V), tb.sp(X), cvec(V, G), core.fl(w), core.fl(v)))
        else:
            t.append('pwia;{};{};{};{};{}'.format(tb.sp(X), tb.sp(V), cvec(V, G), core.fl(w), core.fl(v)))
    elif k in ('sampling', 'wsum'):
        _, S, pts, variant = spec
        if S.ndim != 1:
            # round 4: one index row per axis; the MODEL ravels them (`sampIdx`)
            P = np.asarray(pts, dtype=int).reshape(S.ndim, -1)
            R = odl.tensor_space(P.shape[1], dtype=S.dtype)
            rows = '~'.join(','.join(str(int(v)) for v in row) for row in P.tolist())
            sh = ','.join(str(n) for n in S.shape)
            cv = getattr(S, 'cell_volume', 1.0)
            if k == 'sampling':
                t.append('sampnd;{};{};{};{};{};{}'.format(tb.sp(S), tb.sp(R), sh, rows,
                                                         int(variant == 'integrate'), fs(cv)))
            else:
                t.append('wsumnd;{};{};{};{};{};{}'.format(tb.sp(R), tb.sp(S), sh, rows,
                                                         int(variant == 'dirac'), fs(cv)))
            return
        idx = [int(p) for p in np.atleast_1d(np.asarray(pts, dtype=int)).ravel()]
        R = odl.tensor_space(len(idx), dtype=S.dtype)
        cv = getattr(S, 'cell_volume', 1.0)
        if k == 'sampling':
            t.append('samp;{};{};{};{};{}'.format(tb.sp(S), tb.sp(R), ','.join(map(str, idx)),
                                                 int(variant == 'integrate'), fs(cv)))
        else:
            t.append('wsum;{};{};{};{};{}'.format(tb.sp(R), tb.sp(S), ','.join(map(str, idx)),
                                                 int(variant == 'dirac'), fs(cv)))
    elif k in ('flatten', 'flatteninv'):
        _, S, order = spec
        R = odl.tensor_space(S.size, dtype=S.dtype)
        if order != 'C' and S.ndim > 1:
            # round 4: Fortran order = the permutation `cOfF shape` of the model
            sh = ','.join(str(n) for n in S.shape)
            if k == 'flatten':
                t.append('flatf;{};{};{}'.format(tb.sp(S), tb.sp(R), sh))
            else:
                t.append('flatfinv;{};{};{}'.format(tb.sp(R), tb.sp(S), sh))
            return
        if k == 'flatten':
            t.append('flat;{};{}'.format(tb.sp(S), tb.sp(R)))
        else:
            t.append('flatinv;{};{}'.format(tb.sp(R), tb.sp(S)))
    elif k in ('proj', 'projadj'):
        _, P, idx = spec
        if isinstance(idx, slice):
            il = list(range(len(P)))[idx]
        elif isinstance(idx, int):
            il = [idx]
        else:
            il = list(idx)
        Q = P[idx]
        if k == 'proj':
            t.append('proj;{};{};{}'.format(tb.sp(P), tb.sp(Q), ','.join(map(str, il))))
        else:
            t.append('projadj;{};{};{}'.format(tb.sp(Q), tb.sp(P), ','.join(map(str, il))))
    elif k == 'blocks':
        _, kind, D, R, entries = spec
        t.append('pnil;{};{};{}'.format(kind, tb.sp(D), tb.sp(R)))
        for i, j, sub in entries:
            emit(tb, sub)
            t.append('pcons;{};{}'.format(i, j))
    elif k in ('sum', 'comp'):
        emit(tb, spec[1])
        emit(tb, spec[2])
        t.append(k)
    elif k in ('lsc', 'rsc'):
        emit(tb, spec[1])
        t.append('{};{}'.format(k, cs(spec[2])))
    elif k in ('lvec', 'rvec'):
        _, a, v, S = spec
        emit(tb, a)
        t.append('{};{};{}'.format(k, tb.sp(S), cvec(S, v)))
    elif k == 'flv':
        _, f, v, V = spec
        emit(tb, f)
        t.append('flv;{};{};{}'.format(tb.sp(V), tb.sp(V.field), cvec(V, v)))
    else:
        raise NotModelled(k)


def branch_name(spec):
    k = spec[0]
    if k == 'blocks':
        return 'blocks/' + spec[1]
    try:
        if k in ('sampling', 'wsum') and spec[1].ndim > 1:
            return k + '-nd'
        if k in ('flatten', 'flatteninv') and spec[2] != 'C' and spec[1].ndim > 1:
            return k + '-F'
        if k == 'matrixaxis':
            D, R = spec[2], spec[3]
            if D is None:
                return 'matrixaxis'
            both = (getattr(D.weighting, 'const', None) is not None and
                    getattr(R.weighting, 'const', None) is not None)
            return 'matrixaxis/' + ('const' if both else 'bare-transpose')
    except Exception:  # noqa
        pass
    return k


def spec_branches(spec, acc=None):
    acc = set() if acc is None else acc
    acc.add(branch_name(spec))
    for s in spec[1:]:
        if isinstance(s, tuple) and s and isinstance(s[0], str):
            spec_branches(s, acc)
        elif isinstance(s, list):
            for e in s:
                if isinstance(e, tuple) and len(e) == 3 and isinstance(e[2], tuple):
                    spec_branches(e[2], acc)
    return acc


def parse_cols(s, cplx):
    """driver matrix -> list of columns of real coordinates (Fractions)"""
    if s == '-':
        return []
    cols = []
    for col in s.split('~'):
        vals = []
        if col != '-':
            for tok in col.split(','):
                if ':' in tok:
                    a, b = tok.split(':')
                    re_, im_ = core.pfrac(a), core.pfrac(b)
                else:
                    re_, im_ = core.pfrac(tok), Fraction(0)
                if cplx:
                    vals.extend([re_, im_])
                else:
                    vals.append(re_ if im_ == 0 else ('cplx', re_, im_))
        cols.append(vals)
    return cols


def same_cols(ctx, model_cols, code_cols):
    """exact equality, or - where the code divides by a non power of two (weight ratios like
    1/(1+2**-20)) and rounds - equality up to 1e-12 of each entry (counted, general stream)"""
    if model_cols == code_cols:
        return True
    if len(model_cols) != len(code_cols) or any(len(a) != len(b) for a, b in zip(model_cols, code_cols)):
        return False
    for ca, cb in zip(model_cols, code_cols):
        for u, v in zip(ca, cb):
            if u == v:
                continue
            if isinstance(u, tuple) or isinstance(v, tuple):
                return False
            fu, fv = float(u), float(v)
            if abs(fu - fv) > 1e-12 * max(abs(fu), abs(fv)):
                return False
    ctx.extra['correspondence_rounded_matrices'] = ctx.extra.get('correspondence_rounded_matrices', 0) + 1
    return True


def compare_model(ctx, desc, A, status, info, ans):
    """entry-wise comparison of the model's matrices with those of the real code"""
    fields = dict(tk.split('=', 1) for tk in ans.split()[1:]) if ' ' in ans else {}
    head = ans.split()[0] if ans else ''
    if head == 'bad-op' or head not in ('ok', 'noadj'):
        ctx.disagree(desc, status, ans[:300])
        return
    dom, ran = A.domain, A.range
    if 'A' in info and 'A' in fields and not desc.get('nonlin'):
        if not same_cols(ctx, parse_cols(fields['A'], is_cplx(ran)), info['A']):
            ctx.disagree(desc, 'matrix of A = {}'.format(_mstr(info['A'])),
                         'matrix of run t = {}'.format(fields['A'][:400]))
            return
    if head == 'noadj':
        if status == 'ok':
            ctx.disagree(desc, 'adjoint returned', 'model: adj = none')
        return
    if status != 'ok':
        ctx.disagree(desc, status, 'model: adjoint exists')
        return
    if 'B' in info:
        if not same_cols(ctx, parse_cols(fields['B'], is_cplx(dom)), info['B']):
            ctx.disagree(desc, 'matrix of A.adjoint = {}'.format(_mstr(info['B'])),
                         'matrix of run (adj t) = {}'.format(fields['B'][:400]))
            return
    if 'adjsig' in info and (fields.get('ad'), fields.get('ar')) != info['adjsig']:
        ctx.disagree(desc, 'adjoint spaces {}'.format(info['adjsig']),
                     'model adjoint spaces {}'.format((fields.get('ad'), fields.get('ar'))))
        return
    if 'C' in info and fields.get('AA') not in (None, 'noadj'):
        if not same_cols(ctx, parse_cols(fields['AA'], is_cplx(ran)), info['C']):
            ctx.disagree(desc, 'matrix of A.adjoint.adjoint = {}'.format(_mstr(info['C'])),
                         'matrix of run (adj (adj t)) = {}'.format(fields['AA'][:400]))
    elif ('C' in info) != (fields.get('AA') not in (None, 'noadj')):
        ctx.disagree(desc, 'A.adjoint.adjoint {}'.format('ok' if 'C' in info else 'raises'),
                     'model adj (adj t): {}'.format(fields.get('AA', '')[:40]))


def _mstr(cols):
    return '~'.join(','.join(fs(v) for v in c) for c in cols)[:400]


# ---------------------------------------------------------------------------------------------
# random linear expression trees over modelled leaves

def tree_spaces():
    odl = odl_()
    return {
        'r2': odl.rn(2), 'r3': odl.rn(3), 'c2': odl.cn(2), 'c3': odl.cn(3),
        'r2w': odl.rn(2, weighting=2.0), 'r3w': odl.rn(3, weighting=2.0),
        'c2w': odl.cn(2, weighting=2.0),
        'd3': odl.uniform_discr(0, 1.5, 3), 'd2': odl.uniform_discr(0, 1, 2),
        'r3a': odl.rn(3, weighting=[1.0, 2.0, 4.0]), 'c2a': odl.cn(2, weighting=[4.0, 0.5]),
        'cd2': odl.uniform_discr(0, 1, 2, dtype='complex128'),
        'c3w': odl.cn(3, weighting=2.0), 'r2a': odl.rn(2, weighting=[4.0, 0.5]),
        'c3a': odl.cn(3, weighting=[1.0, 2.0, 4.0]),
        'cd3': odl.uniform_discr(0, 1.5, 3, dtype='complex128'),
    }


def wclass(S):
    """weighting class of a tree space"""
    w = S.weighting
    if hasattr(w, 'const'):
        return ('const', float(w.const))
    return ('other', repr(S))


def mat_ok(dom, ran):
    """MatrixOperator(M, domain=dom, range=ran) is constructible and modelled (1-d, same field)"""
    return is_cplx(dom) == is_cplx(ran) and dom.ndim == 1 and ran.ndim == 1


def pick_space(rng, sps, like, same_field=False):
    """a space of the zoo, mostly one between which and `like` a non-zero leaf exists"""
    vals = list(sps.values())
    r = rng.random()
    if r < 0.7:
        c = [s for s in vals if is_cplx(s) == is_cplx(like)]
        if c:
            return rng.choice(c)
        return like
    if r < 0.85 and not same_field:
        c = [s for s in vals if is_cplx(s) != is_cplx(like) and
             (s.real_space == like or s.complex_space == like)]
        if c:
            return rng.choice(c)
    if same_field:
        return rng.choice([s for s in vals if is_cplx(s) == is_cplx(like)])
    return rng.choice(vals)


def gen_tree(rng, sps, dom, ran, depth, allow_cplx_scalar=True):
    """returns (operator, spec, mixed) with operator: dom -> ran built from the real classes"""
    odl = odl_()
    from odl.operator import operator as opm
    names = list(sps)
    cd, cr = is_cplx(dom), is_cplx(ran)

    def scalar(cplx_ok):
        if cplx_ok and rng.random() < 0.6:
            return rng.choice([1j, 1 + 1j, -0.5 + 2j, 2 - 1j])
        return rng.choice([2.0, -1.0, 0.5, -0.25, 3.0])

    def leaf():
        if dom == ran and not cd and rng.random() < 0.04:
            # non-linear operand: `.adjoint` of every tree containing it must raise
            return odl.PowerOperator(dom, 2), ('nonlin', dom, dom), False
        if dom == ran and is_discr(dom) and not cd and rng.random() < 0.5:
            # opaque operand (no executable model): finite difference with an adjoint
            method = rng.choice(['forward', 'backward', 'central'])
            pad = rng.choice(['constant', 'symmetric'])
            op = odl.PartialDerivative(dom, 0, method=method, pad_mode=pad)
            if rng.random() < 0.6:
                # round 4: the finite-difference leaf of the model (generated C13 tables)
                return op, ('partialderiv', dom, 0, method, pad), False
            return op, ('opaque', op, dom, dom), False
        if dom == ran:
            k = rng.randint(0, 3)
            if k == 0:
                s = scalar(cd)
                return odl.ScalingOperator(dom, s), ('scaling', dom, s), False
            if k == 1:
                v = rand_el(rng, dom)
                return odl.MultiplyOperator(v), ('multiply', dom, dom, v), False
            if k == 2:
                return odl.IdentityOperator(dom), ('scaling', dom, 1.0), False
            M = rand_mat(rng, sdim(ran), sdim(dom), cd and rng.random() < 0.6)
            return odl.MatrixOperator(M, domain=dom, range=ran), ('matrix', M, dom, ran), False
        if cd and not cr and dom.real_space == ran:
            if rng.random() < 0.5:
                return odl.RealPart(dom), ('realpart', dom), True
            return odl.ImagPart(dom), ('imagpart', dom), True
        if cr and not cd and dom.complex_space == ran:
            s = rng.choice([1.0, 1j, 1 + 2j, -0.5, 2 - 1j])
            return odl.ComplexEmbedding(dom, s), ('cembed', dom, s), True
        if mat_ok(dom, ran) and rng.random() < 0.9:
            M = rand_mat(rng, sdim(ran), sdim(dom), cd and rng.random() < 0.6)
            return odl.MatrixOperator(M, domain=dom, range=ran), ('matrix', M, dom, ran), False
        if cd == cr or rng.random() < 0.3:
            return odl.ZeroOperator(dom, ran), ('zero', dom, ran), False
        # change of field through the real / complex counterpart of one side
        if cd:  # complex -> real
            mid = ran.complex_space
            a, sa, _ = gen_tree(rng, sps, dom, mid, 0)
            b = odl.RealPart(mid) if rng.random() < 0.5 else odl.ImagPart(mid)
            sb = ('realpart' if isinstance(b, odl.RealPart) else 'imagpart', mid)
            return opm.OperatorComp(b, a), ('comp', sb, sa), True
        mid = dom.complex_space
        a, sa, _ = gen_tree(rng, sps, mid, ran, 0)
        s = rng.choice([1.0, 1j, 1 + 2j])
        return opm.OperatorComp(a, odl.ComplexEmbedding(dom, s)), \
            ('comp', sa, ('cembed', dom, s)), True

    if depth <= 0:
        return leaf()
    k = rng.choice(['sum', 'comp', 'comp', 'lsc', 'rsc', 'lvec', 'rvec', 'leaf', 'flv'])
    if k == 'leaf':
        return leaf()
    if k == 'sum':
        a, sa, ma = gen_tree(rng, sps, dom, ran, depth - 1)
        b, sb, mb = gen_tree(rng, sps, dom, ran, depth - 1)
        return opm.OperatorSum(a, b), ('sum', sa, sb), ma or mb
    if k == 'comp':
        mid = pick_space(rng, sps, rng.choice([dom, ran]))
        a, sa, ma = gen_tree(rng, sps, mid, ran, depth - 1)
        b, sb, mb = gen_tree(rng, sps, dom, mid, depth - 1)
        return opm.OperatorComp(a, b), ('comp', sa, sb), ma or mb
    if k in ('lsc', 'rsc'):
        a, sa, ma = gen_tree(rng, sps, dom, ran, depth - 1)
        # whatever the constructors admit: `scalar in range.field` (left) / `domain.field`
        # (right) — also genuinely complex scalars on operands that are only real-linear
        s = scalar(cr if k == 'lsc' else cd)
        if k == 'lsc':
            return opm.OperatorLeftScalarMult(a, s), ('lsc', sa, s), ma
        return opm.OperatorRightScalarMult(a, s), ('rsc', sa, s), ma
    if k == 'lvec':
        a, sa, ma = gen_tree(rng, sps, dom, ran, depth - 1)
        v = rand_el(rng, ran)
        return opm.OperatorLeftVectorMult(a, v), ('lvec', sa, v, ran), ma
    if k == 'rvec':
        a, sa, ma = gen_tree(rng, sps, dom, ran, depth - 1)
        v = rand_el(rng, dom)
        return opm.OperatorRightVectorMult(a, v), ('rvec', sa, v, dom), ma
    # FunctionalLeftVectorMult(<., w> o a, v): dom -> ran
    cands = [s for s in sps.values() if is_cplx(s) == cr and wclass(s)[0] in ('const', 'other')]
    mid = rng.choice(cands)
    if is_cplx(mid) != cr:
        return leaf()
    a, sa, ma = gen_tree(rng, sps, dom, mid, depth - 1)
    w = rand_el(rng, mid)
    v = rand_el(rng, ran)
    f = opm.OperatorComp(odl.InnerProductOperator(w), a)
    return opm.FunctionalLeftVectorMult(f, v), ('flv', ('comp', ('inner', mid, w), sa), v, ran), ma


def gen_top(rng, sps, depth):
    """a random tree, possibly wrapped in a block operator"""
    odl = odl_()
    names = list(sps)
    k = rng.random()
    if k < 0.65:
        dom = sps[rng.choice(names)]
        ran = pick_space(rng, sps, dom)
        op, spec, _ = gen_tree(rng, sps, dom, ran, depth)
        return op, spec, 'tree'
    kind = rng.choice(['bcast', 'red', 'diag', 'pso'])
    n = rng.randint(1, 3)
    if kind in ('bcast', 'red', 'diag'):
        X = sps[rng.choice(names)]
        subs = []
        for _ in range(n):
            Y = pick_space(rng, sps, X, same_field=True)
            subs.append((Y, gen_tree(rng, sps, X, Y, depth - 1) if kind != 'red'
                         else gen_tree(rng, sps, Y, X, depth - 1)))
        ops = [s[1][0] for s in subs]
        if kind == 'bcast':
            P = odl.ProductSpace(*[s[0] for s in subs])
            return odl.BroadcastOperator(*ops), ('blocks', 'bcast', X, P, [
                (i, 0, s[1][1]) for i, s in enumerate(subs)]), 'bcast'
        if kind == 'red':
            P = odl.ProductSpace(*[s[0] for s in subs])
            return odl.ReductionOperator(*ops), ('blocks', 'red', P, X, [
                (0, i, s[1][1]) for i, s in enumerate(subs)]), 'red'
        D = odl.ProductSpace(*[X for _ in subs])
        R = odl.ProductSpace(*[s[0] for s in subs])
        return odl.DiagonalOperator(*ops), ('blocks', 'diag', D, R, [
            (i, i, s[1][1]) for i, s in enumerate(subs)]), 'diag'
    cplx = rng.random() < 0.4
    pool = [nm for nm in names if is_cplx(sps[nm]) == cplx]
    doms = [sps[rng.choice(pool)] for _ in range(rng.randint(1, 3))]
    rans = [pick_space(rng, sps, rng.choice(doms), same_field=True) for _ in range(rng.randint(1, 3))]
    rows, entries = [], []
    for i, R_ in enumerate(rans):
        row = []
        for j, D_ in enumerate(doms):
            if rng.random() < 0.35:
                row.append(0)
                continue
            op, spec, _ = gen_tree(rng, sps, D_, R_, depth - 1)
            row.append(op)
            entries.append((i, j, spec))
            if rng.random() < 0.0:
                pass
        rows.append(row)
    P, Q = odl.ProductSpace(*doms), odl.ProductSpace(*rans)
    return odl.ProductSpaceOperator(rows, domain=P, range=Q), ('blocks', 'pso', P, Q, entries), 'pso'


def tree_shape(spec):
    k = spec[0]
    if k == 'blocks':
        return 'B{}[{}]'.format(spec[1], ','.join(tree_shape(e[2]) for e in spec[4]))
    if k in ('sum', 'comp'):
        return '{}({},{})'.format(k, tree_shape(spec[1]), tree_shape(spec[2]))
    if k in ('lsc', 'rsc', 'lvec', 'rvec', 'flv'):
        return '{}({})'.format(k, tree_shape(spec[1]))
    return k


# ---------------------------------------------------------------------------------------------
# run / search / replay

def eval_case(ctx, key, A, spec, approx, replay_case, batch, count=True):
    """oracle on the real code + queue the model line"""
    try:
        status, problems, info = oracle(A, approx)
    except Exception as e:  # noqa  (the harness itself must not crash on a mutated repo)
        status, problems, info = 'ok', [('harness', 'oracle raised {}: {}'.format(
            type(e).__name__, str(e)[:200]))], {}
    if status != 'ok':
        ctx.err(status)
        exp = _expected(key, EXPECT_NOADJ)
        if key.startswith('class=') and exp != status:
            problems = problems + [('no-adjoint', 'A.is_linear = {} and `.adjoint` {} (expected {})'
                                    .format(getattr(A, 'is_linear', '?'), status,
                                            exp or 'an adjoint operator'))]
    else:
        if key.startswith('class=') and _expected(key, EXPECT_NOADJ):
            problems = problems + [('no-adjoint', 'an adjoint is returned where {} was expected'
                                    .format(_expected(key, EXPECT_NOADJ)))]
        try:
            B = A.adjoint
            info['adjsig'] = (space_sig(B.domain), space_sig(B.range))
        except Exception:  # noqa
            pass
    for kind, text in problems:
        vkey = '{} fail={}'.format(key, kind)
        kf = core.match_known({'key': vkey}, _known())
        if kf is not None:
            # recorded findings occur in hundreds of configurations: keep three witnesses per
            # finding so that they cannot crowd new violations out of the (capped) list
            seen = ctx.extra.setdefault('known_finding_witnesses', {})
            seen[kf['id']] = seen.get(kf['id'], 0) + 1
            if seen[kf['id']] > 3:
                continue
        ctx.violation(vkey, text, dict(replay_case, fail=kind))
    nontrivial = any(v != 0 for c in info.get('A', []) for v in c)
    if count:
        ctx.case((key,) if nontrivial else None,
                 sample={'case': key, 'status': status,
                         'A': _mstr(info['A'])[:160] if 'A' in info else None,
                         'Aadj': _mstr(info['B'])[:160] if 'B' in info else None}
                 if len(ctx.samples) < 12 and nontrivial and not approx else None)
    if info.get('inexact'):
        ctx.extra['inexact_entries'] = ctx.extra.get('inexact_entries', 0) + info['inexact']
    if spec is not None and batch is not None:
        try:
            tb = TB()
            emit(tb, spec)
            batch.append((key, A, status, info, tb.line(), spec))
        except NotModelled as e:
            ctx.hit('unmodelled/' + str(e)[:40])
        except Exception as e:  # noqa
            ctx.disagree({'case': key}, 'serialisation failed', '{}: {}'.format(type(e).__name__, e))
    return status, problems


_KNOWN = []


def _known():
    if not _KNOWN:
        _KNOWN.append(core.load_known('C05'))
    return _KNOWN[0]


# Cases of the zoo that are EXPECTED not to construct / not to return an adjoint (documented
# behaviour).  Anything else that raises is reported: an exception from the real code never
# silently skips a case.
EXPECT_CONSTRUCT_FAIL = [r'^class=Laplacian opts=space=\S+ pad=order[12](_adjoint)?$']
EXPECT_NOADJ = {
    r'^class=ConstantOperator opts=zero constant$': 'noadjoint:None',
    r'^class=ZeroFunctional opts=space=rT1$': 'noadjoint:OpNotImplementedError',
    r'^class=MatrixOperator opts=domw=none shape=2x3 dtype=complex dom=real$': 'noadjoint:ValueError',
    r'^class=\w+ opts=operand=rr/T nonlinear-operand#\S+$': 'noadjoint:OpNotImplementedError',
    r'^class=WaveletTransform(Inverse)? opts=gate \S+ wavelet=\S+ family=(bior|rbio) nonorthogonal pad=pywt_periodic$':
        'noadjoint:OpNotImplementedError',
    r'^class=(FourierTransform|DiscreteFourierTransform) opts=gate exponent=1$': 'noadjoint:NotImplementedError',
    r'^class=(PartialDerivative|Gradient|Divergence|Laplacian) opts=gate pad_const=1 \(affine\)$': 'noadjoint:ValueError',
    r'^class=ResizingOperator opts=gate pad_const=1 \(affine\)$': 'noadjoint:NotImplementedError',
    r'^class=(PowerOperator opts=gate exponent=2|OperatorVectorSum opts=gate affine|UfuncOperator opts=gate sin|PointwiseNorm opts=gate nonlinear|ComplexModulus opts=gate nonlinear)$':
        'noadjoint:OpNotImplementedError',
    r'^class=ConstantOperator opts=gate nonzero constant$': 'noadjoint:None',
    r'^class=Operator\.__(radd|rsub|add)__ opts=affine \S+$': 'noadjoint:OpNotImplementedError',
    r'^class=WaveletTransform opts=option array-weighting no-adjoint$': 'noadjoint:OpNotImplementedError',
}


def _expected(key, table):
    import re
    for pat in table:
        if re.search(pat, key):
            return table[pat] if isinstance(table, dict) else True
    return None


def fill_spec(spec, A):
    if spec is None:
        return None
    if spec[0] == 'matrix':
        return ('matrix', spec[1], A.domain, A.range)
    if spec[0] == 'gradient' and spec[2] is None:
        return ('gradient', spec[1], A.range, spec[3], spec[4])
    if spec[0] == 'divergence' and spec[2] is None:
        return ('divergence', spec[1], A.domain, spec[3], spec[4])
    if spec[0] == 'matrixaxis' and spec[2] is None:
        return ('matrixaxis', spec[1], A.domain, A.range, spec[4])
    return spec


def run_zoo(ctx, zseed, batch, only_key=None, count=True):
    import random
    import warnings
    rng = random.Random(zseed)
    classes = {}
    for c in zoo_cases(ctx, rng):
        key = c.key()
        if only_key is not None and key != only_key:
            continue
        try:
            with warnings.catch_warnings():
                warnings.simplefilter('ignore')
                A = c.build()
        except Exception as e:  # noqa
            ctx.err('construct:' + type(e).__name__)
            classes.setdefault(c.cls, [0, 0])[1] += 1
            if not _expected(key, EXPECT_CONSTRUCT_FAIL):
                ctx.violation(key + ' fail=construct-raises',
                              'constructing the operator raised {}: {}'.format(
                                  type(e).__name__, str(e)[:200]),
                              {'kind': 'zoo', 'key': key, 'zseed': zseed, 'tier': ctx.tier,
                               'fail': 'construct-raises'})
            continue
        if isinstance(A, str) and A == RAISED_AS_DOCUMENTED:
            if count:
                ctx.case(None)
            continue
        if not (hasattr(A, 'domain') and hasattr(A, 'range') and callable(A)):
            # a derived-operator expression (`__getitem__`, `.inverse`, ...) returned something that
            # is not an operator
            ctx.violation(key + ' fail=not-an-operator',
                          'the expression returned {!r} instead of an operator'.format(A)[:300],
                          {'kind': 'zoo', 'key': key, 'zseed': zseed, 'tier': ctx.tier,
                           'fail': 'not-an-operator'})
            continue
        classes.setdefault(c.cls, [0, 0])[0] += 1
        if count:
            ctx.hit('class/' + c.cls)
        with warnings.catch_warnings():
            warnings.simplefilter('ignore')
            eval_case(ctx, key, A, fill_spec(c.spec, A), c.approx or c.cls in APPROX,
                      {'kind': 'zoo', 'key': key, 'zseed': zseed, 'tier': ctx.tier}, batch, count)
    return classes


def run_trees(ctx, n, depth, batch, count=True):
    import random
    import warnings
    sps = tree_spaces()
    for _ in range(n):
        tseed = ctx.rng.getrandbits(48)
        one_tree(ctx, tseed, depth, sps, batch, count)


def one_tree(ctx, tseed, depth, sps, batch, count=True):
    import random
    import warnings
    r = random.Random(tseed)
    d = r.randint(1, depth)
    try:
        with warnings.catch_warnings():
            warnings.simplefilter('ignore')
            op, spec, top = gen_top(r, sps, d)
    except Exception as e:  # noqa
        ctx.err('tree-construct:' + type(e).__name__)
        ctx.notes.append('tree seed {} could not be constructed: {}: {}'.format(
            tseed, type(e).__name__, str(e)[:160]))
        return None
    shape = tree_shape(spec)
    key = 'tree shape={} kinds={} dom={} ran={}'.format(
        shape[:160], ','.join(sorted(b.replace('blocks/', 'B') for b in spec_branches(spec))),
        sp_sig(op.domain), sp_sig(op.range))
    if count:
        for b in spec_branches(spec):
            ctx.hit('model/' + b)
    with warnings.catch_warnings():
        warnings.simplefilter('ignore')
        return eval_case(ctx, key, op, spec, False,
                         {'kind': 'tree', 'tseed': tseed, 'depth': depth, 'key': key}, batch, count)


def flush(ctx, batch):
    if not batch:
        return
    outs = core.run_driver('C05', [b[4] for b in batch])
    for (key, A, status, info, line, spec), ans in zip(batch, outs):
        for b in spec_branches(spec):
            ctx.hit('model/' + b)
        br = spec_branches(spec)
        compare_model(ctx, {'case': key, 'line': line[:1500],
                            'nonlin': 'nonlin' in br},
                      A, status, info, ans)
    del batch[:]


def run(ctx):
    import odl  # noqa
    found = introspect()
    zseed = ctx.rng.getrandbits(32)
    batch = []
    classes = run_zoo(ctx, zseed, batch)
    if not ctx.quick:
        # more value seeds for the data-dependent leaves (vectors, matrices, scalars)
        for _ in range(2):
            run_zoo(ctx, ctx.rng.getrandbits(32), batch)
    covered = set(classes)
    ctx.extra['classes_with_adjoint'] = sorted(found)
    ctx.extra['classes_exempt'] = sorted(EXEMPT & set(found))
    tree_classes = {'OperatorSum', 'OperatorComp', 'OperatorLeftScalarMult',
                    'OperatorRightScalarMult', 'OperatorLeftVectorMult',
                    'OperatorRightVectorMult', 'FunctionalLeftVectorMult'}
    ctx.extra['classes_covered_by_random_trees'] = sorted(tree_classes & set(found))
    ctx.extra['classes_not_in_zoo'] = sorted(set(found) - covered - EXEMPT - tree_classes)
    ctx.extra['classes_not_in_zoo_note'] = (
        'Functional* expression classes define .adjoint only by inheritance for linear '
        'functionals (ScalingFunctional/IdentityFunctional/ZeroFunctional are in the zoo); '
        'PointwiseInnerBase is abstract')
    ctx.extra['classes_tested_only(opaque leaves, no executable model)'] = sorted(
        c for c in covered if c in (
                                    'ResizingOperator', 'ResizingOperatorAdjoint') or c in APPROX)
    n_trees = 300 if ctx.quick else 6000
    run_trees(ctx, n_trees, 3 if ctx.quick else 4, batch)
    flush(ctx, batch)
    expected = {'scaling', 'zero', 'multiply', 'multfield', 'inner', 'realpart', 'imagpart',
                'cembed', 'matrix', 'pwinner', 'pwinneradj', 'sampling', 'wsum', 'flatten',
                'flatteninv', 'proj', 'projadj', 'sum', 'comp', 'lsc', 'rsc', 'lvec', 'rvec',
                'flv', 'blocks/pso', 'blocks/bcast', 'blocks/red', 'blocks/diag', 'nonlin',
                'opaque', 'sampling-nd', 'wsum-nd', 'flatten-F', 'flatteninv-F',
                'matrixaxis/const', 'matrixaxis/bare-transpose', 'partialderiv',
                'gradient', 'divergence', 'laplacian'}
    unhit = sorted(b for b in expected if 'model/' + b not in ctx.branches)
    unhit += sorted(b for b in EXPECTED_STRATA if b not in ctx.branches)
    ctx.extra['unhit_model_branches'] = unhit
    if unhit:
        ctx.disagree({'case': 'coverage'}, 'model branches never exercised: {}'.format(unhit),
                     'every constructor of the model must be tied in the thorough tier')


def search(ctx, broken):
    """An obligation or the correspondence broke but the oracle was silent in `run`: look
    harder on the real code (thorough zoo under several value seeds, more and deeper trees)."""
    saved = ctx.tier
    ctx.tier = 'thorough'
    try:
        for _ in range(3):
            run_zoo(ctx, ctx.rng.getrandbits(32), None, count=False)
            if ctx.violations:
                break
        sps = tree_spaces()
        for _ in range(1500):
            one_tree(ctx, ctx.rng.getrandbits(48), 4, sps, None, count=False)
            if len(ctx.violations) > 20:
                break
    finally:
        ctx.tier = saved


def replay(ctx, case):
    """Re-run one recorded case on the real code with the oracle."""
    probe = core.Ctx(ctx.pid, case.get('tier', 'thorough'), ctx.seed)
    if case.get('kind') == 'zoo':
        run_zoo(probe, case['zseed'], None, only_key=case['key'], count=False)
    elif case.get('kind') == 'tree':
        one_tree(probe, case['tseed'], case['depth'], tree_spaces(), None, count=False)
    else:
        return None
    fails = [v for v in probe.violations if case.get('fail') in (None, v['replay'].get('fail'))]
    if fails:
        return '; '.join('{} :: {}'.format(v['key'], v['what']) for v in fails[:3])[:900]
    return None
