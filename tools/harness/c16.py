"""C16 — resizing and padding follow the named boundary rule; cropping undoes extension.

Tie to /repo:
  (T) tools/extract/padslices.py regenerates Gen/PadSlices.lean from the live source: the guard
      table, pad lengths and skip condition at the head of the axis loop of `_apply_padding`,
      and the per-mode slice arithmetic of `_padding_slices_inner/_outer`.  NOT extracted (hand
      written in Model/Resize.lean, tied by (C) only): the statement sequence of
      `_apply_padding` after the guards (`=`/`+=`, sums, moments, signs), fill, offset range
      check and pad_const check of `resize_array`, all of discr_ops.py.
  (C) `resize_array` on real integer-valued arrays (1-3 axes, every pad mode x direction,
      grow/shrink/same mixes, every admissible offset, the first inadmissible paddings, offsets
      out of range; int/float/complex/uint8 dtypes, `out` of another dtype, non-contiguous
      input/output) vs the Lean execution of the model (`resizeCore` through the driver's
      tabulating loop, and `resizeND`/`resizeAxes` itself on small cases in both directions),
      compared exactly (uint8 modulo 256); the Lean reference (`npPad`, `refAxes`) vs the real
      `np.pad`; `ResizingOperator`: `_resize_discr` (`resizeAxis`), `_offset_from_spaces`
      (`offsetFromAxes`), adjoint with weightings (`opAdjointW`, `opAdjointND`).
  (C, round 4) `derived` stream: `ResizingOperator.inverse` / `.derivative` / `.adjoint` of real
      operators (1-3 axes, all modes, extension / restriction / mixed, pad_const zero and
      non-zero, ran_shp / offset / explicit range, nodes on the boundary) vs `ROp.inverse`,
      `ROp.derivative`, `ROp.adjointCall`, `inverseOffsets` (driver ops opinv, opinv2, opderiv,
      opadjraw, invoff); `tolerance` stream: explicit ranges misaligned by 0 / 2^-30 / 2^-20 /
      2^-16 / >= 2^-12 cells vs `offsetFromAxesTol` = `_offset_from_spaces` with `np.around`
      and `np.isclose` (rtol, atol passed exactly; driver op offsptol).  Oracles of these
      streams: np.pad-style value of inverse(y), inverse(op(x)) == x on extensions,
      op(inverse(y)) == y on restrictions, op(x) - op(x') == derivative(x - x'), attributes of
      the derived operators, NotImplementedError iff non-linear, plain transpose identity;
      aligned (up to 2^-30 cells) and contained ranges accepted with the right offset, ranges
      misaligned by >= 2^-12 cells or not contained refused, accepted offset = nearest integer.
Oracle (independent of the model, on the real code): `np.pad` with the equivalent mode
(explicit linear extrapolation and vanishing second differences for order1) on the cropped
input; documented admissibility of the padding lengths; offsets out of range refused; input
unchanged; full matrices of forward and adjoint are exact transposes; crop(extend(x)) == x;
operator: unchanged cell sides, grid alignment of the copied block, hull containment,
inconsistent ranges/offsets refused, adjoint identity in the inner products of domain and
range (default/constant/array weightings, nodes on the boundary, float32/float64/complex),
value of the adjoint, inverse, adjoint.adjoint, adjoint.inverse.
The branch histogram in the evidence is the harness's own classification of the cases (mode,
direction, per-axis class), not a trace of the Lean execution.
"""
import itertools
import random
from fractions import Fraction

import numpy as np

from vf import core
from vf.core import fs, fl

RULE = ('resize_array: pad mode x direction x number of axes x per-axis class '
        '(grow with left/right/both padding, shrink with left/right/both cropping, same; '
        'padding at the admissibility limit or not) x dtype class x out-argument class; '
        'ResizingOperator: construction variant x mode x per-axis class x nodes_on_bdry x weighting '
        'of domain/range x inconsistency kind. A case is non-trivial '
        'when the expected output is not constant; distinct = distinct signatures among '
        'non-trivial cases.')
TRUSTED = ['translator tools/extract/padslices.py (AST of _padding_slices_inner/_outer and of the '
           'guard block of _apply_padding -> Gen/PadSlices.lean)',
           'NumPy basic slicing / broadcasting assignment, np.sum, np.diff, np.arange (modelled as '
           'exact index maps and sums); np.pad (reference; its index formulas are compared with '
           'the Lean definitions on every run)']
ASSUMPTIONS = ['floating-point rounding is outside the model; inputs are integer valued (cell '
               'sizes dyadic) so that every operation on the path is exact and comparison is exact',
               'n-d arrays: resize_array acts axis by axis on fibres; the model composes the '
               'one-axis map along the axes (that the order of the axes is irrelevant is proved). '
               'That NumPy slicing realises the fibre view is checked by the correspondence run '
               'in 1-3 dimensions, not proved',
               'offsets are naturals in the model; negative offsets are generated as malformed '
               'calls of resize_array and as inconsistent requests to ResizingOperator (both must '
               'raise ValueError)',
               'operator stream: exact comparison needs dyadic weights on the domain side; other '
               'weights are compared with relative tolerance 1e-9 (1e-4 for float32) and are not '
               'sent to the model',
               'DiscretizedSpace.inner is taken from the real code (tensor-space weighting times '
               'boundary-cell fractions); custom (function) weightings are not generated']

MODES = ['constant', 'symmetric', 'periodic', 'order0', 'order1']
DIRS = ['forward', 'adjoint']
NP_MODE = {'periodic': 'wrap', 'symmetric': 'reflect', 'order0': 'edge'}


# ---------------------------------------------------------------------------
# helpers

def resize_array(*a, **k):
    from odl.util.numerics import resize_array as f
    return f(*a, **k)


def apply_on_boundary(*a, **k):
    from odl.util.numerics import apply_on_boundary as f
    return f(*a, **k)


def err_kind(e):
    """Map an exception of the real code to the model's error vocabulary."""
    s = str(e)
    if not isinstance(e, ValueError):
        return 'err:' + type(e).__name__
    if '`offset` must be between 0 and' in s:
        return 'err:offset'
    if "must be 0 for 'adjoint'" in s:
        return 'err:padconst-adjoint'
    if 'for order 0 padding' in s:
        return 'err:order0-empty'
    if 'for order 1 padding' in s:
        return 'err:order1-short'
    if 'not allowed for periodic' in s:
        return 'err:periodic-too-long'
    if 'not allowed for symmetric' in s:
        return 'err:symmetric-too-long'
    return 'err:ValueError:' + s[:80]


def admissible(mode, n, pad_l, pad_r):
    """Documented requirement on a GROWING axis (docstring of resize_array)."""
    if mode == 'periodic':
        return pad_l <= n and pad_r <= n
    if mode == 'symmetric':
        return pad_l < n and pad_r < n
    if mode == 'order0':
        return n >= 1
    if mode == 'order1':
        return n >= 2
    return True


def lin_extrap_axis(a, axis, pad_l, pad_r):
    """Linear extrapolation through the two outermost samples along `axis` (exact ints)."""
    a = np.moveaxis(a, axis, 0)
    n = a.shape[0]
    left = [a[0] + (k - pad_l) * (a[1] - a[0]) for k in range(pad_l)]
    right = [a[n - 1] + (j + 1) * (a[n - 1] - a[n - 2]) for j in range(pad_r)]
    parts = [np.stack(left)] if left else []
    parts.append(a)
    if right:
        parts.append(np.stack(right))
    return np.moveaxis(np.concatenate(parts, axis=0), 0, axis)


def expected_forward(arr, newshp, offs, mode, c):
    """np.pad-style expectation for the forward direction; None if inadmissible."""
    a = arr
    for ax, (n, m, o) in enumerate(zip(arr.shape, newshp, offs)):
        if m < n:
            sl = [slice(None)] * a.ndim
            sl[ax] = slice(o, o + m)
            a = a[tuple(sl)]
    widths = []
    for ax, (n, m, o) in enumerate(zip(arr.shape, newshp, offs)):
        if m > n:
            if not admissible(mode, n, o, m - n - o):
                return None
            widths.append((o, m - n - o))
        else:
            widths.append((0, 0))
    if not any(w != (0, 0) for w in widths):
        return a.copy()
    if mode == 'constant':
        return np.pad(a, widths, mode='constant', constant_values=c)
    if mode in NP_MODE:
        if a.size == 0:
            # np.pad refuses empty arrays for these modes; all-empty result of the right shape
            return np.zeros(newshp, dtype=a.dtype)
        return np.pad(a, widths, mode=NP_MODE[mode])
    out = a
    for ax, (l, r) in enumerate(widths):
        if (l, r) != (0, 0):
            out = lin_extrap_axis(out, ax, l, r)
    return out


def axis_class(mode, n, m, o):
    if m == n:
        return 'same'
    if m > n:
        l, r = o, m - n - o
        side = ('L' if l else '') + ('R' if r else '')
        lim = ''
        if mode == 'periodic' and (l == n or r == n):
            lim = '!'
        if mode == 'symmetric' and (l == n - 1 or r == n - 1):
            lim = '!'
        if mode == 'order1' and n == 2:
            lim = '!'
        if mode == 'order0' and n == 1:
            lim = '!'
        return 'grow' + side + lim
    l, r = o, n - m - o
    return 'shrink' + ('L' if l else '') + ('R' if r else '')


def rand_data(rng, shape, dtype):
    size = int(np.prod(shape)) if len(shape) else 1
    vals = [rng.randint(-9, 9) for _ in range(size)]
    a = np.array(vals, dtype='int64').reshape(shape)
    if dtype in ('complex128', 'complex64'):
        im = np.array([rng.randint(-9, 9) for _ in range(size)], dtype='int64').reshape(shape)
        return (a.astype('complex128') + 1j * im).astype(dtype)
    if dtype == 'uint8':
        return (a % 256).astype('uint8')     # the ring Z/256: results are compared mod 256
    return a.astype(dtype)


def ilist(a):
    """Exact list of (re, im) integer pairs in C order."""
    flat = np.asarray(a).ravel(order='C')
    if np.iscomplexobj(flat):
        return [(Fraction(z.real), Fraction(z.imag)) for z in flat.tolist()]
    out = []
    for z in flat.tolist():
        if isinstance(z, float) and (z != z or z in (float('inf'), float('-inf'))):
            out.append(('nan', 0))
        else:
            out.append((Fraction(z), Fraction(0)))
    return out


# ---------------------------------------------------------------------------
# resize_array stream

def case_plan_1d(ctx, nmax):
    """Every (mode, dir, nIn, nOut, offset) with sizes up to nmax, offsets incl. one beyond."""
    for mode in MODES:
        for d in DIRS:
            for n_in in range(0, nmax + 1):
                for n_out in range(0, nmax + 1):
                    diff = abs(n_out - n_in)
                    for off in range(0, diff + 2):
                        if off == diff + 1 and (n_in + n_out) % 3:
                            continue  # a third of the one-beyond offsets is enough
                        yield mode, d, (n_in,), (n_out,), (off,)


def case_plan_nd(ctx, count, nmax):
    rng = ctx.rng
    for _ in range(count):
        ndim = rng.choice([2, 2, 3])
        mode = rng.choice(MODES)
        d = rng.choice(DIRS)
        s_in, s_out, offs = [], [], []
        for ax in range(ndim):
            # role of the axis in THIS call: 'up' small -> large, 'down' large -> small
            role = rng.choice(['up', 'up', 'down', 'same'] if d == 'forward'
                              else ['down', 'down', 'up', 'same'])
            padded = (d == 'forward' and role == 'up') or (d == 'adjoint' and role == 'down')
            hi = nmax if ndim == 2 else max(3, nmax - 2)
            a = rng.randint(1, hi)
            b = rng.randint(1, hi)
            small, large = min(a, b), max(a, b)
            if role == 'same':
                large = small
            elif large == small:
                large = small + 1
            if rng.random() < 0.05:
                small = 0
            off = rng.randint(0, large - small)
            if role == 'same' and rng.random() < 0.3:
                off = rng.randint(1, 3)      # ignored on an axis of unchanged length
            # bias towards admissible paddings and their limits
            if padded and mode in ('periodic', 'symmetric') and rng.random() < 0.85:
                lim = small if mode == 'periodic' else max(small - 1, 0)
                l = rng.randint(0, lim) if rng.random() < 0.7 else lim
                r = rng.randint(0, lim) if rng.random() < 0.7 else lim
                if l + r == 0 and lim > 0:
                    l = 1
                large, off = small + l + r, l
            if padded and mode == 'order1' and small < 2 and rng.random() < 0.8:
                small, large = small + 2, large + 2
            if padded and mode == 'order0' and small < 1 and rng.random() < 0.8:
                small, large = small + 1, large + 1
            if rng.random() < 0.03:
                off = large - small + rng.randint(1, 2)   # refused: no placement
            if role == 'down':
                s_in.append(large)
                s_out.append(small)
            else:
                s_in.append(small)
                s_out.append(large)
            offs.append(off)
        yield mode, d, tuple(s_in), tuple(s_out), tuple(offs)


def build_case(rng, mode, d, s_in, s_out, offs, dtype=None, c=None, outkind=None):
    if dtype is None:
        dtype = rng.choice(['int64', 'int64', 'float64', 'complex128', 'float32', 'int32',
                            'complex64', 'uint8'])
    if c is None:
        c = 0
        if mode == 'constant' and rng.random() < (0.6 if d == 'forward' else 0.15):
            c = rng.choice([1, -2, 3, 7]) if dtype != 'uint8' else rng.choice([1, 3, 7])
    if outkind is None:
        outkind = rng.choice(['none', 'none', 'C', 'F', 'strided'])
    # `out` of another dtype: resize_array casts the input to it (integer values: exact)
    outdtype = None
    if outkind != 'none' and rng.random() < 0.3:
        outdtype = {'int64': 'float64', 'int32': 'complex128', 'float64': 'int64',
                    'float32': 'float64', 'uint8': 'int64'}.get(dtype)
    inkind = rng.choice(['C', 'C', 'strided', 'F'])
    return dict(kind='array', mode=mode, dir=d, shape=list(s_in), newshape=list(s_out),
                off=list(offs), c=c, dtype=dtype, outkind=outkind, outdtype=outdtype,
                inkind=inkind, data=None, vseed=rng.getrandbits(32))


def case_data(case):
    r = random.Random(case['vseed'])
    if case.get('data') is not None:
        flat = [complex(*z) if isinstance(z, (list, tuple)) else z for z in case['data']]
        return np.array(flat).astype(case['dtype']).reshape(case['shape'])
    a = rand_data(r, tuple(case['shape']), case['dtype'])
    kind = case.get('inkind', 'C')
    if kind == 'F':
        return np.asfortranarray(a)
    if kind == 'strided' and a.ndim:
        big = np.zeros(tuple(2 * s_ for s_ in a.shape), dtype=a.dtype)
        view = big[tuple(slice(None, None, 2) for _ in a.shape)]
        view[...] = a
        return view
    return a


def call_resize(case, arr, direction=None, shape=None, c=None):
    """One guarded call into the real code -> (status, array or None)."""
    newshp = tuple(case['newshape']) if shape is None else tuple(shape)
    kw = dict(offset=list(case['off']), pad_mode=case['mode'],
              pad_const=case['c'] if c is None else c,
              direction=case['dir'] if direction is None else direction)
    out = None
    if case.get('outkind', 'none') != 'none' and shape is None and direction is None:
        odt = case.get('outdtype') or arr.dtype
        if case['outkind'] == 'strided':
            big = np.empty(tuple(2 * s_ for s_ in newshp), dtype=odt)
            out = big[tuple(slice(None, None, 2) for _ in newshp)]
        else:
            out = np.empty(newshp, dtype=odt, order=case['outkind'])
        out[...] = 77
        kw['out'] = out
    try:
        res = resize_array(arr, newshp, **kw)
    except Exception as e:  # noqa
        return err_kind(e), None
    if out is not None and res is not out:
        return 'err:out-not-returned', None
    return 'ok', res


def valid_offsets(case):
    """On a resized axis the smaller array must fit into the larger one at `offset`; on an axis
    of unchanged length the offset is ignored."""
    return all(n == m or o + min(n, m) <= max(n, m)
               for n, m, o in zip(case['shape'], case['newshape'], case['off']))


def oracle_array(case, arr, status, res, deep):
    """Independent checks on the real code. Returns list of problem strings."""
    problems = []
    mode, d = case['mode'], case['dir']
    s_in, s_out, offs = tuple(case['shape']), tuple(case['newshape']), tuple(case['off'])
    c = case['c']
    u8 = case['dtype'] == 'uint8'
    if u8:
        # unsigned arithmetic is the ring Z/256: expectations are computed over the integers
        # and everything is compared modulo 256
        arr = arr.astype('int64')
        if res is not None:
            res_dtype = res.dtype
            res = res.astype('int64') % 256
    want_dtype = np.dtype(case['outdtype']) if (case.get('outdtype') and
                                                case.get('outkind', 'none') != 'none') \
        else np.dtype(case['dtype'])
    if d == 'adjoint' and mode == 'constant' and c != 0:
        if status != 'err:padconst-adjoint':
            problems.append('adjoint with pad_const != 0 was not refused: ' + status)
        return problems
    if d == 'forward':
        exp = expected_forward(arr, s_out, offs, mode, c)
        if exp is None:
            if status == 'ok':
                problems.append('inadmissible padding length accepted (documented limit)')
            return problems
        if status != 'ok':
            problems.append('admissible input refused: ' + status)
            return problems
        got_dtype = res_dtype if u8 else res.dtype
        if res.shape != s_out or got_dtype != want_dtype:
            problems.append('result shape/dtype {} {} (expected {})'.format(
                res.shape, got_dtype, want_dtype))
            return problems
        if u8:
            exp = exp.astype('int64') % 256
        if ilist(res) != ilist(exp):
            bad = [i for i, (p, q) in enumerate(zip(ilist(res), ilist(exp))) if p != q]
            problems.append('forward result differs from np.pad-style expectation at flat '
                            'index {}: got {} expected {}'.format(
                                bad[0], res.ravel()[bad[0]], exp.ravel()[bad[0]]))
        if mode == 'order1' and len(s_in) == 1 and s_out[0] > s_in[0] and not u8:
            # characterisation independent of `lin_extrap_axis`: constant slope across both
            # boundaries (all second differences vanish there) and the block is the input
            o, n1 = offs[0], s_in[0]
            v = [complex(z) for z in np.asarray(res).ravel().tolist()]
            d2 = [v[i] - 2 * v[i + 1] + v[i + 2] for i in range(len(v) - 2)]
            if any(d2[i] != 0 for i in range(len(d2)) if i + 2 <= o + 1 or i >= o + n1 - 2):
                problems.append('order1: the padded part is not the linear continuation of the '
                                'two outermost samples (non-zero second difference)')
        # overlap copied unchanged
        lhs, rhs = [], []
        for n, m, o in zip(s_in, s_out, offs):
            if m > n:
                lhs.append(slice(o, o + n)); rhs.append(slice(None))
            elif m < n:
                lhs.append(slice(None)); rhs.append(slice(o, o + m))
            else:
                lhs.append(slice(None)); rhs.append(slice(None))
        if ilist(res[tuple(lhs)]) != ilist(arr[tuple(rhs)] % 256 if u8 else arr[tuple(rhs)]):
            problems.append('overlapping block not copied unchanged')
        # crop(extend(x)) == x
        if all(m >= n for n, m in zip(s_in, s_out)):
            st2, back = call_resize(case, res, direction='forward', shape=s_in)
            if st2 == 'ok' and u8:
                back, arr = back % 256, arr % 256
            if st2 != 'ok' or ilist(back) != ilist(arr):
                problems.append('crop(extend(x)) != x ({})'.format(st2))
        return problems
    # adjoint direction: the call maps shape s_in -> s_out and must be the transpose of the
    # forward resize s_out -> s_in with the same offset
    fwd_admissible = expected_forward(np.zeros(s_out, dtype='int64'), s_in, offs, mode, 0) \
        is not None
    if not fwd_admissible:
        if status == 'ok':
            problems.append('adjoint accepted a padding length that forward refuses')
        return problems
    if status != 'ok':
        problems.append('admissible adjoint input refused: ' + status)
        return problems
    if res.shape != s_out:
        problems.append('adjoint result shape {}'.format(res.shape))
        return problems
    n_small, n_large = int(np.prod(s_out)), int(np.prod(s_in))
    r = random.Random(case['vseed'] + 1)
    # pairing identity <F x, y> = <x, A y> on this y with random x (exact integers)
    for _ in range(2):
        x = rand_data(r, s_out, 'int64')
        stf, fx = call_resize(case, x, direction='forward', shape=s_in, c=0)
        if stf != 'ok':
            problems.append('forward of the adjoint pair refused: ' + stf)
            return problems
        lhs = np.sum(fx.astype(object) * arr.astype(object)) if fx.size else 0
        rhs = np.sum(x.astype(object) * res.astype(object)) if x.size else 0
        if (u8 and (int(lhs) - int(rhs)) % 256 != 0) or (not u8 and complex(lhs) != complex(rhs)):
            problems.append('<R x, y> = {} but <x, R^T y> = {}{}'.format(
                lhs, rhs, ' (mod 256)' if u8 else ''))
            return problems
    if deep or n_small * n_large <= 64:
        # full matrices
        if n_small and n_large:
            mf = np.zeros((n_large, n_small), dtype='int64')
            for j in range(n_small):
                e = np.zeros(n_small, dtype='int64'); e[j] = 1
                st, col = call_resize(case, e.reshape(s_out), direction='forward', shape=s_in, c=0)
                if st != 'ok':
                    problems.append('forward on a unit vector refused: ' + st)
                    return problems
                mf[:, j] = col.ravel()
            ma = np.zeros((n_small, n_large), dtype='int64')
            for i in range(n_large):
                e = np.zeros(n_large, dtype='int64'); e[i] = 1
                st, col = call_resize(case, e.reshape(s_in), direction='adjoint', shape=s_out, c=0)
                if st != 'ok':
                    problems.append('adjoint on a unit vector refused: ' + st)
                    return problems
                ma[:, i] = col.ravel()
            if not np.array_equal(ma, mf.T):
                i, j = np.argwhere(ma != mf.T)[0]
                problems.append('adjoint matrix is not the transpose of the forward matrix at '
                                '(row {}, col {}): {} vs {}'.format(i, j, ma[i, j], mf.T[i, j]))
            # and the result is that matrix applied to the input
            want = ma.astype(object).dot(arr.ravel().astype(object)) if arr.size else None
            if want is not None and u8:
                want = [int(v) % 256 for v in want]
            if want is not None and [complex(v) for v in want] != \
                    [complex(v) for v in res.ravel().tolist()]:
                problems.append('adjoint result is not linear in the input')
    return problems


def model_lines(case, arr):
    """Protocol lines for the driver (two for complex input: real and imaginary part)."""
    head = 'resize mode={} dir={} shape={} newshape={} off={} c={}'.format(
        case['mode'], case['dir'], fl(case['shape']), fl(case['newshape']), fl(case['off']),
        fs(case['c']))
    flat = arr.ravel(order='C')
    if np.iscomplexobj(flat):
        # the map is real-linear up to the constant fill, which belongs to the real part
        head0 = head.rsplit(' c=', 1)[0] + ' c=0'
        return [head + ' data=' + fl(flat.real.tolist()),
                head0 + ' data=' + fl(flat.imag.tolist())]
    return [head + ' data=' + fl(flat.tolist())]


def compare_model(ctx, case, desc, status, res, answers):
    a0 = answers[0]
    if status != 'ok':
        if a0 != status:
            ctx.disagree(desc, status, a0)
        return
    if not all(a.startswith('ok r=') for a in answers):
        ctx.disagree(desc, 'ok', answers[0])
        return
    re = core.pfl(answers[0][5:])
    im = core.pfl(answers[1][5:]) if len(answers) > 1 else [Fraction(0)] * len(re)
    got = ilist(res)
    if case['dtype'] == 'uint8':
        re = [Fraction(int(v) % 256) for v in re]
        got = ilist(np.asarray(res).astype('int64') % 256)
    if got != list(zip(re, im)):
        ctx.disagree(desc, [str(v) for v in res.ravel().tolist()][:40],
                     answers[0][:200] + (' | ' + answers[1][:200] if len(answers) > 1 else ''))


def describe(case, arr):
    d = {k: v for k, v in case.items() if k != 'data'}
    flat = arr.ravel(order='C').tolist()
    d['data'] = [[z.real, z.imag] if isinstance(z, complex) else z for z in flat]
    return d


def key_of(case):
    cls = [axis_class(case['mode'], n, m, o) if case['dir'] == 'forward' else
           axis_class(case['mode'], m, n, o)
           for n, m, o in zip(case['shape'], case['newshape'], case['off'])]
    return 'resize_array mode={} dir={} ndim={} axes={} dtype={} in={} out={}{} c={}'.format(
        case['mode'], case['dir'], len(case['shape']), '/'.join(cls), case['dtype'],
        case.get('inkind', 'C'), case['outkind'],
        ':' + case['outdtype'] if case.get('outdtype') and case['outkind'] != 'none' else '',
        'nonzero' if case['c'] else '0')


def array_stream(ctx, deep=False, model=True):
    rng = ctx.rng
    quick = ctx.quick and not deep
    nmax1 = 6 if quick else 9
    plans = list(case_plan_1d(ctx, nmax1))
    if quick:
        # keep every (mode, dir, axis class) of the full enumeration and a random half of the rest
        keep, rest = {}, []
        rng.shuffle(plans)
        for p in plans:
            k = (p[0], p[1], axis_class(p[0], p[2][0], p[3][0], p[4][0]) if p[1] == 'forward'
                 else axis_class(p[0], p[3][0], p[2][0], p[4][0]))
            if k not in keep:
                keep[k] = p
            else:
                rest.append(p)
        plans = list(keep.values()) + rest[:len(rest) // 2]
    plans += list(case_plan_nd(ctx, 500 if quick else 5000, 5 if quick else 6))
    batch, lines = [], []
    for mode, d, s_in, s_out, offs in plans:
        case = build_case(rng, mode, d, s_in, s_out, offs)
        arr = case_data(case)
        arr0 = arr.copy()
        status, res = call_resize(case, arr)
        desc = describe(case, arr0)
        if ilist(arr) != ilist(arr0):
            ctx.violation(key_of(case) + ' input-modified',
                          'the input array was modified by the call', desc)
            arr = arr0.copy()
        if not valid_offsets(case):
            # no placement of the smaller array inside the larger one: must be refused
            refused = status == 'err:offset' or status.startswith('err:ValueError:')
            problems = [] if refused else [
                'offset outside [0, |n_new - n_orig|] was not refused: ' +
                (status if res is None else 'returned {}'.format(res.ravel().tolist()[:8]))]
        else:
            problems = oracle_array(case, arr, status, res, deep or not quick)
        if status == 'ok':
            own = ownership_problems(case, arr, res)
            if own:
                ctx.violation(key_of(case) + ' ownership', '; '.join(own)[:600], desc)
        foreign = status.startswith('err:') and status.count(':') == 1 and \
            status[4:5].isupper()          # an exception class the model does not know
        if problems:
            ctx.violation(key_of(case) + ('' if valid_offsets(case) else ' offset-out-of-range')
                          + (' raises=' + status[4:] if foreign else ''),
                          '; '.join(problems)[:600], desc)
        nontrivial = status == 'ok' and res.size > 1 and len(set(ilist(res))) > 1
        cls = tuple((axis_class(mode, n, m, o) if d == 'forward' else axis_class(mode, m, n, o))
                    if n == m or o + min(n, m) <= max(n, m) else 'offset-out-of-range'
                    for n, m, o in zip(s_in, s_out, offs))
        sig = ('array', mode, d, len(s_in), cls, case['dtype'] in ('complex128', 'complex64'),
               case['dtype'] == 'uint8', case['outkind'] != 'none', bool(case.get('outdtype')),
               case.get('inkind', 'C') == 'strided' or case['outkind'] == 'strided')
        ctx.case(sig if nontrivial else None,
                 sample={'case': desc, 'impl': status if res is None else
                         [str(v) for v in res.ravel().tolist()][:12]}
                 if len(s_in) <= 2 and nontrivial and rng.random() < 0.02 else None)
        for cl in cls:
            ctx.hit('{}/{}/{}'.format(mode, d, cl.rstrip('!').rstrip('LR') or cl))
        ctx.hit('array/dtype=' + case['dtype'])
        if case.get('outdtype') and case['outkind'] != 'none':
            ctx.hit('array/out-of-other-dtype')
        if case.get('inkind') == 'strided' or case['outkind'] == 'strided':
            ctx.hit('array/non-contiguous')
        if status != 'ok':
            ctx.err(status if status.count(':') == 1 else 'err:other')
        if foreign and case['dtype'] == 'uint8' and mode == 'order1' and d == 'adjoint':
            # known finding C16-F8 (reported through the oracle where the input is admissible):
            # the casting error pre-empts the model's answer, nothing to compare
            ctx.err('uint8-order1-adjoint:UFuncTypeError')
            continue
        if model:
            ls = model_lines(case, arr)
            groups = [ls]
            if len(s_in) >= 2 and status == 'err:offset':
                # `resizeND` itself on the refusal (C16.nd_offset_refused)
                groups.append([l.replace('resize ', 'resize-direct ', 1) for l in ls])
                ctx.hit('nd/resizeND-direct/offset-refused')
            if len(s_in) >= 2 and status == 'ok':
                # the composition the n-d transposition theorem is stated for (last axis
                # first), and for small cases the model's own `resizeND` without tabulation
                groups.append([l + ' order=rev' for l in ls])
                ctx.hit('nd/reversed-axis-order')
                if int(np.prod(s_in)) * int(np.prod(s_out)) <= (400 if d == 'forward' else 150):
                    # the model's own `resizeND` (= `resizeAxes`, the function of the n-d
                    # theorems), without the driver's tabulation
                    groups.append([l.replace('resize ', 'resize-direct ', 1) for l in ls])
                    ctx.hit('nd/resizeND-direct/' + d)
                if d == 'forward' and valid_offsets(case):
                    # the n-d reference `refAxes` of C16.forward_nd_eq_reference
                    groups.append([l.replace('resize ', 'refnd ', 1) for l in ls])
                    ctx.hit('nd/refAxes')
            for g in groups:
                batch.append((case, desc, status, res, len(g)))
                lines.extend(g)
    if model:
        outs = core.run_driver('C16', lines)
        pos = 0
        for case, desc, status, res, k in batch:
            compare_model(ctx, case, desc, status, res, outs[pos:pos + k])
            pos += k


# ---------------------------------------------------------------------------
# the reference formulas of the theorems vs the real np.pad

def nppad_stream(ctx):
    rng = ctx.rng
    lines, exps = [], []
    nmax = 5 if ctx.quick else 7
    for mode in MODES:
        for n in range(0, nmax + 1):
            for l in range(0, n + 2):
                for r in range(0, n + 2):
                    if not admissible(mode, n, l, r) and mode != 'constant':
                        continue
                    if mode != 'constant' and l + r > 0 and n == 0:
                        continue
                    x = np.array([rng.randint(-9, 9) for _ in range(n)], dtype='int64')
                    c = rng.choice([0, 2, -3]) if mode == 'constant' else 0
                    if mode == 'constant':
                        exp = np.pad(x, (l, r), mode='constant', constant_values=c)
                    elif mode in NP_MODE:
                        exp = np.pad(x, (l, r), mode=NP_MODE[mode]) if n else x
                    else:
                        exp = lin_extrap_axis(x, 0, l, r)
                    lines.append('nppad mode={} n={} nout={} off={} c={} data={}'.format(
                        mode, n, n + l + r, l, c, fl(x.tolist())))
                    exps.append((mode, n, l, r, exp))
    outs = core.run_driver('C16', lines)
    for line, (mode, n, l, r, exp), ans in zip(lines, exps, outs):
        ctx.case(None)
        ctx.hit('reference/' + mode)
        if not ans.startswith('ok r=') or core.pfl(ans[5:]) != [Fraction(int(v)) for v in exp]:
            ctx.disagree({'kind': 'nppad', 'line': line}, [int(v) for v in exp], ans,
                         stream='reference-vs-np.pad')


# ---------------------------------------------------------------------------
# malformed calls: must be refused, never answered

def malformed_stream(ctx):
    x = np.arange(6).reshape(2, 3)
    bad = [
        ('newshp not a sequence', lambda: resize_array(x, 5), (TypeError,)),
        ('newshp wrong length', lambda: resize_array(x, (5,)), (ValueError,)),
        ('unknown pad_mode', lambda: resize_array(x, (3, 3), pad_mode='reflect'), (ValueError,)),
        ('unknown direction', lambda: resize_array(x, (3, 3), direction='backward'), (ValueError,)),
        ('out not an array', lambda: resize_array(x, (3, 3), out=[[0] * 3] * 3), (TypeError,)),
        ('out wrong shape', lambda: resize_array(x, (3, 3), out=np.zeros((3, 4))), (ValueError,)),
        ('out wrong ndim', lambda: resize_array(x, (3, 3, 1), out=np.zeros((3, 3, 1))),
         (ValueError,)),
        ('pad_const not castable', lambda: resize_array(x, (3, 3), pad_const=1.5), (ValueError,)),
        ('offset wrong length', lambda: resize_array(x, (3, 3), offset=[0, 0, 0]), (ValueError,)),
        ('negative offset', lambda: resize_array(x, (4, 3), offset=[-1, 0]), (ValueError,)),
        ('negative offset from the end', lambda: resize_array(np.arange(5), (3,), offset=-4),
         (ValueError,)),
        ('offset beyond the size difference', lambda: resize_array(np.arange(5), (3,), offset=4),
         (ValueError,)),
        ('offset beyond the larger array', lambda: resize_array(np.arange(1), (3,), offset=5),
         (ValueError,)),
        ('offset out of range in one of two resized axes',
         lambda: resize_array(x, (4, 5), offset=[0, 3]), (ValueError,)),
        ('adjoint with pad_const', lambda: resize_array(x, (3, 3), pad_const=1,
                                                        direction='adjoint'), (ValueError,)),
    ]
    ctx.case(None)
    try:
        z = resize_array(np.array(5.0), ())
        if z.shape != () or float(z) != 5.0:
            ctx.violation('resize_array 0-d array', 'returned {!r}'.format(z),
                          {'kind': 'malformed', 'name': '0-d'})
    except Exception as e:  # noqa
        ctx.violation('resize_array 0-d array', 'raised {}'.format(type(e).__name__),
                      {'kind': 'malformed', 'name': '0-d'})
    for name, f, excs in bad:
        ctx.case(None)
        try:
            r = f()
            ctx.violation('resize_array malformed call accepted: ' + name,
                          'returned {!r}'.format(r)[:200], {'kind': 'malformed', 'name': name})
        except excs:
            ctx.err('malformed:' + name)
        except Exception as e:  # noqa
            ctx.violation('resize_array malformed call: ' + name,
                          'raised {} instead of {}'.format(type(e).__name__, excs),
                          {'kind': 'malformed', 'name': name})


# ---------------------------------------------------------------------------
# ResizingOperator stream

DYADIC_CELLS = [Fraction(1, 8), Fraction(1, 4), Fraction(1, 2)]
ALL_CELLS = [Fraction(k, 8) for k in (1, 2, 3, 4, 6)]
BAD_KINDS = {'range': ['shift-right', 'shift-far', 'shift-half', 'shift-unchanged'],
             'ran_shp+offset': ['neg-offset', 'big-offset']}


def op_cases(ctx, count):
    rng = ctx.rng
    for _ in range(count):
        ndim = rng.choice([1, 1, 1, 2, 2, 3])
        mode = rng.choice(MODES)
        variant = rng.choice(['ran_shp+offset', 'ran_shp+offset', 'ran_shp', 'range', 'range',
                              'ran_shp+offset+bdry'])
        # weightings: 'default' (cell volume), ('const', c), ('array', seed)
        dom_w = rng.choice(['default'] * 3 + ['const', 'array'])
        ran_w = rng.choice(['default'] * 2 + ['const', 'const', 'array']) \
            if variant == 'range' else 'inherit'
        if variant != 'range' and dom_w == 'array' and rng.random() < 0.8:
            dom_w = 'const'    # ran_shp cannot extend an array weighting (finding C16-F7)
        custom = dom_w != 'default' or ran_w not in ('default', 'inherit')
        exact = rng.random() < 0.85
        dom_c = rng.choice([0.5, 2.0, 4.0, 1.0]) if exact else rng.choice([3.0, 0.7, 1.3])
        ran_c = rng.choice([3.0, 0.25, 2.0, 5.0]) if exact else rng.choice([0.3, 1.7, 2.9])
        bad = None
        if variant in BAD_KINDS and rng.random() < 0.15:
            bad = rng.choice(BAD_KINDS[variant])
        axes = []
        for ax in range(ndim):
            hi_n = 6 if ndim < 3 else 4
            n = rng.randint(2, hi_n) if rng.random() < 0.88 else 1
            kind = rng.choice(['grow', 'grow', 'shrink', 'same'])
            if n == 1 and kind == 'shrink':
                kind = 'grow'
            if kind == 'grow':
                lim = {'periodic': n, 'symmetric': n - 1, 'order0': 3,
                       'order1': 3 if n >= 2 else 0}.get(mode, 3)
                l, r = rng.randint(0, lim), rng.randint(0, lim)
                if variant == 'ran_shp':      # the code splits evenly, left gets the extra cell
                    tot = rng.randint(1, 2 * lim - 1) if lim > 0 else 0
                    l, r = tot - tot // 2, tot // 2
                m, off = n + l + r, l
                if m == n and lim > 0:
                    m, off = n + 1, 1
            elif kind == 'shrink':
                m = rng.randint(2, n - 1) if (n > 2 and rng.random() < 0.85) else 1
                off = rng.randint(0, n - m)
                if variant == 'ran_shp':
                    off = -((m - n) - (m - n) // 2)
            else:
                m, off = n, 0
            lo = Fraction(rng.randint(-8, 8), 4)
            cell = rng.choice(DYADIC_CELLS if (custom and exact) else ALL_CELLS)
            bdry = rng.choice([(False, False)] * 5 + [(True, True), (True, False), (False, True)])
            if min(n, m) < 2:
                bdry = (False, False)
            axes.append(dict(n=n, m=m, off=off, lo=str(lo), cell=str(cell), bdry=list(bdry)))
        if bad == 'shift-unchanged' and all(a['m'] != a['n'] for a in axes):
            axes[0]['m'], axes[0]['off'] = axes[0]['n'], 0
        if bad is not None:
            cand = [k for k, a in enumerate(axes) if (a['m'] == a['n']) == (bad == 'shift-unchanged')]
            if not cand:
                bad = None
            else:
                axes[rng.choice(cand)]['bad'] = bad
        c = rng.choice([1, -2]) if mode == 'constant' and rng.random() < 0.3 else 0
        yield dict(kind='operator', mode=mode, variant=variant, c=c, axes=axes, bad=bad,
                   dom_w=dom_w, ran_w=ran_w, dom_c=dom_c, ran_c=ran_c, exact=exact,
                   dtype=rng.choice(['float64'] * 4 + ['float32', 'complex128']),
                   vseed=rng.getrandbits(32))


def make_weighting(kind, const, shape, r, domain_side, exact, dtype='float64'):
    """kwargs for uniform_discr; domain-side array weights are powers of two (exact division)."""
    if kind in ('default', 'inherit'):
        return {}
    if kind == 'const':
        return {'weighting': const}
    size = int(np.prod(shape))
    if domain_side and exact:
        vals = [r.choice([0.5, 1.0, 2.0, 4.0]) for _ in range(size)]
    elif exact:
        vals = [float(r.randint(1, 6)) for _ in range(size)]
    else:
        vals = [r.choice([0.3, 1.1, 2.7, 0.9]) for _ in range(size)]
    return {'weighting': np.array(vals, dtype='float32' if dtype == 'float32' else 'float64')
            .reshape(shape)}


def tensor_weights(space):
    """Weights of the tensor space behind `space` as a full array (const -> constant array)."""
    w = space.weighting
    if hasattr(w, 'const'):
        return np.full(space.shape, float(w.const))
    if hasattr(w, 'array'):
        return np.asarray(w.array, dtype=float).reshape(space.shape)
    return np.ones(space.shape)


def bdry_weights(space):
    """Relative weights of the cells in `space.inner`: per axis the boundary-cell fractions at
    the first/last entry (both on a single entry), 1 inside; product over the axes."""
    w = np.ones(space.shape)
    if not space.is_uniform or space.is_uniformly_weighted:
        return w
    for ax, (fl_, fr_) in enumerate(space.partition.boundary_cell_fractions):
        v = np.ones(space.shape[ax])
        v[0] *= fl_
        v[-1] *= fr_
        shp = [1] * space.ndim
        shp[ax] = -1
        w = w * v.reshape(shp)
    return w


def wtxt(space):
    w = space.weighting
    if hasattr(w, 'const'):
        return 'const:' + fs(float(w.const))
    return 'array:' + fl(np.asarray(w.array, dtype=float).ravel().tolist())


def num_eq(a, b, exact, dtype='float64'):
    a, b = complex(a), complex(b)
    if exact:
        return a == b
    rel = 1e-4 if dtype == 'float32' else 1e-9
    return abs(a - b) <= rel * max(1.0, abs(a), abs(b))


def arr_eq(a, b, exact, dtype='float64'):
    a, b = np.asarray(a), np.asarray(b)
    if a.shape != b.shape:
        return False
    if exact:
        return bool(np.array_equal(a, b))
    rel = 1e-4 if dtype == 'float32' else 1e-9
    scale = max(1.0, float(np.max(np.abs(b))) if b.size else 1.0)
    return bool(np.all(np.abs(a - b) <= rel * scale))


def shift_err_kind(e):
    s = str(e)
    if 'non-multiple' in s:
        return 'err:shift-not-multiple'
    if 'not contained in the larger one' in s:
        return 'err:not-contained'
    if 'although the size is unchanged' in s:
        return 'err:shifted-unchanged'
    return 'err:' + type(e).__name__ + ':' + s[:80]


def run_op_case(ctx, case):
    """Returns (problems [(tag, text)], model lines, impl canonical answers)."""
    import odl
    problems = []

    def bad(tag, text):
        problems.append((tag, text))
    axes = case['axes']
    ndim = len(axes)
    exact = case['exact']
    n = [a['n'] for a in axes]
    m = [a['m'] for a in axes]
    offs = [a['off'] for a in axes]
    lo = [Fraction(a['lo']) for a in axes]
    cell = [Fraction(a['cell']) for a in axes]
    variant, mode = case['variant'], case['mode']
    flags = [tuple(bool(b) for b in a['bdry']) for a in axes]
    dom_bdry = flags if variant != 'ran_shp+offset+bdry' else [(False, False)] * ndim
    new_bdry = flags if variant == 'ran_shp+offset+bdry' else [(False, False)] * ndim
    # domain: with a node on the boundary the interval loses half a cell on that side
    hi = [lo[k] + (n[k] - Fraction(1, 2) * (int(dom_bdry[k][0]) + int(dom_bdry[k][1]))) * cell[k]
          for k in range(ndim)]
    lines, answers = [], []
    r = random.Random(case['vseed'])
    badk = [k for k, a in enumerate(axes) if a.get('bad')]
    badk = badk[0] if badk else None
    badkind = axes[badk]['bad'] if badk is not None else None

    def nob(fl_):
        return fl_ if ndim > 1 else fl_[0]
    try:
        dom = odl.uniform_discr([float(v) for v in lo], [float(v) for v in hi], n,
                                nodes_on_bdry=nob(dom_bdry), dtype=case['dtype'],
                                **make_weighting(case['dom_w'], case['dom_c'], tuple(n), r, True,
                                                 exact, case['dtype']))
    except Exception as e:  # noqa
        return [('harness', 'could not build the domain: {}'.format(e))], [], []
    rdesc = None
    try:
        kw = dict(pad_mode=mode, pad_const=case['c'])
        call_offs = list(offs)
        if badkind == 'neg-offset':
            call_offs[badk] = -rng_pos(r)
        elif badkind == 'big-offset':
            call_offs[badk] = abs(m[badk] - n[badk]) + rng_pos(r)
        if variant == 'ran_shp':
            op = odl.ResizingOperator(dom, ran_shp=m, **kw)
        elif variant == 'ran_shp+offset':
            op = odl.ResizingOperator(dom, ran_shp=m, offset=call_offs, **kw)
        elif variant == 'ran_shp+offset+bdry':
            op = odl.ResizingOperator(dom, ran_shp=m, offset=call_offs,
                                      discr_kwargs={'nodes_on_bdry': nob(new_bdry)}, **kw)
        else:
            # explicit range: the interval physically shifted by `off` cells
            rlo, rhi = [], []
            for k in range(ndim):
                sgn = -1 if m[k] >= n[k] else 1
                shift = Fraction(offs[k])
                if k == badk:
                    d = abs(m[k] - n[k])
                    shift = {'shift-right': Fraction(-rng_pos(r)), 'shift-far': Fraction(d + rng_pos(r)),
                             'shift-half': Fraction(offs[k]) + Fraction(1, 2),
                             'shift-unchanged': Fraction(rng_pos(r))}[badkind]
                rlo.append(lo[k] + sgn * shift * cell[k])
                rhi.append(rlo[-1] + (m[k] - Fraction(1, 2) * (int(dom_bdry[k][0]) +
                                                              int(dom_bdry[k][1]))) * cell[k])
            rdesc = (rlo, rhi)
            ran_in = odl.uniform_discr([float(v) for v in rlo], [float(v) for v in rhi], m,
                                       nodes_on_bdry=nob(dom_bdry), dtype=case['dtype'],
                                       **make_weighting(case['ran_w'], case['ran_c'], tuple(m), r,
                                                        False, exact, case['dtype']))
            op = odl.ResizingOperator(dom, ran_in, **kw)
    except Exception as e:  # noqa
        if badkind is not None:
            if not isinstance(e, ValueError):
                bad('inconsistent-spaces', 'inconsistent request ({}) raised {} instead of '
                    'ValueError: {}'.format(badkind, type(e).__name__, str(e)[:160]))
            elif rdesc is not None:
                k = badk
                lines.append('offsp lo={} hi={} n={} bl={} br={} rlo={} rhi={} rn={} rbl={} rbr={}'
                             .format(fs(lo[k]), fs(hi[k]), n[k], int(dom_bdry[k][0]),
                                     int(dom_bdry[k][1]), fs(rdesc[0][k]), fs(rdesc[1][k]), m[k],
                                     int(dom_bdry[k][0]), int(dom_bdry[k][1])))
                answers.append(shift_err_kind(e))
            return problems, lines, answers
        if case['dom_w'] == 'array' and variant != 'range' and isinstance(e, ValueError) and \
                'array-like weights must have same shape' in str(e):
            return [('construction-array-weighting', 'ResizingOperator(domain with an array '
                     'weighting, ran_shp=...) cannot be constructed: ' + str(e)[:120])], [], []
        return [('construction', 'construction failed: {}: {}'.format(
            type(e).__name__, str(e)[:200]))], [], []
    if badkind is not None:
        return [('inconsistent-spaces',
                 'inconsistent request ({}, axis {}: {} -> {} cells) was accepted: range {} '
                 'offset {}'.format(badkind, badk, n[badk], m[badk], op.range, op.offset))], [], []
    try:
        ran = op.range
        dcs = [core.frac(v) for v in dom.cell_sides]
        rcs = [core.frac(v) for v in ran.cell_sides]
        if dcs != rcs:
            bad('cell-sides', 'cell sides changed: {} -> {}'.format(dcs, rcs))
        if tuple(ran.shape) != tuple(m):
            bad('range-shape', 'range shape {}'.format(ran.shape))
        off_used = [int(o) for o in op.offset]
        want = [o if mm != nn else 0 for o, nn, mm in zip(offs, n, m)]
        if off_used != want:
            bad('offset', 'op.offset = {} but {} cells are added/removed on the left'.format(
                off_used, want))
        dgrid = [[core.frac(v) for v in dom.grid.coord_vectors[k]] for k in range(ndim)]
        rgrid = [[core.frac(v) for v in ran.grid.coord_vectors[k]] for k in range(ndim)]
        for k in range(ndim):
            o = off_used[k]
            if m[k] >= n[k]:
                blockr, blockd = rgrid[k][o:o + n[k]], dgrid[k]
                if new_bdry[k] == (False, False) and (
                        core.frac(ran.min_pt[k]) > core.frac(dom.min_pt[k]) or
                        core.frac(ran.max_pt[k]) < core.frac(dom.max_pt[k])):
                    bad('hull', 'axis {}: enlarged range [{}, {}] does not cover the domain '
                        '[{}, {}]'.format(k, ran.min_pt[k], ran.max_pt[k], dom.min_pt[k],
                                          dom.max_pt[k]))
            else:
                blockr, blockd = rgrid[k], dgrid[k][o:o + m[k]]
            if blockr != blockd:
                bad('grid-alignment',
                    'axis {} ({} -> {} cells, offset {}): the grid points of the copied block are '
                    '{} in the range but {} in the domain'.format(
                        k, n[k], m[k], offs[k], [str(v) for v in blockr][:4],
                        [str(v) for v in blockd][:4]))
        # model of _resize_discr (every axis, also the unaffected ones) / _offset_from_spaces
        for k in range(ndim):
            if variant != 'range':
                offtxt = 'none' if variant == 'ran_shp' else str(offs[k])
                lines.append('discr lo={} hi={} n={} bl={} br={} nnew={} off={} bl2={} br2={}'
                             .format(fs(lo[k]), fs(hi[k]), n[k], int(dom_bdry[k][0]),
                                     int(dom_bdry[k][1]), m[k], offtxt, int(new_bdry[k][0]),
                                     int(new_bdry[k][1])))
                shift = (rgrid[k][0] - dgrid[k][0]) / dcs[k]
                answers.append('ok lo={} hi={} cell={} shift={}'.format(
                    fs(core.frac(ran.min_pt[k])), fs(core.frac(ran.max_pt[k])), fs(rcs[k]),
                    fs(shift)))
            rb = new_bdry[k] if variant != 'range' else dom_bdry[k]
            lines.append('offsp lo={} hi={} n={} bl={} br={} rlo={} rhi={} rn={} rbl={} rbr={}'
                         .format(fs(lo[k]), fs(hi[k]), n[k], int(dom_bdry[k][0]),
                                 int(dom_bdry[k][1]), fs(core.frac(ran.min_pt[k])),
                                 fs(core.frac(ran.max_pt[k])), m[k], int(rb[0]), int(rb[1])))
            answers.append('ok off={}'.format(off_used[k]))
        # action on elements
        x = rand_data(r, tuple(n), case['dtype'])
        y = rand_data(r, tuple(m), case['dtype'])
        rx = op(x).asarray()
        if mode == 'constant' and case['c'] != 0:
            try:
                op.adjoint
                bad('adjoint-nonlinear', 'nonlinear operator (pad_const != 0) exposes an adjoint')
            except NotImplementedError:
                pass
            d = op.derivative(dom.element(x))
            exp0 = expected_forward(x, tuple(m), off_used, mode, 0)
            if exp0 is None or ilist(d(x).asarray()) != ilist(exp0):
                bad('derivative', 'derivative is not the zero-padding operator')
        exp = expected_forward(x, tuple(m), off_used, mode, case['c'])
        if exp is None:
            bad('call', 'operator call accepted an inadmissible padding')
        elif ilist(rx) != ilist(exp):
            bad('call', 'op(x) = {} differs from the np.pad-style expectation {}'.format(
                rx.ravel().tolist()[:8], exp.ravel().tolist()[:8]))
        if op.is_linear:
            adj = op.adjoint
            aty = adj(y)
            lhs = op(x).inner(ran.element(y))
            rhs = dom.element(x).inner(aty)
            if not num_eq(lhs, rhs, exact, case['dtype']):
                bad('adjoint-identity', '<Ax, y> = {} but <x, A*y> = {} (inner products of '
                    'range and domain)'.format(lhs, rhs))
            # value of the adjoint: W_dom^-1 R^T W_ran y with the weights of the inner products
            # (tensor-space weighting times boundary-cell fractions)
            WR = tensor_weights(ran) * bdry_weights(ran)
            WD = tensor_weights(dom) * bdry_weights(dom)
            st, raw = call_resize(dict(newshape=n, off=off_used, mode=mode, c=0, dir='adjoint'),
                                  WR * y)
            if st != 'ok' or not arr_eq(raw / WD, aty.asarray(), exact, case['dtype']):
                bad('adjoint-call', 'adjoint(y) is not W_dom^-1 resize_array(W_ran y, '
                    'direction=adjoint)')
            if exact and not np.iscomplexobj(y):
                if ndim == 1:
                    fr_ = [core.frac(v) for v in ran.partition.boundary_cell_fractions[0]]
                    fd_ = [core.frac(v) for v in dom.partition.boundary_cell_fractions[0]]
                    lines.append('opadj mode={} m={} n={} off={} wr={} fl={} fr={} wd={} gl={} '
                                 'gr={} data={}'.format(
                                     mode, m[0], n[0], off_used[0], wtxt(ran), fs(fr_[0]),
                                     fs(fr_[1]), wtxt(dom), fs(fd_[0]), fs(fd_[1]),
                                     fl(y.ravel().tolist())))
                    answers.append('ok r=' + fl(aty.asarray().ravel().tolist()))
                if int(np.prod(n)) * int(np.prod(m)) <= 1500:
                    lines.append('opadjnd mode={} shape={} newshape={} off={} wr={} wd={} data={}'
                                 .format(mode, fl(m), fl(n), fl(off_used), fl(WR.ravel().tolist()),
                                         fl(WD.ravel().tolist()), fl(y.ravel().tolist())))
                    answers.append('ok r=' + fl(aty.asarray().ravel().tolist()))
            if adj.adjoint is not op:
                bad('adjoint-adjoint', 'adjoint.adjoint is not the operator')
            if adj.domain != ran or adj.range != dom:
                bad('adjoint-spaces', 'adjoint domain/range wrong')
            # (pseudo-)inverse of the adjoint
            try:
                ainv = adj.inverse
                if ainv.domain != dom or ainv.range != ran:
                    bad('adjoint-inverse', 'adjoint.inverse domain/range wrong')
                elif all(mm >= nn for nn, mm in zip(n, m)):
                    back = adj(ainv(dom.element(x))).asarray()
                    if not arr_eq(back, x, False, case['dtype']):
                        bad('adjoint-inverse', 'adjoint(adjoint.inverse(x)) != x on an extension')
            except Exception as e:  # noqa
                bad('adjoint-inverse', 'adjoint.inverse raises {}: {}'.format(
                    type(e).__name__, str(e)[:120]))
        inv = op.inverse
        if inv.domain != ran or inv.range != dom:
            bad('inverse-spaces', 'inverse domain/range wrong')
        if all(mm >= nn for nn, mm in zip(n, m)):
            back = inv(op(x)).asarray()
            if ilist(back) != ilist(x):
                bad('inverse', 'inverse(op(x)) != x on an extension')
    except Exception as e:  # noqa
        bad('exception', 'unexpected {}: {}'.format(type(e).__name__, str(e)[:200]))
    return problems, lines, answers


def rng_pos(r):
    return r.randint(1, 2)


def op_key(case, tag):
    cls = []
    for a in case['axes']:
        if a['m'] == a['n']:
            cls.append('same')
        elif a['m'] > a['n']:
            cls.append('grow')
        else:
            cls.append('shrink(offset>0)' if a['off'] > 0 else 'shrink(offset=0)')
    nob = any(any(a['bdry']) for a in case['axes'])
    return ('ResizingOperator {} variant={} mode={} axes={} nodes_on_bdry={} weighting=dom:{}/'
            'ran:{} dtype={}{}'.format(
                tag, case['variant'], case['mode'], '/'.join(cls), 'yes' if nob else 'no',
                case.get('dom_w', 'default'), case.get('ran_w', 'inherit'),
                case.get('dtype', 'float64'),
                ' inconsistent=' + case['bad'] if case.get('bad') else ''))


def operator_stream(ctx, deep=False, model=True):
    count = 300 if (ctx.quick and not deep) else 3000
    all_lines, all_answers, owners = [], [], []
    for case in op_cases(ctx, count):
        problems, lines, answers = run_op_case(ctx, case)
        seen = set()
        for tag, text in problems:
            if tag not in seen:
                seen.add(tag)
                ctx.violation(op_key(case, tag), text[:600], dict(case, tag=tag))
        ctx.case(('operator', case['variant'], case['mode'],
                  tuple((a['m'] > a['n']) - (a['m'] < a['n']) for a in case['axes']),
                  any(any(a['bdry']) for a in case['axes']), case['dom_w'], case['ran_w'],
                  case['bad']),
                 sample={'case': case} if ctx.rng.random() < 0.01 else None)
        ctx.hit('operator/' + case['variant'])
        ctx.hit('operator/weighting/dom:{}/ran:{}'.format(case['dom_w'], case['ran_w']))
        ctx.hit('operator/ndim={}'.format(len(case['axes'])))
        if any(a['n'] == 1 or a['m'] == 1 for a in case['axes']):
            ctx.hit('operator/one-cell-axis')
        if case['bad']:
            ctx.hit('operator/inconsistent/' + case['bad'])
        all_lines += lines
        all_answers += answers
        owners += [case] * len(lines)
    if model and all_lines:
        outs = core.run_driver('C16', all_lines)
        for line, impl, ans, case in zip(all_lines, all_answers, outs, owners):
            kind = line.split(' ', 1)[0]
            ctx.hit(kind + '-model')
            if impl != ans:
                ctx.disagree({'kind': kind, 'line': line, 'case': case}, impl, ans,
                             stream={'discr': '_resize_discr', 'offsp': '_offset_from_spaces'}
                             .get(kind, 'operator adjoint'))


# ---------------------------------------------------------------------------
# DERIVED OPERATORS (round 4): ResizingOperator.inverse / .derivative / .adjoint (raw)
# model: Model/ResizeOperator.lean (ROp.call/.inverse/.derivative/.adjointCall, inverseOffsets)
# theorems: C16.inverse_left_inverse, inverse_right_inverse, derivative_is_linear_part,
#           derivative_inverse_shape, inverse_offset_same, overlap_copied_nd, crop_extend_id_nd

PAD_ERRS = ('err:order0-empty', 'err:order1-short', 'err:periodic-too-long',
            'err:symmetric-too-long')


def derived_cases(ctx, count):
    rng = ctx.rng
    for _ in range(count):
        ndim = rng.choice([1, 1, 2, 2, 3])
        mode = rng.choice(MODES)
        variant = rng.choice(['ran_shp+offset', 'ran_shp+offset', 'range', 'range', 'ran_shp'])
        shape_kind = rng.choice(['extend', 'extend', 'restrict', 'mixed', 'mixed'])
        axes = []
        if shape_kind == 'mixed':
            ndim = max(ndim, 2)
        first = rng.choice(['grow', 'shrink'])
        for ax in range(ndim):
            hi_n = 5 if ndim < 3 else 4
            n = rng.randint(1, hi_n)
            kind = rng.choice({'extend': ['grow', 'grow', 'grow', 'same'],
                               'restrict': ['shrink', 'shrink', 'shrink', 'same'],
                               'mixed': ['grow', 'shrink', 'same']}[shape_kind])
            if shape_kind == 'mixed' and ax < 2:
                kind = first if ax == 0 else ('shrink' if first == 'grow' else 'grow')
            if n == 1 and (kind == 'shrink' or (kind == 'grow' and mode in ('symmetric', 'order1')
                                                and rng.random() < 0.8)):
                n = rng.randint(2, hi_n)
            m, off = n, 0
            if kind == 'grow':
                lim = {'periodic': n, 'symmetric': n - 1, 'order0': 3,
                       'order1': 3 if n >= 2 else 0}.get(mode, 3)
                l, r = rng.randint(0, lim), rng.randint(0, lim)
                if l + r == 0 and lim > 0:
                    l = 1
                if variant == 'ran_shp':
                    tot = l + r
                    l, r = tot - tot // 2, tot // 2
                m, off = n + l + r, l
            elif kind == 'shrink':
                m = rng.randint(1, n - 1)
                off = rng.randint(0, n - m)
                if variant == 'ran_shp':
                    off = -((m - n) - (m - n) // 2)
            if m == n:
                off = 0
            bdry = rng.choice([(False, False)] * 4 + [(True, True), (True, False), (False, True)])
            if min(n, m) < 2:
                bdry = (False, False)
            axes.append(dict(n=n, m=m, off=off, lo=str(Fraction(rng.randint(-8, 8), 4)),
                             cell=str(rng.choice(DYADIC_CELLS)), bdry=list(bdry)))
        if mode == 'constant':
            c = rng.choice([0, 1, -2, 3])
        else:
            c = rng.choice([0, 0, 2])
        yield dict(kind='derived', mode=mode, variant=variant, c=c, axes=axes,
                   dtype=rng.choice(['float64'] * 4 + ['float32']), vseed=rng.getrandbits(32))


def run_derived_case(ctx, case):
    """Returns (problems [(tag, text)], model lines, impl canonical answers, facts)."""
    import odl
    problems = []

    def bad(tag, text):
        problems.append((tag, text))
    axes = case['axes']
    ndim = len(axes)
    n = [a['n'] for a in axes]
    m = [a['m'] for a in axes]
    offs = [a['off'] for a in axes]
    lo = [Fraction(a['lo']) for a in axes]
    cell = [Fraction(a['cell']) for a in axes]
    mode, variant, c, dt = case['mode'], case['variant'], case['c'], case['dtype']
    flags = [tuple(bool(b) for b in a['bdry']) for a in axes]
    ran_flags = flags if variant == 'range' else [(False, False)] * ndim
    half = Fraction(1, 2)
    hi = [lo[k] + (n[k] - half * (int(flags[k][0]) + int(flags[k][1]))) * cell[k]
          for k in range(ndim)]
    r = random.Random(case['vseed'])
    lines, answers, facts = [], [], {}

    def nob(fl_):
        return fl_ if ndim > 1 else fl_[0]
    try:
        dom = odl.uniform_discr([float(v) for v in lo], [float(v) for v in hi], n,
                                nodes_on_bdry=nob(flags), dtype=dt)
        kw = dict(pad_mode=mode, pad_const=c)
        if variant == 'ran_shp':
            op = odl.ResizingOperator(dom, ran_shp=m, **kw)
        elif variant == 'ran_shp+offset':
            op = odl.ResizingOperator(dom, ran_shp=m, offset=list(offs), **kw)
        else:
            rlo, rhi = [], []
            for k in range(ndim):
                sgn = -1 if m[k] >= n[k] else 1
                rlo.append(lo[k] + sgn * offs[k] * cell[k])
                rhi.append(rlo[-1] + (m[k] - half * (int(flags[k][0]) + int(flags[k][1])))
                           * cell[k])
            ran_in = odl.uniform_discr([float(v) for v in rlo], [float(v) for v in rhi], m,
                                       nodes_on_bdry=nob(flags), dtype=dt)
            op = odl.ResizingOperator(dom, ran_in, **kw)
        ran = op.range
    except Exception as e:  # noqa
        return [('construction', 'construction failed: {}: {}'.format(
            type(e).__name__, str(e)[:200]))], [], [], facts
    want = [o if mm != nn else 0 for o, nn, mm in zip(offs, n, m)]
    nonlinear = mode == 'constant' and c != 0
    small = int(np.prod(n)) * int(np.prod(m)) <= 600
    head = 'mode={} shape={} newshape={} off={} c={}'.format(mode, fl(n), fl(m), fl(want), fs(c))
    x = rand_data(r, tuple(n), dt)
    x2 = rand_data(r, tuple(n), dt)
    y = rand_data(r, tuple(m), dt)

    def guarded(f):
        try:
            return 'ok', np.array(f().asarray(), copy=True)
        except Exception as e:  # noqa
            return err_kind(e), None
    try:
        if [int(o) for o in op.offset] != want:
            bad('offset', 'op.offset = {} but {} cells are added/removed on the left'.format(
                list(op.offset), want))
        st_fx, fx = guarded(lambda: op(dom.element(x)))
        exp_fx = expected_forward(x, tuple(m), want, mode, c)
        if st_fx != 'ok' or exp_fx is None or ilist(fx) != ilist(exp_fx):
            bad('call', 'op(x) [{}] differs from the np.pad-style expectation'.format(st_fx))
        # ---------------- inverse
        try:
            inv = op.inverse
        except Exception as e:  # noqa
            inv = None
            bad('inverse-construction', 'op.inverse raises {}: {}'.format(
                type(e).__name__, str(e)[:160]))
        if inv is not None:
            if inv.domain != ran or inv.range != dom:
                bad('inverse-spaces', 'inverse domain/range are not range/domain of the operator')
            if inv.pad_mode != mode:
                bad('inverse-pad-mode', 'inverse.pad_mode = {!r}, operator has {!r}'.format(
                    inv.pad_mode, mode))
            if complex(inv.pad_const) != complex(c):
                bad('inverse-pad-const', 'inverse.pad_const = {}, operator has {}'.format(
                    inv.pad_const, c))
            ioff = [int(o) for o in inv.offset]
            if ioff != want:
                bad('inverse-offset', 'inverse.offset = {} but the operator has {}'.format(
                    ioff, want))
            exp_iy = expected_forward(y, tuple(n), want, mode, c)
            st_iy, iy = guarded(lambda: inv(ran.element(y)))
            facts['inverse_refused'] = exp_iy is None
            if exp_iy is None:
                if st_iy not in PAD_ERRS:
                    bad('inverse-call', 'inverse(y) needs an inadmissible padding ({} -> {}, '
                        'offsets {}) but answered {}'.format(m, n, want, st_iy))
            elif st_iy != 'ok' or ilist(iy) != ilist(exp_iy):
                bad('inverse-call', 'inverse(y) [{}] = {} differs from the np.pad-style resize '
                    '{} of y with the operator\'s mode and pad_const'.format(
                        st_iy, None if iy is None else iy.ravel().tolist()[:8],
                        exp_iy.ravel().tolist()[:8]))
            st_b, back = guarded(lambda: inv(op(dom.element(x))))
            if all(mm >= nn for nn, mm in zip(n, m)):
                if st_b != 'ok' or ilist(back) != ilist(x):
                    bad('inverse-left', 'inverse(op(x)) != x although no axis shrinks [{}]'
                        .format(st_b))
            if all(mm <= nn for nn, mm in zip(n, m)) and st_iy == 'ok':
                st_f, fwd = guarded(lambda: op(inv(ran.element(y))))
                if st_f != 'ok' or ilist(fwd) != ilist(y):
                    bad('inverse-right', 'op(inverse(y)) != y although no axis grows [{}]'
                        .format(st_f))
            try:
                ii = inv.inverse
                if ii.domain != dom or ii.range != ran or \
                        ilist(ii(dom.element(x)).asarray()) != ilist(fx):
                    bad('inverse-inverse', 'inverse.inverse does not act like the operator')
            except Exception as e:  # noqa
                bad('inverse-inverse', 'inverse.inverse raises {}: {}'.format(
                    type(e).__name__, str(e)[:120]))
            # model
            lines.append('invoff lo={} hi={} n={} bl={} br={} rlo={} rhi={} rn={} rbl={} rbr={}'
                         .format(fl(lo), fl(hi), fl(n), fl([int(f[0]) for f in flags]),
                                 fl([int(f[1]) for f in flags]),
                                 fl([core.frac(v) for v in ran.min_pt]),
                                 fl([core.frac(v) for v in ran.max_pt]), fl(m),
                                 fl([int(f[0]) for f in ran_flags]),
                                 fl([int(f[1]) for f in ran_flags])))
            answers.append('ok off=' + ','.join(str(o) for o in ioff))
            if small:
                lines.append('opinv {} data={}'.format(head, fl(y.ravel().tolist())))
                answers.append('ok r=' + fl(iy.ravel().tolist()) if st_iy == 'ok' else st_iy)
                lines.append('opinv2 {} data={}'.format(head, fl(x.ravel().tolist())))
                answers.append('ok r=' + fl(back.ravel().tolist()) if st_b == 'ok' else st_b)
        # ---------------- axes (round 5)
        if tuple(op.axes) != tuple(i for i in range(ndim) if n[i] != m[i]):
            bad('axes', 'op.axes = {} for {} -> {}'.format(op.axes, n, m))
        facts['axes'] = len(op.axes)
        # ---------------- derivative
        facts['nonlinear'] = nonlinear
        if bool(op.is_linear) != (not nonlinear):
            bad('is-linear', 'is_linear = {} for pad_mode={} pad_const={}'.format(
                op.is_linear, mode, c))
        d = op.derivative(dom.element(x2))
        if nonlinear:
            if d is op:
                bad('derivative', 'derivative of the non-linear operator is the operator itself')
            if not d.is_linear or complex(d.pad_const) != 0 or d.pad_mode != 'constant':
                bad('derivative', 'derivative is not a linear constant-padding operator: '
                    'pad_mode={} pad_const={} is_linear={}'.format(
                        d.pad_mode, d.pad_const, d.is_linear))
            if d.domain != dom or d.range != ran or [int(o) for o in d.offset] != want:
                bad('derivative', 'derivative changes spaces or offsets')
        elif d is not op:
            bad('derivative', 'derivative of a linear operator is not the operator itself')
        st_dx, dx = guarded(lambda: d(dom.element(x - x2)))
        st_f2, fx2 = guarded(lambda: op(dom.element(x2)))
        if 'ok' not in (st_dx, st_f2) or st_dx != st_f2 or fx is None or \
                ilist(fx - fx2) != ilist(dx):
            bad('derivative-difference', 'op(x) - op(x\') != derivative(x - x\'): {} vs {}'.format(
                None if fx is None or fx2 is None else (fx - fx2).ravel().tolist()[:8],
                None if dx is None else dx.ravel().tolist()[:8]))
        st_d1, d1 = guarded(lambda: d(dom.element(x)))
        if small:
            lines.append('opderiv {} data={}'.format(head, fl(x.ravel().tolist())))
            tail = 'same={} c={} lin={} oplin={} axes={}'.format(
                int(d is op), fs(core.frac(float(np.real(d.pad_const)))), int(bool(d.is_linear)),
                int(bool(op.is_linear)), fl(list(op.axes)))
            answers.append('ok {} r={}'.format(tail, fl(d1.ravel().tolist())) if st_d1 == 'ok'
                           else '{} {}'.format(st_d1, tail))
        # ---------------- adjoint (raw: default weighting, no boundary fractions)
        try:
            adj = op.adjoint
            st_adj = 'ok'
        except NotImplementedError:
            adj, st_adj = None, 'not-implemented'
        except Exception as e:  # noqa
            adj, st_adj = None, 'err:' + type(e).__name__
        if nonlinear and st_adj != 'not-implemented':
            bad('adjoint-nonlinear', 'non-linear operator: .adjoint answered ' + st_adj)
        if not nonlinear and st_adj != 'ok':
            bad('adjoint-linear', 'linear operator: .adjoint answered ' + st_adj)
        plain = not any(any(f) for f in flags)
        if adj is not None and plain:
            st_a, ay = guarded(lambda: adj(ran.element(y)))
            if st_a != 'ok' or fx is None or \
                    Fraction(float(np.sum(fx * y))) != Fraction(float(np.sum(x * ay))):
                bad('adjoint-transpose', 'sum(op(x) * y) != sum(x * adjoint(y)) with equal '
                    'cell volumes and no boundary fractions [{}]'.format(st_a))
            if small:
                lines.append('opadjraw {} data={}'.format(head, fl(y.ravel().tolist())))
                answers.append('ok r=' + fl(ay.ravel().tolist()) if st_a == 'ok' else st_a)
        elif adj is None and small:
            lines.append('opadjraw {} data={}'.format(head, fl(y.ravel().tolist())))
            answers.append(st_adj)
    except Exception as e:  # noqa
        bad('exception', 'unexpected {}: {}'.format(type(e).__name__, str(e)[:200]))
    return problems, lines, answers, facts


def derived_key(case, tag):
    cls = ['same' if a['m'] == a['n'] else ('grow' if a['m'] > a['n'] else 'shrink')
           for a in case['axes']]
    return ('ResizingOperator derived {} variant={} mode={} axes={} pad_const={} dtype={}'.format(
        tag, case['variant'], case['mode'], '/'.join(cls),
        'zero' if case['c'] == 0 else 'nonzero', case['dtype']))


def derived_stream(ctx, deep=False, model=True):
    count = 250 if (ctx.quick and not deep) else 2500
    all_lines, all_answers, owners = [], [], []
    for case in derived_cases(ctx, count):
        problems, lines, answers, facts = run_derived_case(ctx, case)
        seen = set()
        for tag, text in problems:
            if tag not in seen:
                seen.add(tag)
                ctx.violation(derived_key(case, tag), text[:600], dict(case, tag=tag))
        sig = tuple((a['m'] > a['n']) - (a['m'] < a['n']) for a in case['axes'])
        shape_cls = ('same' if not any(sig) else 'extend' if min(sig) >= 0 else
                     'restrict' if max(sig) <= 0 else 'mixed')
        ctx.case(('derived', case['variant'], case['mode'], sig, case['c'] != 0,
                  facts.get('inverse_refused')),
                 sample={'case': case} if ctx.rng.random() < 0.01 else None)
        ctx.hit('derived/inverse/{}/{}'.format(case['mode'], shape_cls))
        ctx.hit('derived/variant/' + case['variant'])
        ctx.hit('derived/ndim={}'.format(len(case['axes'])))
        if facts.get('inverse_refused'):
            ctx.hit('derived/inverse/refused-padding')
        if facts.get('nonlinear'):
            ctx.hit('derived/derivative/nonlinear')
            ctx.hit('derived/adjoint/not-implemented')
        elif 'nonlinear' in facts:
            ctx.hit('derived/derivative/linear/' + case['mode'])
        if any(any(a['bdry']) for a in case['axes']):
            ctx.hit('derived/nodes-on-bdry')
        if 'axes' in facts:
            ctx.hit('derived/axes/' + ('none' if facts['axes'] == 0 else
                                       'all' if facts['axes'] == len(case['axes']) else 'some'))
        all_lines += lines
        all_answers += answers
        owners += [case] * len(lines)
    if model and all_lines:
        outs = core.run_driver('C16', all_lines)
        for line, impl, ans, case in zip(all_lines, all_answers, outs, owners):
            kind = line.split(' ', 1)[0]
            ctx.hit(kind + '-model')
            if impl.startswith('err:'):
                ctx.hit('derived/' + kind + '/' + impl.split(' ', 1)[0])
            if impl != ans:
                ctx.disagree({'kind': kind, 'line': line, 'case': case}, impl, ans,
                             stream='derived operators (inverse/derivative/adjoint)')


# ---------------------------------------------------------------------------
# TOLERANCE (round 4): _offset_from_spaces as coded (np.around / np.isclose) on ranges that are
# misaligned by a tiny / small / large fraction of a cell.  model: offsetFromAxesTol;
# theorems: C16.offset_tol_aligned, C16.offset_tol_accepts_exact

NP_RTOL, NP_ATOL = 1e-5, 1e-8          # defaults of np.isclose (passed to the model exactly)
EPS_CLASSES = {'zero': [Fraction(0)],
               'tiny': [Fraction(1, 2 ** 30), Fraction(-1, 2 ** 30)],
               'small': [Fraction(1, 2 ** 20), Fraction(-1, 2 ** 20), Fraction(1, 2 ** 16),
                         Fraction(-1, 2 ** 16)],
               'large': [Fraction(1, 2 ** 12), Fraction(-1, 2 ** 12), Fraction(1, 8),
                         Fraction(-1, 2), Fraction(1, 2), Fraction(1, 2) - Fraction(1, 2 ** 20)]}


def tolerance_cases(ctx, count):
    rng = ctx.rng
    for _ in range(count):
        n = rng.randint(2, 6)
        kind = rng.choice(['grow', 'grow', 'shrink', 'same'])
        m = n + rng.randint(1, 4) if kind == 'grow' else \
            (rng.randint(1, n - 1) if kind == 'shrink' else n)
        d = abs(m - n)
        k = rng.randint(0, d)
        if kind != 'same' and rng.random() < 0.15:
            k = rng.choice([-1, d + 1])
        cls = rng.choice(['zero', 'tiny', 'tiny', 'small', 'small', 'small', 'large'])
        eps = rng.choice(EPS_CLASSES[cls])
        bdry = rng.choice([(False, False)] * 3 + [(True, True), (True, False)])
        if min(n, m) < 2:
            bdry = (False, False)
        yield dict(kind='tolerance', n=n, m=m, k=k, eps=str(eps), cls=cls, axkind=kind,
                   lo=str(Fraction(rng.randint(-8, 8), 4)), cell=str(rng.choice(DYADIC_CELLS)),
                   bdry=list(bdry), mode=rng.choice(['constant', 'order0']), vseed=rng.getrandbits(32))


def run_tolerance_case(ctx, case):
    import odl
    problems, lines, answers = [], [], []

    def bad(tag, text):
        problems.append((tag, text))
    n, m, k = case['n'], case['m'], case['k']
    eps, cell, lo = Fraction(case['eps']), Fraction(case['cell']), Fraction(case['lo'])
    bl, br = (bool(b) for b in case['bdry'])
    half = Fraction(1, 2)
    nb = half * (int(bl) + int(br))
    hi = lo + (n - nb) * cell
    s = k + eps                                   # shift of the two grids in cells
    # the LARGER grid starts s cells to the left of the smaller one (same: range s cells left)
    rlo = lo - s * cell if m >= n else lo + s * cell
    rhi = rlo + (m - nb) * cell
    status = None
    try:
        dom = odl.uniform_discr(float(lo), float(hi), n, nodes_on_bdry=(bl, br))
        ran = odl.uniform_discr(float(rlo), float(rhi), m, nodes_on_bdry=(bl, br))
        if (core.frac(ran.min_pt[0]), core.frac(ran.max_pt[0])) != (rlo, rhi) or \
                core.frac(ran.cell_sides[0]) != cell or \
                core.frac(ran.grid.min()[0]) - core.frac(dom.grid.min()[0]) != rlo - lo:
            return [('harness', 'range not exactly representable')], [], [], None
    except Exception as e:  # noqa
        return [('harness', 'could not build the spaces: {}'.format(e))], [], [], None
    try:
        op = odl.ResizingOperator(dom, ran, pad_mode=case['mode'])
        status = 'ok off={}'.format(int(op.offset[0]))
    except ValueError as e:
        op, status = None, shift_err_kind(e)
    except Exception as e:  # noqa
        op, status = None, 'err:' + type(e).__name__
    d = abs(m - n)
    inrange = (0 <= k <= d) if m != n else True
    if case['cls'] in ('zero', 'tiny') and inrange:
        # aligned exactly, or up to 2^-30 cells (float round-off scale, below atol of np.isclose)
        want = 'ok off={}'.format(k if m != n else 0)
        if status != want:
            bad('aligned-refused', 'range aligned up to {} cells ({} -> {} cells, {} cells to the '
                'left) answered {} instead of {}'.format(eps, n, m, k, status, want))
    if case['cls'] == 'large' and status.startswith('ok'):
        bad('misaligned-accepted', 'range misaligned by {} cells ({} -> {} cells) was accepted: '
            '{}'.format(eps, n, m, status))
    if not inrange and status.startswith('ok'):
        bad('not-contained-accepted', 'smaller grid starts {} cells to the right of the larger '
            'one but the range was accepted: {}'.format(-s if k < 0 else s, status))
    if status.startswith('ok'):
        got = int(op.offset[0])
        if m != n and (abs(s - got) > half or not 0 <= got <= d):
            bad('offset-not-nearest', 'accepted with offset {} for a shift of {} cells'.format(
                got, s))
        if m == n and got != 0:
            bad('offset-not-nearest', 'unchanged axis: offset {}'.format(got))
        r = random.Random(case['vseed'])
        x = rand_data(r, (n,), 'float64')
        try:
            rx = op(x).asarray()
            blk = rx[got:got + n] if m >= n else rx
            src = x if m >= n else x[got:got + m]
            if ilist(blk) != ilist(src):
                bad('block', 'the overlapping block is not copied at offset {}'.format(got))
        except Exception as e:  # noqa
            bad('call', 'accepted operator cannot be called: {}: {}'.format(
                type(e).__name__, str(e)[:120]))
    elif not status.startswith('err:shift') and not status.startswith('err:not-contained'):
        bad('refusal-kind', 'unexpected refusal ' + status)
    lines.append('offsptol lo={} hi={} n={} bl={} br={} rlo={} rhi={} rn={} rbl={} rbr={} '
                 'rtol={} atol={}'.format(fs(lo), fs(hi), n, int(bl), int(br), fs(rlo), fs(rhi), m,
                                          int(bl), int(br), fs(core.frac(NP_RTOL)),
                                          fs(core.frac(NP_ATOL))))
    answers.append(status)
    return problems, lines, answers, status


def tolerance_stream(ctx, deep=False, model=True):
    count = 200 if (ctx.quick and not deep) else 2000
    all_lines, all_answers, owners = [], [], []
    for case in tolerance_cases(ctx, count):
        problems, lines, answers, status = run_tolerance_case(ctx, case)
        seen = set()
        for tag, text in problems:
            if tag not in seen:
                seen.add(tag)
                ctx.violation('ResizingOperator tolerance {} axis={} misalignment={} contained={}'
                              .format(tag, case['axkind'], case['cls'],
                                      'yes' if 0 <= case['k'] <= abs(case['m'] - case['n'])
                                      else 'no'), text[:500], dict(case, tag=tag))
        verdict = 'none' if status is None else ('accepted' if status.startswith('ok') else
                                                 'refused:' + status[4:])
        ctx.case(('tolerance', case['axkind'], case['cls'], case['k'] < 0,
                  case['k'] > abs(case['m'] - case['n']), verdict),
                 sample={'case': case} if ctx.rng.random() < 0.01 else None)
        ctx.hit('tolerance/{}/{}/{}'.format(case['axkind'], case['cls'], verdict))
        all_lines += lines
        all_answers += answers
        owners += [case] * len(lines)
    if model and all_lines:
        outs = core.run_driver('C16', all_lines)
        for line, impl, ans, case in zip(all_lines, all_answers, outs, owners):
            ctx.hit('offsptol-model')
            if impl != ans:
                ctx.disagree({'kind': 'offsptol', 'line': line, 'case': case}, impl, ans,
                             stream='_offset_from_spaces with np.around/np.isclose')


# ---------------------------------------------------------------------------
# BOUNDARY (round 5): apply_on_boundary with all its options, _scale_bdry_cells, the private
# helpers on the 'constant' mode, _resize_discr's nodes_on_bdry forms, _inner_weights fallback.
# model: applyOnBoundary / scaleBdryCells / bdryFracProd (ops aob, scalebdry);
# theorems: C16.boundary_interior_untouched, C16.scale_bdry_cells_eq_fractions

def boundary_cases(ctx, count):
    rng = ctx.rng
    for _ in range(count):
        ndim = rng.choice([1, 2, 2, 3])
        shape = [rng.choice([1, 2, 3, 3, 4]) for _ in range(ndim)]
        order = list(range(ndim))
        order_kind = rng.choice(['default', 'default', 'permuted', 'negative'])
        if order_kind != 'default':
            rng.shuffle(order)
        func_kind = rng.choice(['single', 'sequence', 'pairs', 'pairs', 'with-none'])
        which_kind = rng.choice(['none', 'none', 'bools', 'pairs', 'mixed'])
        steps = []
        single = (rng.choice([2, 3, -1]), rng.choice([0, 1, -2]))
        for i in range(ndim):
            f_l = (rng.choice([2, 3, -1, 5]), rng.choice([0, 1, -2]))
            f_r = (rng.choice([2, 3, -1, 7]), rng.choice([0, 1, 4]))
            if func_kind == 'single':
                f_l = f_r = single
            elif func_kind == 'sequence':
                f_r = f_l
            elif func_kind == 'with-none':
                k_ = rng.choice(['l', 'r', 'both', 'no'])
                f_l = None if k_ in ('l', 'both') else f_l
                f_r = None if k_ in ('r', 'both') else f_r
                if k_ == 'both' and rng.random() < 0.5:
                    f_l = f_r = 'axis-none'
            if which_kind == 'none':
                w = (True, True)
            elif which_kind == 'bools':
                w = rng.choice([True, True, False])
            elif which_kind == 'pairs':
                w = (rng.random() < 0.6, rng.random() < 0.6)
            else:
                w = rng.choice([True, False, (True, False), (False, True)])
            steps.append(dict(fl=f_l, fr=f_r, which=w))
        yield dict(kind='boundary', shape=shape, order=order, order_kind=order_kind,
                   func_kind=func_kind, which_kind=which_kind, steps=steps,
                   once=rng.random() < 0.5, out=rng.choice(['none', 'fresh', 'same']),
                   vseed=rng.getrandbits(32))


def _aff(f):
    a, b = f
    return lambda v: a * v + b


def run_boundary_case(ctx, case):
    problems = []
    shape, ndim = tuple(case['shape']), len(case['shape'])
    r = random.Random(case['vseed'])
    arr = rand_data(r, shape, 'int64')
    arr0 = arr.copy()
    steps = case['steps']
    # arguments in the form the case asks for
    if case['func_kind'] == 'single':
        func = _aff(steps[0]['fl'])
    else:
        func = []
        for st in steps:
            if st['fl'] == 'axis-none':
                func.append(None)
            elif case['func_kind'] == 'sequence':
                func.append(_aff(st['fl']))
            else:
                func.append((None if st['fl'] is None else _aff(st['fl']),
                             None if st['fr'] is None else _aff(st['fr'])))
    kw = dict(only_once=case['once'])
    if case['which_kind'] != 'none':
        kw['which_boundaries'] = [tuple(st['which']) if isinstance(st['which'], (list, tuple))
                                  else st['which'] for st in steps]
    if case['order_kind'] != 'default':
        kw['axis_order'] = [a - ndim if case['order_kind'] == 'negative' else a
                            for a in case['order']]
    out = None
    if case['out'] == 'fresh':
        out = np.full(shape, 77, dtype='int64')
        kw['out'] = out
    elif case['out'] == 'same':
        out = arr
        kw['out'] = arr
    try:
        res = apply_on_boundary(arr, func, **kw)
    except Exception as e:  # noqa
        return [('exception', 'apply_on_boundary raises {}: {}'.format(
            type(e).__name__, str(e)[:160]))], [], []
    if out is not None and res is not out:
        problems.append(('out', 'the result is not the `out` array'))
    if case['out'] != 'same' and ilist(arr) != ilist(arr0):
        problems.append(('input-modified', 'the input array was modified'))
    # effective per-step functions (None = skipped side)
    eff = []
    for i, st in enumerate(steps):
        w = st['which']
        wl, wr = (w if isinstance(w, (list, tuple)) else (w, w))
        f_l = None if st['fl'] in (None, 'axis-none') or not wl else tuple(st['fl'])
        f_r = None if st['fr'] in (None, 'axis-none') or not wr else tuple(st['fr'])
        eff.append((case['order'][i], f_l, f_r))
    # ORACLE (independent of the model): element by element, "first come, first served"
    exp = np.empty(shape, dtype=object)
    for idx in itertools.product(*[range(k) for k in shape]):
        v = int(arr0[idx])
        done = {}                                   # axis -> (left processed, right processed)
        for ax, f_l, f_r in eff:
            live = True
            if case['once']:
                for a2, (pl, pr) in done.items():
                    if a2 != ax and ((pl and idx[a2] == 0) or (pr and idx[a2] == shape[a2] - 1)):
                        live = False
            if live and f_l is not None and idx[ax] == 0:
                v = f_l[0] * v + f_l[1]
            if live and f_r is not None and idx[ax] == shape[ax] - 1:
                v = f_r[0] * v + f_r[1]
            done[ax] = (f_l is not None, f_r is not None)
        exp[idx] = v
    if [int(v) for v in np.asarray(res).ravel()] != [int(v) for v in exp.ravel()]:
        problems.append(('value', 'apply_on_boundary(shape {}, only_once={}, ...) = {} but the '
                         'documented first-come-first-served rule gives {}'.format(
                             shape, case['once'], np.asarray(res).ravel().tolist()[:10],
                             [int(v) for v in exp.ravel()][:10])))
    interior = [idx for idx in itertools.product(*[range(k) for k in shape])
                if all(0 < i < k - 1 for i, k in zip(idx, shape))]
    if any(int(np.asarray(res)[idx]) != int(arr0[idx]) for idx in interior):
        problems.append(('interior', 'an interior entry was changed'))
    line = ('aob once={} shape={} ax={} hl={} la={} lb={} hr={} ra={} rb={} data={}'.format(
        int(case['once']), fl(shape), fl([e[0] for e in eff]),
        fl([int(e[1] is not None) for e in eff]), fl([(e[1] or (0, 0))[0] for e in eff]),
        fl([(e[1] or (0, 0))[1] for e in eff]), fl([int(e[2] is not None) for e in eff]),
        fl([(e[2] or (0, 0))[0] for e in eff]), fl([(e[2] or (0, 0))[1] for e in eff]),
        fl(arr0.ravel().tolist())))
    return problems, [line], ['ok r=' + fl([int(v) for v in np.asarray(res).ravel()])]


def scale_bdry_checks(ctx):
    """_scale_bdry_cells on real spaces with nodes on the boundary vs scaleBdryCells/bdryFracProd;
    oracle: x.inner(y) of the space == cell volume * sum(scaled x * conj y)."""
    import odl
    from odl.discr.discr_ops import _scale_bdry_cells
    lines, answers = [], []
    rng = ctx.rng
    for _ in range(30 if ctx.quick else 200):
        ndim = rng.choice([1, 2, 3])
        shape = [rng.choice([1, 2, 3, 4]) for _ in range(ndim)]
        flags = [rng.choice([(True, True), (True, False), (False, True), (False, False)])
                 if k >= 2 else (False, False) for k in shape]
        if not any(any(f) for f in flags):
            k_ = rng.randrange(ndim)
            shape[k_] = max(shape[k_], 2)
            flags[k_] = (True, False)
        inverse = rng.random() < 0.4
        try:
            sp = odl.uniform_discr([0] * ndim, [float(k) - 0.5 * (f[0] + f[1])
                                                for k, f in zip(shape, flags)], shape,
                                   nodes_on_bdry=flags if ndim > 1 else flags[0])
            a = rand_data(random.Random(rng.getrandbits(32)), tuple(shape), 'float64') * 4
            res = _scale_bdry_cells(a.copy(), sp, inverse=inverse)
            fr = [(core.frac(l_), core.frac(r_)) for l_, r_ in sp.partition.boundary_cell_fractions]
        except Exception as e:  # noqa
            ctx.violation('boundary scale-bdry-cells exception', '{}: {}'.format(
                type(e).__name__, str(e)[:200]), {'kind': 'boundary-scale'})
            continue
        if inverse:
            fr = [(1 / l_, 1 / r_) for l_, r_ in fr]
        else:
            b = rand_data(random.Random(rng.getrandbits(32)), tuple(shape), 'float64')
            lhs = core.frac(float(sp.element(a).inner(sp.element(b))))
            rhs = core.frac(float(sp.cell_volume)) * sum(
                core.frac(float(u)) * core.frac(float(v)) for u, v in zip(res.ravel(), b.ravel()))
            if lhs != rhs:
                ctx.violation('boundary scale-bdry-cells inner ndim={}'.format(ndim),
                              'space.inner(a, b) = {} but cell_volume * sum(_scale_bdry_cells(a) '
                              '* b) = {}'.format(lhs, rhs), {'kind': 'boundary-scale'})
        ctx.case(('scalebdry', ndim, inverse, tuple(flags)), None)
        ctx.hit('boundary/scale-bdry-cells/' + ('inverse' if inverse else 'forward'))
        lines.append('scalebdry shape={} fl={} fr={} data={}'.format(
            fl(shape), fl([f[0] for f in fr]), fl([f[1] for f in fr]), fl(a.ravel().tolist())))
        txt = fl(res.ravel().tolist())
        answers.append('ok r={} w={}'.format(txt, txt))
    return lines, answers


def helper_constant_checks(ctx):
    """The private helpers on the mode they are never called with by resize_array: constant."""
    from odl.util import numerics
    rng = ctx.rng
    for _ in range(10):
        n, extra, off = rng.randint(1, 4), rng.randint(1, 3), 0
        off = rng.randint(0, extra)
        lhs = np.arange(float(n + extra))
        rhs = np.arange(float(n))
        keep = lhs.copy()
        try:
            ret = numerics._apply_padding(lhs, rhs, [off], 'constant', rng.choice(DIRS))
            sl, sr = numerics._padding_slices_inner(lhs, rhs, 0, [off], 'constant')
        except Exception as e:  # noqa
            ctx.violation('helpers constant-mode exception', '{}: {}'.format(
                type(e).__name__, str(e)[:200]), {'kind': 'helpers'})
            continue
        if ret is not None or ilist(lhs) != ilist(keep):
            ctx.violation('helpers constant-mode _apply_padding', '_apply_padding(..., "constant") '
                          'changed the array or returned a value', {'kind': 'helpers'})
        if len(lhs[sl]) != 0 or len(lhs[sr]) != 0:
            ctx.violation('helpers constant-mode _padding_slices_inner', 'inner slices for '
                          '"constant" select entries: {} {}'.format(sl, sr), {'kind': 'helpers'})
        ctx.hit('helpers/constant-mode')


def bdry_forms_checks(ctx):
    """_resize_discr: every accepted form of discr_kwargs['nodes_on_bdry']."""
    import odl
    forms2 = [('scalar', True, [(True, True), (True, True)]),
              ('per-axis-bools', [True, False], [(True, True), (False, False)]),
              ('mixed', [False, (True, False)], [(False, False), (True, False)]),
              ('pairs', [(False, True), (True, True)], [(False, True), (True, True)])]
    forms1 = [('1d-pair', (True, False), [(True, False)]), ('1d-scalar', True, [(True, True)]),
              ('1d-nested', [(False, True)], [(False, True)])]
    for name, nob, want in forms2 + forms1:
        nd = len(want)
        try:
            dom = odl.uniform_discr([0] * nd, [1] * nd, [4, 2][:nd])
            op = odl.ResizingOperator(dom, ran_shp=[6, 3][:nd], offset=[1, 0][:nd],
                                      pad_mode='order0', discr_kwargs={'nodes_on_bdry': nob})
            ran = op.range
            got = [tuple(bool(b) for b in f) for f in ran.partition.nodes_on_bdry_byaxis]
            key = 'boundary nodes_on_bdry form=' + name
            if got != want:
                ctx.violation(key + ' flags', 'nodes_on_bdry={!r} gives {} in the range, expected '
                              '{}'.format(nob, got, want), {'kind': 'bdry-forms', 'name': name})
            if [core.frac(v) for v in ran.cell_sides] != [core.frac(v) for v in dom.cell_sides]:
                ctx.violation(key + ' cell-sides', 'cell sides changed', {'kind': 'bdry-forms',
                                                                           'name': name})
            if [int(o) for o in op.offset] != [1, 0][:nd]:
                ctx.violation(key + ' offset', 'offset {}'.format(op.offset),
                              {'kind': 'bdry-forms', 'name': name})
            x = dom.element(np.arange(float(np.prod(dom.shape))).reshape(dom.shape))
            y = ran.one()
            if op(x).inner(y) != x.inner(op.adjoint(y)):
                ctx.violation(key + ' adjoint-identity', '<Ax, y> != <x, A*y>',
                              {'kind': 'bdry-forms', 'name': name})
        except Exception as e:  # noqa
            ctx.violation('boundary nodes_on_bdry form={} exception'.format(name), '{}: {}'.format(
                type(e).__name__, str(e)[:200]), {'kind': 'bdry-forms', 'name': name})
        ctx.case(('bdry-form', name), None)
        ctx.hit('boundary/nodes_on_bdry-form/' + name)


def custom_inner_checks(ctx):
    """_inner_weights fallback (weighting with neither `const` nor `array`): custom inner
    products.  The adjoint treats such a weighting as 1.0."""
    import odl
    from odl.space.npy_tensors import NumpyTensorSpaceCustomInner
    for scale, name in ((1.0, 'plain'), (1.0, 'plain-vs-default'), (2.0, 'scaled')):
        for mode in MODES:
            for n, m, rlo, rhi in ((4, 6, -0.25, 1.25), (4, 2, 0.25, 0.75)):
                try:
                    w = NumpyTensorSpaceCustomInner(
                        lambda a, b, s_=scale: s_ * np.vdot(b.data, a.data))
                    w1 = NumpyTensorSpaceCustomInner(lambda a, b: np.vdot(b.data, a.data))
                    dom = odl.uniform_discr(0, 1, n, weighting=w)
                    ran = odl.uniform_discr(rlo, rhi, m, weighting=w1)
                    if name == 'plain-vs-default':
                        # custom (plain) inner product on one side, cell-volume constant on the
                        # other: the fallback weight 1.0 of _inner_weights does not cancel
                        ran = odl.uniform_discr(rlo, rhi, m)
                    op = odl.ResizingOperator(dom, ran, pad_mode=mode)
                    r = random.Random(n * 31 + m)
                    x = dom.element(rand_data(r, (n,), 'float64'))
                    y = ran.element(rand_data(r, (m,), 'float64'))
                    lhs, rhs = op(x).inner(y), x.inner(op.adjoint(y))
                except Exception as e:  # noqa
                    ctx.violation('custom-inner {} exception mode={}'.format(name, mode),
                                  '{}: {}'.format(type(e).__name__, str(e)[:200]),
                                  {'kind': 'custom-inner', 'name': name, 'mode': mode})
                    continue
                ctx.case(('custom-inner', name, mode, n < m), None)
                ctx.hit('boundary/custom-inner/' + name)
                if lhs != rhs:
                    ctx.violation(
                        'custom-inner {} adjoint-identity mode={} axis={}'.format(
                            name, mode, 'grow' if m > n else 'shrink'),
                        '<Ax, y>_range = {} but <x, A*y>_domain = {} (domain inner product = {} * '
                        'vdot as NumpyTensorSpaceCustomInner, range: {})'
                        .format(lhs, rhs, scale, 'default cell-volume weighting'
                                if name == 'plain-vs-default' else 'vdot as custom inner'),
                        {'kind': 'custom-inner', 'name': name, 'mode': mode, 'n': n, 'm': m})


def boundary_stream(ctx, deep=False, model=True):
    count = 200 if (ctx.quick and not deep) else 2000
    all_lines, all_answers, owners = [], [], []
    for case in boundary_cases(ctx, count):
        problems, lines, answers = run_boundary_case(ctx, case)
        seen = set()
        for tag, text in problems:
            if tag not in seen:
                seen.add(tag)
                ctx.violation('apply_on_boundary {} ndim={} only_once={} func={} which={} '
                              'axis_order={} out={}'.format(
                                  tag, len(case['shape']), case['once'], case['func_kind'],
                                  case['which_kind'], case['order_kind'], case['out']),
                              text[:500], dict(case, tag=tag))
        ctx.case(('boundary', len(case['shape']), case['once'], case['func_kind'],
                  case['which_kind'], case['order_kind'], case['out'],
                  1 in case['shape']),
                 sample={'case': case} if ctx.rng.random() < 0.01 else None)
        for k_ in ('func_kind', 'which_kind', 'order_kind', 'out'):
            ctx.hit('boundary/{}/{}'.format(k_.replace('_kind', ''), case[k_]))
        ctx.hit('boundary/only_once=' + str(case['once']))
        if 1 in case['shape']:
            ctx.hit('boundary/one-entry-axis')
        all_lines += lines
        all_answers += answers
        owners += [case] * len(lines)
    l2, a2 = scale_bdry_checks(ctx)
    all_lines += l2
    all_answers += a2
    owners += [{'kind': 'boundary-scale'}] * len(l2)
    helper_constant_checks(ctx)
    bdry_forms_checks(ctx)
    custom_inner_checks(ctx)
    if model and all_lines:
        outs = core.run_driver('C16', all_lines)
        for line, impl, ans, case in zip(all_lines, all_answers, outs, owners):
            kind = line.split(' ', 1)[0]
            ctx.hit(kind + '-model')
            if impl != ans:
                ctx.disagree({'kind': kind, 'line': line, 'case': case}, impl, ans,
                             stream='apply_on_boundary / _scale_bdry_cells')


# ---------------------------------------------------------------------------
# RESULT OWNERSHIP and VALIDATION

def ownership_problems(case, arr, res):
    """The result is a NEW array (or `out`): not the input object, no shared memory, and writes
    to one do not show in the other."""
    problems = []
    if res is arr:
        problems.append('the result IS the input array object (a new array is documented)')
        return problems
    if np.shares_memory(res, arr):
        problems.append('the result shares memory with the input array')
        return problems
    if res.size and arr.size and res.dtype.kind in 'fc' and arr.dtype.kind in 'fc':
        keep_arr, keep_res = arr.copy(), res.copy()
        res[...] = np.nan
        if ilist(arr) != ilist(keep_arr):
            problems.append('writing into the result changed the input')
        res[...] = keep_res
        arr[...] = np.nan
        if ilist(res) != ilist(keep_res):
            problems.append('writing into the input changed the result')
        arr[...] = keep_arr
    return problems


def ownership_stream(ctx):
    """Identity resizes (same shape, zero offset, ndarray input, no `out`) in every mode and
    direction, and the operator paths."""
    import odl
    rng = ctx.rng
    for mode in MODES:
        for d in DIRS:
            for shape in [(rng.randint(2, 5),), (rng.randint(2, 4), rng.randint(2, 4)), (0,)]:
                for kind in ('C', 'strided'):
                    ctx.case(None)
                    ctx.hit('ownership/identity/{}/{}'.format(mode, d))
                    case = dict(kind='array', mode=mode, dir=d, shape=list(shape),
                                newshape=list(shape), off=[0] * len(shape), c=0, dtype='float64',
                                outkind='none', inkind=kind, outdtype=None, data=None,
                                vseed=rng.getrandbits(32))
                    arr = case_data(case)
                    keep = arr.copy()
                    status, res = call_resize(case, arr)
                    probs = ['identity resize refused: ' + status] if status != 'ok' else \
                        ownership_problems(case, arr, res)
                    if status == 'ok' and ilist(res) != ilist(keep):
                        probs.append('identity resize changed the values')
                    if probs:
                        ctx.violation(key_of(case) + ' ownership identity-resize',
                                      '; '.join(probs)[:600], describe(case, keep))
    # operators: op(x), adjoint(y), inverse(z); with out= the result is out
    for mode in MODES:
        for same in (True, False):
            ctx.case(None)
            ctx.hit('ownership/operator/' + ('identity' if same else 'resize'))
            n = rng.randint(3, 5)
            m = n if same else n + 2
            desc = dict(kind='ownership-op', mode=mode, n=n, m=m)
            probs = []
            try:
                dom = odl.uniform_discr(0, n * 0.5, n)
                op = odl.ResizingOperator(dom, ran_shp=(m,), offset=0 if same else 1, pad_mode=mode)
                x = dom.element(np.arange(1.0, n + 1))
                y = op.range.element(np.arange(1.0, m + 1))
                for name, f, inp in (('op(x)', op, x), ('adjoint(y)', op.adjoint, y),
                                     ('inverse(y)', op.inverse, y)):
                    r = f(inp)
                    ra, ia = r.asarray(), inp.asarray()
                    if r is inp or np.shares_memory(r.tensor.data, inp.tensor.data):
                        probs.append('{}: the result is / shares memory with the input element'
                                     .format(name))
                    out = f.range.element()
                    r2 = f(inp, out=out)
                    if r2 is not out:
                        probs.append('{}: with out= the result is not out'.format(name))
                    if ilist(out.asarray()) != ilist(ra):
                        probs.append('{}: out= gives another result'.format(name))
            except Exception as e:  # noqa
                probs.append('raised {}: {}'.format(type(e).__name__, str(e)[:120]))
            if probs:
                ctx.violation('ResizingOperator ownership mode={} {}'.format(
                    mode, 'identity' if same else 'resize'), '; '.join(probs)[:600], desc)


def validation_cases():
    """(name, kind, builder) — builder(legal) returns a thunk performing the illegal call
    (legal=False) or its nearest legal neighbour (legal=True).  `kind` is the stratum.
    The predicates come from the docstrings of resize_array / ResizingOperator."""
    import odl
    d1 = lambda: odl.uniform_discr(0, 1, 4)                       # noqa cell 1/4
    d2 = lambda: odl.uniform_discr([0, 0], [1, 1], (4, 2))        # noqa cells 1/4, 1/2
    x24 = lambda: np.arange(8.0).reshape(2, 4)                    # noqa

    def ro(*a, **k):
        return lambda: odl.ResizingOperator(*a, **k)

    def call(opf, shape):
        def f():
            op = opf()
            return op(op.domain.one())
        return f
    cases = [
        # ---- ResizingOperator(range=...)
        ('cell sides differ in a resized axis', 'op/cell-sides/resized', ValueError,
         lambda ok: ro(d2(), odl.uniform_discr([-0.25, 0], [1.25 if ok else 1.5, 1], (6, 2)))),
        ('cell sides differ in an UNCHANGED axis', 'op/cell-sides/unchanged', ValueError,
         lambda ok: ro(d2(), odl.uniform_discr([-0.25, 0], [1.25, 1 if ok else 2], (6, 2)))),
        ('cell sides differ in an UNCHANGED axis whose first grid points coincide',
         'op/cell-sides/unchanged-same-first-node', ValueError,
         lambda ok: ro(d2(), odl.uniform_discr([-0.25, 0 if ok else -0.25],
                                               [1.25, 1 if ok else 1.75], (6, 2)))),
        ('range shifted by a non-multiple of the cell side', 'op/shift-non-multiple', ValueError,
         lambda ok: ro(d1(), odl.uniform_discr(-0.25 if ok else -0.125,
                                               1.25 if ok else 1.375, 6))),
        ('range shifted in an UNCHANGED axis', 'op/shift-unchanged-axis', ValueError,
         lambda ok: ro(d2(), odl.uniform_discr([-0.25, 0 if ok else 0.5],
                                               [1.25, 1 if ok else 1.5], (6, 2)))),
        ('range does not contain the domain', 'op/not-contained', ValueError,
         lambda ok: ro(d1(), odl.uniform_discr(-0.5 if ok else 0.25, 1.0 if ok else 1.75, 6))),
        ('range with another number of axes', 'op/ndim-mismatch', (ValueError, TypeError),
         lambda ok: ro(d1(), odl.uniform_discr(-0.25, 1.25, 6) if ok else
                       odl.uniform_discr([-0.25, 0], [1.25, 1], (6, 4)))),
        ('range that is not a DiscretizedSpace', 'op/range-type', (TypeError, ValueError),
         lambda ok: ro(d1(), odl.uniform_discr(-0.25, 1.25, 6) if ok else odl.rn(6))),
        ('domain that is not a DiscretizedSpace', 'op/domain-type', TypeError,
         lambda ok: ro(d1() if ok else odl.rn(4), ran_shp=(6,))),
        ('neither range nor ran_shp', 'op/no-range', ValueError,
         lambda ok: ro(d1(), ran_shp=(6,)) if ok else ro(d1())),
        ('both range and ran_shp', 'op/range-and-ran_shp', ValueError,
         lambda ok: ro(d1(), odl.uniform_discr(-0.25, 1.25, 6)) if ok else
         ro(d1(), odl.uniform_discr(-0.25, 1.25, 6), ran_shp=(6,))),
        ('offset together with range', 'op/offset-with-range', ValueError,
         lambda ok: ro(d1(), odl.uniform_discr(-0.25, 1.25, 6)) if ok else
         ro(d1(), odl.uniform_discr(-0.25, 1.25, 6), offset=1)),
        ('ran_shp of the wrong length', 'op/ran_shp-length', (ValueError, TypeError),
         lambda ok: ro(d2(), ran_shp=(6, 2) if ok else (6,))),
        ('resizing a non-uniform axis', 'op/non-uniform-axis', ValueError,
         lambda ok: ro(odl.DiscretizedSpace(
             odl.uniform_partition(0, 1, 4).append(odl.nonuniform_partition([0, 1, 4])),
             odl.rn((4, 3))), ran_shp=(6, 3) if ok else (4, 5))),
        ('unknown pad_mode', 'op/pad_mode', ValueError,
         lambda ok: ro(d1(), ran_shp=(6,), pad_mode='order0' if ok else 'order2')),
        ('offset beyond the size difference', 'op/offset-range', ValueError,
         lambda ok: ro(d1(), ran_shp=(6,), offset=2 if ok else 3)),
        ('negative offset', 'op/offset-negative', ValueError,
         lambda ok: ro(d1(), ran_shp=(6,), offset=0 if ok else -1)),
        ('non-integer offset', 'op/offset-non-integer', (ValueError, TypeError),
         lambda ok: ro(d1(), ran_shp=(6,), offset=1 if ok else 1.5)),
        ('symmetric padding of n cells (> n - 1), at the call', 'op/symmetric-limit', ValueError,
         lambda ok: call(ro(d1(), ran_shp=(7 if ok else 8,), offset=3 if ok else 4,
                            pad_mode='symmetric'), None)),
        ('periodic padding of n + 1 cells (> n), at the call', 'op/periodic-limit', ValueError,
         lambda ok: call(ro(d1(), ran_shp=(8 if ok else 9,), offset=4 if ok else 5,
                            pad_mode='periodic'), None)),
        ('order1 padding of a 1-point axis, at the call', 'op/order1-limit', ValueError,
         lambda ok: call(ro(odl.uniform_discr(0, 1, 2 if ok else 1), ran_shp=(4,),
                            pad_mode='order1'), None)),
        # ---- resize_array
        ('newshp not a sequence', 'ra/newshp-type', TypeError,
         lambda ok: lambda: resize_array(x24(), (3, 4) if ok else 5)),
        ('newshp of the wrong length', 'ra/newshp-length', ValueError,
         lambda ok: lambda: resize_array(x24(), (3, 4) if ok else (3,))),
        ('unknown pad_mode', 'ra/pad_mode', ValueError,
         lambda ok: lambda: resize_array(x24(), (3, 4), pad_mode='periodic' if ok else 'wrap')),
        ('unknown direction', 'ra/direction', ValueError,
         lambda ok: lambda: resize_array(x24(), (3, 4), direction='adjoint' if ok else 'back')),
        ('offset out of range', 'ra/offset-range', ValueError,
         lambda ok: lambda: resize_array(x24(), (3, 4), offset=[1 if ok else 2, 0])),
        ('negative offset', 'ra/offset-negative', ValueError,
         lambda ok: lambda: resize_array(x24(), (3, 4), offset=[0 if ok else -1, 0])),
        ('non-integer offset', 'ra/offset-non-integer', (ValueError, TypeError),
         lambda ok: lambda: resize_array(x24(), (3, 4), offset=[1 if ok else 0.5, 0])),
        ('offset of the wrong length', 'ra/offset-length', ValueError,
         lambda ok: lambda: resize_array(x24(), (3, 4), offset=[1, 0] if ok else [1, 0, 0])),
        ('symmetric padding of n entries', 'ra/symmetric-limit', ValueError,
         lambda ok: lambda: resize_array(x24(), (2, 7 if ok else 8), pad_mode='symmetric')),
        ('periodic padding of n + 1 entries', 'ra/periodic-limit', ValueError,
         lambda ok: lambda: resize_array(x24(), (2, 8 if ok else 9), pad_mode='periodic')),
        ('order1 padding of a 1-entry axis', 'ra/order1-limit', ValueError,
         lambda ok: lambda: resize_array(np.arange(2.0 if ok else 1.0), (4,), pad_mode='order1')),
        ('order0 padding of an empty axis', 'ra/order0-limit', ValueError,
         lambda ok: lambda: resize_array(np.arange(1.0 if ok else 0.0), (3,), pad_mode='order0')),
        ('adjoint with pad_const != 0', 'ra/adjoint-pad_const', ValueError,
         lambda ok: lambda: resize_array(x24(), (1, 4), pad_const=0 if ok else 1,
                                         direction='adjoint')),
        ('pad_const not castable to the result dtype', 'ra/pad_const-cast', ValueError,
         lambda ok: lambda: resize_array(np.arange(4), (6,), pad_const=2 if ok else 2.5)),
        ('out that is not an ndarray', 'ra/out-type', TypeError,
         lambda ok: lambda: resize_array(x24(), (3, 4), out=np.zeros((3, 4)) if ok else
                                         [[0.0] * 4] * 3)),
        ('out of the wrong shape', 'ra/out-shape', ValueError,
         lambda ok: lambda: resize_array(x24(), (3, 4), out=np.zeros((3, 4) if ok else (4, 3)))),
        ('out with another number of axes', 'ra/out-ndim', ValueError,
         lambda ok: lambda: resize_array(x24(), (3, 4) if ok else (3, 4, 1),
                                         out=np.zeros((3, 4) if ok else (3, 4, 1)))),
        # ---- round 5: _resize_discr / apply_on_boundary argument checks
        ('discr_kwargs nodes_on_bdry of the wrong length', 'op/nodes_on_bdry-length', ValueError,
         lambda ok: ro(d2(), ran_shp=(6, 2), discr_kwargs={
             'nodes_on_bdry': [True, (False, True)] if ok else [True, False, True]})),  # mixed form: C16-F11 fixed in 91000fe
        ('apply_on_boundary: function sequence of the wrong length', 'aob/func-length',
         ValueError,
         lambda ok: lambda: apply_on_boundary(x24(), [None, lambda v: v] if ok else
                                              [lambda v: v])),
        ('apply_on_boundary: which_boundaries of the wrong length', 'aob/which-length', ValueError,
         lambda ok: lambda: apply_on_boundary(x24(), lambda v: v, which_boundaries=
                                              [True, False] if ok else [True])),
        ('apply_on_boundary: axis_order of the wrong length', 'aob/axis_order-length', ValueError,
         lambda ok: lambda: apply_on_boundary(x24(), lambda v: v, axis_order=
                                              [1, 0] if ok else [1, 0, 0])),
    ]
    return cases


def validation_stream(ctx):
    import warnings
    for name, stratum, exc, builder in validation_cases():
        for legal in (False, True):
            ctx.case(None)
            ctx.hit('validation/' + stratum + ('/legal-neighbour' if legal else '/rejected'))
            desc = dict(kind='validation', name=name, legal=legal)
            key = 'validation {} {}'.format(stratum, 'legal-neighbour' if legal else 'rejected')
            try:
                with warnings.catch_warnings():
                    warnings.simplefilter('ignore')
                    thunk = builder(legal)
                    res = thunk()
                if not legal:
                    ctx.violation(key, '{}: accepted although it must be rejected with {}; '
                                  'returned {}'.format(name, getattr(exc, '__name__', exc),
                                                       str(res)[:120].replace('\n', ' ')), desc)
            except Exception as e:  # noqa
                if legal:
                    ctx.violation(key, 'the nearest LEGAL neighbour of "{}" was rejected: {}: {}'
                                  .format(name, type(e).__name__, str(e)[:160]), desc)
                elif not isinstance(e, exc):
                    ctx.violation(key, '{}: raised {} ({}) instead of {}'.format(
                        name, type(e).__name__, str(e)[:100],
                        getattr(exc, '__name__', exc)), desc)
                else:
                    ctx.err('validation:' + stratum)
    # a rejected call must not have written anything: the input always, `out` for everything
    # that is refused by the argument checks (the pad-length guards of `_apply_padding` fire after
    # `out` was filled; the docstring does not promise an untouched `out` there)
    x = np.arange(8.0).reshape(2, 4)
    for name, kw in [('pad_mode', dict(pad_mode='wrap')), ('direction', dict(direction='back')),
                     ('offset-range', dict(offset=[2, 0])), ('offset-negative', dict(offset=[-1, 0])),
                     ('adjoint-pad_const', dict(pad_const=1, direction='adjoint')),
                     ('periodic-limit-input-only', dict(pad_mode='periodic'))]:
        ctx.case(None)
        ctx.hit('validation/nothing-written/' + name)
        shp = (3, 4) if name != 'periodic-limit-input-only' else (2, 9)
        out = np.full(shp, 7.0)
        arr = x.copy()
        try:
            resize_array(arr, shp, out=out, **kw)
            ctx.violation('validation nothing-written ' + name, 'the call was accepted', {})
        except Exception:  # noqa
            if not np.array_equal(arr, x):
                ctx.violation('validation nothing-written ' + name,
                              'the rejected call changed its input', dict(kind='validation'))
            if name != 'periodic-limit-input-only' and not np.all(out == 7.0):
                ctx.violation('validation nothing-written ' + name,
                              'the rejected call wrote into `out`: {}'.format(out.tolist()),
                              dict(kind='validation'))


# ---------------------------------------------------------------------------
# constant mode: (domain dtype) x (range dtype, via discr_kwargs / explicit range) x pad_const

SAFE_RANGE_DTYPES = {'int64': ['int64', 'float64', 'complex128'],
                     'float32': ['float32', 'float64', 'complex128'],
                     'float64': ['float64', 'complex128'],
                     'complex128': ['complex128']}


def padconst_choices(dom_dt, ran_dt):
    """(class, value) list: 0, representable in both dtypes, only in the range dtype, and the
    same values in other Python/NumPy number types."""
    out = [('zero', 0), ('both', 2), ('both-np', np.dtype(dom_dt).type(3))]
    kd, kr = np.dtype(dom_dt).kind, np.dtype(ran_dt).kind
    if kr == 'f':
        out.append(('fraction', Fraction(1, 4)))
        if kd == 'i':
            out += [('range-only', 0.5), ('range-only-np', np.float64(1.5))]
        if dom_dt == 'float32' and ran_dt == 'float64':
            out += [('range-only', 0.1), ('range-only-np', np.float64(0.1))]
    if kr == 'c':
        out += [('zero-complex', 0j)]
        if kd != 'c':
            out += [('range-only-pycomplex', 1 + 2j), ('range-only-npcomplex', np.complex128(2 - 1j)),
                    ('range-only-imag', 1j)]
        else:
            out += [('both-pycomplex', 1 + 2j)]
    return out


def padconst_plan():
    for dom_dt, rans in SAFE_RANGE_DTYPES.items():
        for ran_dt in rans:
            vias = ['same'] if ran_dt == dom_dt else ['kwargs', 'range']
            for via in vias:
                for cls, val in padconst_choices(dom_dt, ran_dt):
                    yield dom_dt, ran_dt, via, cls, val


def padconst_stratum(dom_dt, ran_dt, via, cls):
    return 'padconst/{}->{}/{}/{}'.format(dom_dt, ran_dt, via, cls)


def as_range_value(val, ran_dt):
    """pad_const converted to the range dtype, independently of the code under test."""
    if isinstance(val, Fraction):
        val = float(val)
    return np.array(val, dtype=ran_dt)[()]


def cfrac(z):
    z = complex(z)
    return Fraction(z.real), Fraction(z.imag)


def padconst_stream(ctx, deep=False, model=True):
    import odl
    import warnings
    rng = ctx.rng
    lines, answers, owners = [], [], []
    reps = 1 if (ctx.quick and not deep) else 3
    for dom_dt, ran_dt, via, cls, val in padconst_plan():
        for rep in range(reps):
            ndim = rng.choice([1, 1, 2])
            n = [rng.randint(1, 4) for _ in range(ndim)]
            pads = [(rng.randint(0, 2), rng.randint(0, 2)) for _ in range(ndim)]
            if all(l + r_ == 0 for l, r_ in pads):
                pads[0] = (1, 1)
            # one axis may shrink instead (the constant then only fills the growing ones)
            m = [nn + l + r_ for nn, (l, r_) in zip(n, pads)]
            offs = [l for l, _ in pads]
            cell = 0.5
            lo = [float(rng.randint(-3, 3)) for _ in range(ndim)]
            hi = [a + nn * cell for a, nn in zip(lo, n)]
            strat = padconst_stratum(dom_dt, ran_dt, via, cls)
            desc = dict(kind='padconst', dom_dtype=dom_dt, ran_dtype=ran_dt, via=via, cls=cls,
                        pad_const=repr(val), shape=n, newshape=m, off=offs,
                        vseed=rng.getrandbits(32))
            key = 'ResizingOperator pad_const ' + strat
            ctx.case(('padconst', dom_dt, ran_dt, via, cls))
            ctx.hit(strat)
            problems = []
            try:
                with warnings.catch_warnings():
                    warnings.simplefilter('ignore')
                    dom = odl.uniform_discr(lo, hi, n, dtype=dom_dt)
                    if via == 'range':
                        ran_in = odl.uniform_discr([a - o * cell for a, o in zip(lo, offs)],
                                                   [a - o * cell + mm * cell
                                                    for a, o, mm in zip(lo, offs, m)], m,
                                                   dtype=ran_dt)
                        op = odl.ResizingOperator(dom, ran_in, pad_mode='constant', pad_const=val)
                    elif via == 'kwargs':
                        op = odl.ResizingOperator(dom, ran_shp=m, offset=offs, pad_mode='constant',
                                                  pad_const=val, discr_kwargs={'dtype': ran_dt})
                    else:
                        op = odl.ResizingOperator(dom, ran_shp=m, offset=offs, pad_mode='constant',
                                                  pad_const=val)
                    cexp = as_range_value(val, ran_dt)
                    x = rand_data(random.Random(desc['vseed']), tuple(n), dom_dt)
                    res = op(dom.element(x)).asarray()
                    out = op.range.element()
                    op(dom.element(x), out=out)
                    if op.range.dtype != np.dtype(ran_dt) or res.dtype != np.dtype(ran_dt):
                        problems.append('range/result dtype {} / {}'.format(op.range.dtype,
                                                                           res.dtype))
                    if [int(o) for o in op.offset] != [o if mm != nn else 0
                                                       for o, nn, mm in zip(offs, n, m)]:
                        problems.append('offset {}'.format(op.offset))
                    widths = [(o, mm - nn - o) for o, nn, mm in zip(offs, n, m)]
                    exp = np.pad(x.astype(ran_dt), widths, mode='constant', constant_values=cexp)
                    if not np.array_equal(res, exp):
                        mask = np.ones(tuple(m), dtype=bool)
                        mask[tuple(slice(o, o + nn) for o, nn in zip(offs, n))] = False
                        problems.append('op(x) differs from np.pad(x.astype({}), constant_values='
                                        '{!r}): padded entries are {}'.format(
                                            ran_dt, cexp, np.unique(res[mask]).tolist()[:4]))
                    if not np.array_equal(out.asarray(), res):
                        problems.append('op(x, out=out) differs from op(x)')
                    if complex(op.pad_const) != complex(cexp):
                        problems.append('op.pad_const = {!r}, the constant converted to the range '
                                        'dtype is {!r}'.format(op.pad_const, cexp))
                    if bool(op.is_linear) != bool(cexp == 0):
                        problems.append('is_linear = {} although the padding constant is {!r}'
                                        .format(op.is_linear, cexp))
                    if op.is_linear:
                        y = rand_data(random.Random(desc['vseed'] + 1), tuple(m), ran_dt)
                        lhs = op(dom.element(x)).inner(op.range.element(y))
                        rhs = dom.element(x).inner(op.adjoint(op.range.element(y)))
                        # real domain, complex range: the operator is real-linear and the
                        # identity holds for the real inner product Re<.,.>
                        if np.dtype(dom_dt).kind != 'c' and np.dtype(ran_dt).kind == 'c':
                            lhs = complex(lhs).real
                        if complex(lhs) != complex(rhs):
                            problems.append('<Ax, y> = {} but <x, A*y> = {}'.format(lhs, rhs))
                    else:
                        try:
                            op.adjoint
                            problems.append('nonlinear operator exposes an adjoint')
                        except NotImplementedError:
                            pass
                        dz = op.derivative(dom.element(x))(dom.element(x)).asarray()
                        if not np.array_equal(dz, np.pad(x.astype(ran_dt), widths,
                                                         mode='constant')):
                            problems.append('derivative is not the zero-padding operator')
                    # model: real and imaginary part separately (exact values of the constant)
                    cre, cim = cfrac(cexp)
                    head = 'resize mode=constant dir=forward shape={} newshape={} off={}'.format(
                        fl(n), fl(m), fl(offs))
                    xr = np.real(x).ravel().tolist()
                    xi = np.imag(x).ravel().tolist()
                    lines.append(head + ' c={} data={}'.format(fs(cre), fl(xr)))
                    answers.append('ok r=' + fl(np.real(res).ravel().tolist()))
                    owners.append(desc)
                    lines.append(head + ' c={} data={}'.format(fs(cim), fl(xi)))
                    answers.append('ok r=' + fl(np.imag(res).ravel().tolist()))
                    owners.append(desc)
            except Exception as e:  # noqa
                problems.append('a legal call raised {}: {}'.format(type(e).__name__, str(e)[:160]))
            if problems:
                ctx.violation(key, '; '.join(problems)[:600], desc)
    # resize_array: arr dtype x out dtype x pad_const
    ra_plan = [
        ('int64', 'float64', 0.5, 'ok'), ('int64', 'float64', np.float64(1.5), 'ok'),
        ('int64', None, 2, 'ok'), ('int64', None, 0.5, 'refuse'), ('int64', 'int64', 0.5, 'refuse'),
        ('float64', 'complex128', 1 + 2j, 'ok'), ('float64', 'complex128', np.complex128(2 - 1j), 'ok'),
        ('float64', None, 1 + 2j, 'refuse'), ('float64', 'float64', 1j, 'refuse'),
        ('float32', 'float64', 0.1, 'ok'), ('float32', None, 0.25, 'ok'),
        ('float32', 'complex128', 1j, 'ok'), ('float64', 'int64', 0.5, 'refuse'),
        ('float64', 'int64', 3, 'ok'), ('complex128', 'complex128', 1 + 2j, 'ok'),
        ('uint8', 'int64', -2, 'ok'), ('uint8', None, -2, 'refuse'),
    ]
    for arr_dt, out_dt, val, want in ra_plan:
        strat = 'padconst/resize_array/{}->{}/{}'.format(arr_dt, out_dt or 'none', want)
        ctx.case(('padconst-ra', arr_dt, out_dt, want))
        ctx.hit(strat)
        n, l, r_ = rng.randint(1, 4), rng.randint(0, 2), rng.randint(1, 2)
        x = rand_data(random.Random(rng.getrandbits(32)), (n,), arr_dt)
        desc = dict(kind='padconst-ra', arr_dtype=arr_dt, out_dtype=out_dt, pad_const=repr(val),
                    data=[str(v) for v in x.tolist()], off=l, newlen=n + l + r_)
        res_dt = out_dt or arr_dt
        problems = []
        try:
            kw = dict(offset=l, pad_const=val)
            if out_dt:
                kw['out'] = np.full(n + l + r_, 9, dtype=out_dt)
            import warnings as _w
            with _w.catch_warnings():
                _w.simplefilter('ignore')
                res = resize_array(x, (n + l + r_,), **kw)
            if want == 'refuse':
                problems.append('pad_const {!r} is not representable in the result dtype {} but '
                                'was accepted: {}'.format(val, res_dt, res.tolist()))
            else:
                exp = np.pad(x.astype(res_dt), (l, r_), mode='constant',
                             constant_values=np.array(val, dtype=res_dt)[()])
                if res.dtype != np.dtype(res_dt) or not np.array_equal(res, exp):
                    problems.append('got {} ({}), expected {}'.format(res.tolist(), res.dtype,
                                                                      exp.tolist()))
                cre, cim = cfrac(np.array(val, dtype=res_dt)[()])
                head = 'resize mode=constant dir=forward shape={} newshape={} off={}'.format(
                    n, n + l + r_, l)
                lines.append(head + ' c={} data={}'.format(fs(cre), fl(np.real(x).tolist())))
                answers.append('ok r=' + fl(np.real(res).tolist()))
                owners.append(desc)
                lines.append(head + ' c={} data={}'.format(fs(cim), fl(np.imag(x).tolist())))
                answers.append('ok r=' + fl(np.imag(res).tolist()))
                owners.append(desc)
        except ValueError as e:
            if want != 'refuse':
                problems.append('a legal call raised ValueError: ' + str(e)[:160])
        except Exception as e:  # noqa
            problems.append('raised {}: {}'.format(type(e).__name__, str(e)[:160]))
        if problems:
            ctx.violation('resize_array pad_const ' + strat, '; '.join(problems)[:600], desc)
    if model and lines:
        outs = core.run_driver('C16', lines)
        for line, impl, ans, desc in zip(lines, answers, outs, owners):
            ctx.hit('padconst-model')
            if impl != ans:
                ctx.disagree({'kind': 'padconst', 'line': line[:300], 'case': desc}, impl[:300],
                             ans[:300], stream='pad_const x dtype')


# ---------------------------------------------------------------------------
# HISTORY stream: one kwargs dict / one operator / one input / one `out` reused across steps

def history_scenarios(ctx, count):
    rng = ctx.rng
    for _ in range(count):
        ndim = rng.choice([1, 1, 2])
        axes = []
        mode = rng.choice(MODES)
        for ax in range(ndim):
            n = rng.randint(3, 5)
            lim = {'periodic': n, 'symmetric': n - 1}.get(mode, 3)
            l, r = rng.randint(0, lim), rng.randint(0, lim)
            if l + r == 0:
                l = 1
            grow = rng.random() < 0.7
            axes.append(dict(n=n, l=l, r=r, grow=grow, m2=rng.randint(1, n - 1),
                             o2=0, lo=rng.randint(-4, 4), cell=rng.choice([0.25, 0.5, 1.0])))
            axes[-1]['o2'] = rng.randint(0, n - axes[-1]['m2'])
        opts = {}
        if rng.random() < 0.7:
            opts['dtype'] = rng.choice(['float32', 'float32', 'complex128'])
        if rng.random() < 0.5:
            opts['weighting'] = rng.choice([2.0, 0.5, 4.0])
        if rng.random() < 0.4:
            opts['exponent'] = rng.choice([1.0, 2.0])
        if rng.random() < 0.5:
            opts['nodes_on_bdry'] = True
        if not opts:
            opts['dtype'] = 'float32'
        yield dict(kind='history', mode=mode, axes=axes, opts=opts,
                   steps=rng.randint(2, 4), vseed=rng.getrandbits(32))


def run_history(ctx, sc, lines, answers, owners):
    """Returns problems [(tag, text)]; appends model lines."""
    import odl
    problems = []

    def bad(tag, text):
        problems.append((tag, text))
    mode, axes = sc['mode'], sc['axes']
    ndim = len(axes)
    r = random.Random(sc['vseed'])
    n = [a['n'] for a in axes]
    m = [a['n'] + a['l'] + a['r'] if a['grow'] else a['m2'] for a in axes]
    offs = [a['l'] if a['grow'] else a['o2'] for a in axes]
    lo = [float(a['lo']) for a in axes]
    hi = [a['lo'] + a['n'] * a['cell'] for a in axes]
    try:
        dom = odl.uniform_discr(lo, hi, n)
        # ---- (1) one discr_kwargs dict for several constructions
        kw = dict(sc['opts'])
        kw_before = dict(kw)
        ops = []
        for step in range(sc['steps']):
            shp = m if step % 2 == 0 else [mm + 1 for mm in m]
            of = offs if step % 2 == 0 else None
            ctx.case(None)
            ctx.hit('history/kwargs-reuse')
            try:
                op = odl.ResizingOperator(dom, ran_shp=shp, offset=of, pad_mode=mode,
                                          discr_kwargs=kw)
            except ValueError as e:
                if '`weighting.exponent` conflicts with `exponent`' in str(e) and \
                        kw_before.get('exponent', 2.0) != 2.0 and 'weighting' not in kw_before:
                    bad('exponent-conflict', 'ResizingOperator(space, ran_shp=..., discr_kwargs={}) '
                        'raises ValueError: {}'.format(kw_before, str(e)[:100]))
                    break
                raise
            if kw != kw_before:
                bad('kwargs-mutated', 'step {}: the caller\'s discr_kwargs dict was changed from '
                    '{} to {}'.format(step + 1, kw_before, kw))
                kw = dict(kw_before)      # continue the scenario with the intended options
            ran = op.range
            want_dtype = np.dtype(kw_before.get('dtype', dom.dtype))
            want_exp = kw_before.get('exponent', dom.exponent)
            want_w = kw_before.get('weighting', None)
            got = (ran.dtype, ran.exponent, float(getattr(ran.weighting, 'const', np.nan)))
            if ran.dtype != want_dtype or ran.exponent != want_exp or \
                    (want_w is not None and got[2] != want_w) or \
                    (want_w is None and got[2] != float(dom.weighting.const)):
                bad('range-options', 'construction {} with discr_kwargs={}: range has dtype {}, '
                    'exponent {}, weighting {}'.format(step + 1, kw_before, *got))
            nob = bool(kw_before.get('nodes_on_bdry', False))
            if [tuple(b) for b in ran.partition.nodes_on_bdry_byaxis] != [(nob, nob)] * ndim and \
                    all(s_ >= 2 for s_ in shp):
                bad('range-options', 'construction {}: nodes_on_bdry of the range is {}'.format(
                    step + 1, ran.partition.nodes_on_bdry_byaxis))
            ops.append(op)
        if len(ops) >= 3 and ops[0].range != ops[2].range:
            bad('range-history', 'the same construction repeated with the same dict gives another '
                'range: {} then {}'.format(ops[0].range, ops[2].range))
        # ---- (2) one operator, one input, one `out`, several calls
        op = odl.ResizingOperator(dom, ran_shp=m, offset=offs, pad_mode=mode)
        ran = op.range
        x = rand_data(r, tuple(n), 'float64')
        y = rand_data(r, tuple(m), 'float64')
        xe, ye = dom.element(x), ran.element(y)
        exp = expected_forward(x, tuple(m), offs, mode, 0)
        fbuf, abuf = ran.element(), dom.element()
        fbuf.asarray()  # touch
        WR = tensor_weights(ran) * bdry_weights(ran)
        WD = tensor_weights(dom) * bdry_weights(dom)
        st, raw = call_resize(dict(newshape=n, off=offs, mode=mode, c=0, dir='adjoint'), WR * y)
        aexp = raw / WD if st == 'ok' else None
        first_f = first_a = None
        for step in range(sc['steps'] + 1):
            ctx.case(None)
            ctx.hit('history/operator-reuse')
            variant = ['plain', 'out', 'out', 'fresh-property'][step % 4]
            if variant == 'out':
                f = op(xe, out=fbuf)
                a = op.adjoint(ye, out=abuf)
                if f is not fbuf or a is not abuf:
                    bad('call-out', 'step {}: out not returned'.format(step + 1))
            else:
                f = op(xe)
                a = op.adjoint(ye)
            f, a = f.asarray().copy(), a.asarray().copy()
            if exp is None or ilist(f) != ilist(exp):
                bad('forward-history', 'step {} ({}): op(x) differs from the np.pad-style '
                    'expectation'.format(step + 1, variant))
            if aexp is None or ilist(a) != ilist(aexp):
                bad('adjoint-history', 'step {} ({}): adjoint(y) = {} differs from W_dom^-1 R^T '
                    'W_ran y = {}'.format(step + 1, variant, a.ravel().tolist()[:6],
                                         None if aexp is None else aexp.ravel().tolist()[:6]))
            if first_f is None:
                first_f, first_a = f, a
            elif ilist(f) != ilist(first_f) or ilist(a) != ilist(first_a):
                bad('not-repeatable', 'step {} ({}): the same call on the same operator and input '
                    'gives another result than the first time'.format(step + 1, variant))
            if ilist(xe.asarray()) != ilist(x) or ilist(ye.asarray()) != ilist(y):
                bad('input-modified', 'step {} ({}): the input element was modified'.format(
                    step + 1, variant))
                xe, ye = dom.element(x), ran.element(y)
        inv1, inv2 = op.inverse, op.inverse
        if all(a_['grow'] for a_ in axes):
            for k, inv in enumerate((inv1, inv2, inv1)):
                if ilist(inv(op(xe)).asarray()) != ilist(x):
                    bad('inverse-history', 'inverse taken/applied the {}. time: inverse(op(x)) != x'
                        .format(k + 1))
        if op.adjoint.adjoint is not op:
            bad('adjoint-adjoint', 'adjoint.adjoint is not the operator')
        # model: forward result and adjoint result of the LAST step
        lines.append('resize mode={} dir=forward shape={} newshape={} off={} c=0 data={}'.format(
            mode, fl(n), fl(m), fl(offs), fl(x.ravel().tolist())))
        answers.append('ok r=' + fl(f.ravel().tolist()))
        owners.append(sc)
        lines.append('opadjnd mode={} shape={} newshape={} off={} wr={} wd={} data={}'.format(
            mode, fl(m), fl(n), fl(offs), fl(WR.ravel().tolist()), fl(WD.ravel().tolist()),
            fl(y.ravel().tolist())))
        answers.append('ok r=' + fl(a.ravel().tolist()))
        owners.append(sc)
        # ---- (3) resize_array: one input array and one `out` across modes and directions
        arr = rand_data(r, tuple(n), 'int64')
        arr0 = arr.copy()
        outs = {}
        for step in range(sc['steps'] + 2):
            ctx.case(None)
            ctx.hit('history/array-reuse')
            md = MODES[(MODES.index(mode) + step) % len(MODES)]
            d = 'forward' if step % 3 != 2 else 'adjoint'
            case = dict(kind='array', mode=md, dir=d, shape=list(n), newshape=list(m),
                        off=list(offs), c=0, dtype='int64', outkind='none', vseed=sc['vseed'] + step)
            out = outs.setdefault(tuple(m), np.full(tuple(m), 55, dtype='int64'))
            try:
                res = resize_array(arr, tuple(m), offset=offs, pad_mode=md, direction=d, out=out)
                status = 'ok'
            except Exception as e:  # noqa
                res, status = None, err_kind(e)
            if ilist(arr) != ilist(arr0):
                bad('array-input-modified', 'step {} ({} {}): the reused input array was modified'
                    .format(step + 1, md, d))
                arr = arr0.copy()
            for pr in oracle_array(case, arr0.copy(), status,
                                   None if res is None else res.copy(), False):
                bad('array-history', 'step {} ({} {} into a reused out): {}'.format(
                    step + 1, md, d, pr))
            lines.append('resize mode={} dir={} shape={} newshape={} off={} c=0 data={}'.format(
                md, d, fl(n), fl(m), fl(offs), fl(arr0.ravel().tolist())))
            answers.append(status if res is None else 'ok r=' + fl(res.ravel().tolist()))
            owners.append(sc)
    except Exception as e:  # noqa
        bad('exception', 'unexpected {}: {}'.format(type(e).__name__, str(e)[:200]))
    return problems


def history_stream(ctx, deep=False, model=True):
    count = 40 if (ctx.quick and not deep) else 300
    lines, answers, owners = [], [], []
    for sc in history_scenarios(ctx, count):
        problems = run_history(ctx, sc, lines, answers, owners)
        seen = set()
        for tag, text in problems:
            if tag not in seen:
                seen.add(tag)
                ctx.violation('history {} mode={} ndim={} options={}'.format(
                    tag, sc['mode'], len(sc['axes']), ','.join(sorted(sc['opts']))),
                    text[:600], dict(sc, tag=tag))
    if model and lines:
        outs = core.run_driver('C16', lines)
        for line, impl, ans, sc in zip(lines, answers, outs, owners):
            ctx.hit('history-model')
            if impl != ans:
                ctx.disagree({'kind': 'history', 'line': line[:300], 'case': sc}, impl[:300],
                             ans[:300], stream='history')


# ---------------------------------------------------------------------------

def regenerate(ctx):
    try:
        from extract import padslices
    except ImportError:
        return []
    changed, info = padslices.regenerate()
    ctx.extra['padslices_source'] = info
    src = 'outer source={} inner source={}'.format(info['outer'], info['inner'])
    if 'live' in (info['outer'], info['inner']):
        ctx.notes.append('Gen/PadSlices.lean: slice table obtained from the LIVE function, not '
                         'from the AST ({}); grids: {}'.format(
                             info.get('inner_why') or info.get('outer_why'), info.get('grids')))
    return [('extract(_padding_slices_inner/_outer, guards of _apply_padding -> '
             'Gen/PadSlices.lean)', True,
             ('regenerated' if changed else 'unchanged') + '; ' + src)]


def run(ctx):
    malformed_stream(ctx)
    nppad_stream(ctx)
    array_stream(ctx)
    operator_stream(ctx)
    derived_stream(ctx)
    tolerance_stream(ctx)
    boundary_stream(ctx)
    ownership_stream(ctx)
    validation_stream(ctx)
    padconst_stream(ctx)
    history_stream(ctx)
    # coverage of the model's branches by this run (a silent loss of coverage must be visible)
    expected = ['{}/{}/{}'.format(m, d, c) for m in MODES for d in DIRS
                for c in ('grow', 'shrink', 'same')]
    expected += ['nd/refAxes', 'nd/resizeND-direct/forward', 'nd/resizeND-direct/adjoint',
                 'nd/resizeND-direct/offset-refused',
                 'array/dtype=uint8', 'array/dtype=complex64', 'array/out-of-other-dtype',
                 'array/non-contiguous']
    expected += ['reference/' + m for m in MODES] + ['discr-model', 'opadj-model', 'opadjnd-model', 'offsp-model',
                 'operator/one-cell-axis', 'operator/ndim=3']
    expected += ['operator/inconsistent/' + k for ks in BAD_KINDS.values() for k in ks]
    expected += ['ownership/identity/{}/{}'.format(m_, d_) for m_ in MODES for d_ in DIRS]
    expected += ['ownership/operator/identity', 'ownership/operator/resize']
    expected += ['validation/' + st + sfx for _, st, _, _ in validation_cases()
                 for sfx in ('/rejected', '/legal-neighbour')]
    expected += [padconst_stratum(a, b, v, c) for a, b, v, c, _ in padconst_plan()]
    expected += ['padconst-model']
    expected += ['history/kwargs-reuse', 'history/operator-reuse', 'history/array-reuse',
                 'history-model']
    expected += ['derived/inverse/{}/{}'.format(m_, k_) for m_ in MODES
                 for k_ in ('extend', 'restrict', 'mixed')]
    expected += ['derived/derivative/linear/' + m_ for m_ in MODES]
    expected += ['derived/derivative/nonlinear', 'derived/adjoint/not-implemented',
                 'derived/inverse/refused-padding', 'derived/nodes-on-bdry', 'derived/ndim=3',
                 'opinv-model', 'opinv2-model', 'opderiv-model', 'opadjraw-model', 'invoff-model',
                 'derived/variant/range', 'derived/variant/ran_shp',
                 'derived/variant/ran_shp+offset']
    expected += ['tolerance/grow/zero/accepted', 'tolerance/grow/tiny/accepted',
                 'tolerance/grow/small/accepted', 'tolerance/grow/small/refused:shift-not-multiple',
                 'tolerance/grow/large/refused:shift-not-multiple',
                 'tolerance/shrink/small/accepted', 'tolerance/shrink/small/refused:shift-not-multiple',
                 'tolerance/same/tiny/accepted', 'tolerance/same/small/refused:shifted-unchanged',
                 'tolerance/grow/tiny/refused:not-contained', 'offsptol-model']
    expected += ['boundary/func/' + k_ for k_ in ('single', 'sequence', 'pairs', 'with-none')]
    expected += ['boundary/which/' + k_ for k_ in ('none', 'bools', 'pairs', 'mixed')]
    expected += ['boundary/order/' + k_ for k_ in ('default', 'permuted', 'negative')]
    expected += ['boundary/out/' + k_ for k_ in ('none', 'fresh', 'same')]
    expected += ['boundary/only_once=True', 'boundary/only_once=False', 'boundary/one-entry-axis',
                 'boundary/scale-bdry-cells/forward', 'boundary/scale-bdry-cells/inverse',
                 'helpers/constant-mode', 'boundary/custom-inner/plain',
                 'boundary/custom-inner/plain-vs-default',
                 'boundary/custom-inner/scaled', 'aob-model', 'scalebdry-model',
                 'derived/axes/none', 'derived/axes/some', 'derived/axes/all']
    expected += ['boundary/nodes_on_bdry-form/' + k_ for k_ in
                 ('scalar', 'per-axis-bools', 'mixed', 'pairs', '1d-pair', '1d-scalar',
                  '1d-nested')]
    expected_err = ['err:offset', 'err:padconst-adjoint', 'err:order0-empty', 'err:order1-short',
                    'err:periodic-too-long', 'err:symmetric-too-long']
    unhit = [b for b in expected if not ctx.branches.get(b)] + \
        [e for e in expected_err if not ctx.errors.get(e)]
    ctx.extra['unhit_model_branches'] = unhit
    if unhit and not ctx.quick:
        ctx.disagree({'kind': 'coverage'}, 'model branches never exercised', unhit,
                     stream='coverage')


def search(ctx, broken):
    """An obligation / the extraction / the correspondence broke but the oracle was silent in
    `run`: thorough enumeration of the oracle on the real code (no model involved)."""
    saved = ctx.tier
    ctx.tier = 'thorough'
    try:
        array_stream(ctx, deep=True, model=False)
        operator_stream(ctx, deep=True, model=False)
        derived_stream(ctx, deep=True, model=False)
        tolerance_stream(ctx, deep=True, model=False)
        boundary_stream(ctx, deep=True, model=False)
        history_stream(ctx, deep=True, model=False)
        padconst_stream(ctx, deep=True, model=False)
        ownership_stream(ctx)
        validation_stream(ctx)
    finally:
        ctx.tier = saved


def replay(ctx, case):
    if case.get('kind') == 'array':
        arr = case_data(case)
        arr0 = arr.copy()
        status, res = call_resize(case, arr)
        if ilist(arr) != ilist(arr0):
            return 'the input array was modified by the call'
        if not valid_offsets(case):
            return None if status == 'err:offset' or status.startswith('err:ValueError:') else \
                'offset outside [0, |n_new - n_orig|] was not refused: ' + status
        problems = oracle_array(case, arr, status, res, True)
        return '; '.join(problems) if problems else None
    if case.get('kind') == 'operator':
        problems, _, _ = run_op_case(ctx, case)
        problems = [t for tag, t in problems if case.get('tag') in (None, tag)]
        return '; '.join(problems) if problems else None
    if case.get('kind') == 'derived':
        problems, _, _, _ = run_derived_case(ctx, case)
        problems = [t for tag, t in problems if case.get('tag') in (None, tag)]
        return '; '.join(problems) if problems else None
    if case.get('kind') == 'boundary':
        problems, _, _ = run_boundary_case(ctx, case)
        problems = [t for tag, t in problems if case.get('tag') in (None, tag)]
        return '; '.join(problems) if problems else None
    if case.get('kind') in ('boundary-scale', 'helpers', 'bdry-forms', 'custom-inner'):
        sub = core.Ctx(ctx.pid, ctx.tier, ctx.seed)
        {'boundary-scale': scale_bdry_checks, 'helpers': helper_constant_checks,
         'bdry-forms': bdry_forms_checks, 'custom-inner': custom_inner_checks}[case['kind']](sub)
        hits = [v for v in sub.violations
                if all(v['replay'].get(k) == case.get(k) for k in ('kind', 'name', 'mode', 'n'))]
        return hits[0]['what'] if hits else None
    if case.get('kind') == 'tolerance':
        problems, _, _, _ = run_tolerance_case(ctx, case)
        problems = [t for tag, t in problems if case.get('tag') in (None, tag)]
        return '; '.join(problems) if problems else None
    if case.get('kind') in ('validation', 'ownership-op'):
        sub = core.Ctx(ctx.pid, 'thorough', ctx.seed)
        validation_stream(sub)
        ownership_stream(sub)
        hits = [v for v in sub.violations if v['replay'].get('name') == case.get('name') and
                v['replay'].get('legal') == case.get('legal') and
                v['replay'].get('kind') == case.get('kind')]
        return hits[0]['what'] if hits else None
    if case.get('kind') in ('padconst', 'padconst-ra'):
        sub = core.Ctx(ctx.pid, 'thorough', ctx.seed)
        padconst_stream(sub, deep=True, model=False)
        hits = [v for v in sub.violations
                if all(v['replay'].get(k) == case.get(k) for k in
                       ('kind', 'dom_dtype', 'ran_dtype', 'via', 'cls', 'arr_dtype', 'out_dtype',
                        'pad_const'))]
        return hits[0]['what'] if hits else None
    if case.get('kind') == 'history':
        problems = run_history(core.Ctx(ctx.pid, ctx.tier, ctx.seed), case, [], [], [])
        problems = [t for tag, t in problems if case.get('tag') in (None, tag)]
        return '; '.join(problems) if problems else None
    if case.get('kind') == 'malformed':
        sub = core.Ctx(ctx.pid, ctx.tier, ctx.seed)
        malformed_stream(sub)
        bad = [v for v in sub.violations if v['replay'].get('name') == case.get('name')]
        return bad[0]['what'] if bad else None
    return None
