"""C20 — sets and spaces: equality, hashing, membership and element creation are coherent.

Tie to /repo:
  (T) tools/extract/dtypes.py regenerates Gen/DTypeTables.lean (real/complex dtype maps and
      dtype classification) from the live `odl.util.utility` tables.
  (C) a zoo of several hundred live objects (every set / space / grid / partition / weighting
      class, equal-by-construction duplicates, near-duplicates differing in exactly one
      field, cross-class pairs).  `describe` reads from each live object exactly the
      attributes its `__eq__` / `__hash__` look at and sends the descriptors to the Lean
      driver; for ALL ordered pairs the implementation's `a == b` (True / False / raises)
      must equal the model's `eqO`, and wherever the model's hash keys are equal the
      implementation's hashes must be equal.  Likewise membership, `element(...)` decisions
      and the derived-space constructors (descriptor of the result vs the model's
      descriptor transformer).
Oracle (independent of the model, on the real code): `==` never raises, is reflexive,
symmetric and transitive (all triples, via the boolean matrix product), equal objects have
equal hashes and `hash` does not raise; `x in S` iff `x.space == S`; `S.element(x) is x` for
members; element values / dtype / shape errors; derived spaces; indexing commutes with
`asarray`.
Round 4 stream `run_set_membership`: random plain sets (every non-composite class, composites
nested to depth 3, built with odl's constructors and described from their live attributes) x
random and targeted values: `x in S` vs `PSet.mem`; all ordered pairs of ~26 (thorough ~70)
non-composite sets x atol in {none, 0, 1/4, 1, -1/4}: `A.contains_set(B)` vs
`PLeaf.containsSet`; number sets x all dtypes: `contains_all` vs `PLeaf.containsAllDtype`.
Oracles (independent of the model): membership by the documented meaning of each class written
against Python / NumPy types only; membership respects `==` (separately built equal set);
contains_set by the documented tower / end-point test, sound w.r.t. membership on probes,
reflexive, transitive, monotone in atol; contains_all by np.dtype.kind.
"""
import hashlib
import itertools

import numpy as np

from vf import core
from vf.core import fs

RULE = ('zoo objects are built from a fixed list of recipes (class x field variations) plus a '
        'few random base spaces with one-field variants; most of the ordered pairs are '
        'cross-class and trivially unequal.  A pair case is non-trivial when both objects have '
        'the same class; distinct = distinct (class, outcome, differing-field) signatures for '
        'pairs, (space kind, input kind, outcome) for element(), (constructor, space kind, '
        'argument class) for derived spaces, (table, dtype) for the dtype tables.  "All pairs / '
        'all triples" is exhaustive over the zoo, not over the quantifier of the property.')
TRUSTED = ['harness `describe` (reads the attributes used by __eq__/__hash__ from live objects)',
           'translator tools/extract/dtypes.py (dtype tables -> Gen/DTypeTables.lean); the '
           'tables themselves are checked against NumPy (np.dtype.kind, np.promote_types, '
           'np.finfo) by the oracle',
           'Python semantics of ==, hash(tuple), hash(frozenset), tuple containment, slice.indices, '
           'NumPy broadcasting of == and basic/fancy index shapes (modelled in Model/Spaces.lean)']
ASSUMPTIONS = ['NaN exponents / coordinates are outside the model (constructors reject NaN '
               'coordinates and constants)',
               'custom inner/norm/dist callables in the MODEL are plain functions (compared by '
               'identity); bound methods and functools.partial objects are in the zoo for the '
               'oracle only',
               'FiniteSet atoms in the MODEL are ints and strings; float atoms, unhashable atoms '
               'and NumPy-array atoms are in the zoo for the oracle only (array atoms: finding '
               'C20-F10)',
               'composite sets (CartesianProduct, SetUnion, SetIntersection) in the MODEL have '
               'non-composite, non-FiniteSet members; composites with FiniteSet members and '
               'nested composites are in the zoo for the oracle only',
               'MatrixWeighting, directly instantiated base-class weightings and byte-swapped '
               'dtypes are in the zoo for the oracle only (no model)',
               'element(): conversion of values is modelled exactly only for dyadic values with '
               '<= 11 significant bits and magnitude < 128, non-negative for unsigned targets '
               '(castVal?); the generator stays inside that range; complex inputs offered to '
               'real spaces (NumPy warning / TypeError), non-writeable inputs (copy) and '
               "order='F' are not modelled",
               'membership stream (x in S, contains_set, contains_all): values are None, bool, '
               'Python / NumPy int, float, complex scalars on a dyadic grid, text over the '
               'alphabet "abxy" (text that parses as a number converts in np.array(.., dtype=float) '
               'and is outside the model), tuples / lists nested to depth 2 (list vs tuple is not '
               'distinguished); interval products have finite bounds; np.bool_ values, NumPy arrays '
               'as values, FiniteSets with NumPy-scalar elements (finding C20-F14: oracle only), '
               'RectGrid / space members, contains_all of list / meshgrid / (d, N)-array forms and '
               'IntervalProd.contains_all are not modelled',
               'array contents are fixed while hashes are compared (array-weighting hashes '
               'depend on mutable content by design)']
EXPECTED_BRANCHES = [
    'byaxis/NumpyTensorSpace/ok', 'byaxis/NumpyTensorSpace/ok/array-weighting',
    'byaxis/NumpyTensorSpace/raise/array-weighting', 'astype/NumpyTensorSpace/ok',
    'astype/NumpyTensorSpace/raise', 'astype/DiscretizedSpace/ok', 'astype/ProductSpace/ok',
    'astype/ProductSpace/raise', 'real_space/NumpyTensorSpace/ok',
    'real_space/NumpyTensorSpace/raise', 'complex_space/NumpyTensorSpace/ok',
    'complex_space/NumpyTensorSpace/raise', 'contains/t', 'contains/f',
    'element/NumpyTensorSpace/same', 'element/NumpyTensorSpace/T',
    'element/NumpyTensorSpace/errValue', 'element/DiscretizedSpace/same',
    'element/DiscretizedSpace/D', 'element/DiscretizedSpace/errValue',
    'element/ProductSpace/same', 'element/ProductSpace/P', 'element/ProductSpace/errValue',
    'element/ProductSpace/errType', 'pindex/int/ok', 'pindex/int/raise', 'pindex/slice/ok',
    'pindex/list/ok'] + ['eq/{}/{}'.format(c, o) for c in (
        'CartesianProduct', 'SetUnion', 'SetIntersection', 'FiniteSet', 'IntervalProd', 'RectGrid',
        'RectPartition', 'NumpyTensorSpace', 'DiscretizedSpace', 'ProductSpace', 'Strings',
        'NumpyTensorSpaceConstWeighting', 'NumpyTensorSpaceArrayWeighting',
        'ProductSpaceConstWeighting', 'ProductSpaceArrayWeighting',
        'NumpyTensorSpaceCustomInner', 'ProductSpaceCustomInner') for o in 'tf'] + [
    'history/{}/{}'.format(k, o) for k in ('NumpyTensorSpace', 'DiscretizedSpace', 'ProductSpace')
    for o in ('astype', 'real_space', 'complex_space')] + [
    'history/NumpyTensorSpace/elem-real-imag', 'history/DiscretizedSpace/elem-real-imag'] + [
    'history/chain/{}>{}'.format(a, b) for a in ('real_space', 'complex_space', 'astype')
    for b in ('real_space', 'complex_space', 'astype')] + [
    'history/dtype/' + d for d in ('float16', 'float32', 'float64', 'float128', 'complex64',
                                   'complex128', 'complex256', 'int8', 'int64', 'uint8',
                                   'bool')] + [
    # OPTIONS stream: element/<space kind>/<input kind>/<option>
    'element/{}/{}/order={}'.format(k, i, o)
    for k, extra in (('NumpyTensorSpace', ()),
                     ('DiscretizedSpace', ('tspace-element', 'equal-tspace-element',
                                           'callable-vectorized', 'callable-with-parameter')))
    for i in ('own-element', 'own-element-F', 'equal-space-element', 'other-dtype-element',
              'ndarray-C', 'ndarray-F', 'ndarray-strided', 'ndarray-other-dtype',
              'ndarray-readonly', 'nested-list', 'wrong-shape', 'extra-axis') + extra
    for o in (None, 'C', 'F')] + [
    'element/NumpyTensorSpace/data_ptr/data_ptr,order={}'.format(o) for o in ('C', 'F', None)] + [
    'element/ProductSpace/{}/cast={}'.format(i, c)
    for i in ('own-element', 'equal-space-element', 'list-of-own-members', 'tuple-of-own-members',
              'list-of-equal-space-members', 'tuple-of-equal-space-members',
              'list-own-and-equal-mixed', 'list-of-arrays', 'nested-lists',
              'list-member-and-array', 'stacked-2d-array', 'stacked-2d-array-F',
              'stacked-2d-array-wrong-length', 'list-too-short', 'list-too-long',
              'list-last-other-dtype-element')
    for c in (True, False)]
# round 4: membership in plain sets
EXPECTED_BRANCHES += ['mem/{}/{}'.format(c, o) for c in (
    'EmptySet', 'Strings', 'ComplexNumbers', 'RealNumbers', 'Integers', 'IntervalProd',
    'FiniteSet', 'CartesianProduct', 'SetUnion', 'SetIntersection') for o in 'tf'] + [
    'mem/UniversalSet/t', 'cset/UniversalSet/t', 'cset/IntervalProd/e'] + [
    'cset/{}/{}'.format(c, o) for c in ('EmptySet', 'Strings', 'ComplexNumbers', 'RealNumbers',
                                        'Integers', 'IntervalProd', 'FiniteSet') for o in 'tf'] + [
    'call/{}/{}'.format(c, o) for c in ('complex', 'real', 'integers') for o in 'tf']
# round 5: API strata (oracle only)
EXPECTED_BRANCHES += [
    'approxeq/same-ndim/t', 'approxeq/same-ndim/f', 'approxeq/other-ndim/f',
    'api/discr-attributes',
    'api/element-astype/DiscretizedSpace',
    'api/element-astype/NumpyTensorSpace',
    'api/element-eq/DiscretizedSpace',
    'api/element-eq/NumpyTensorSpace',
    'api/element-eq/ProductSpace',
    'api/element-from-power-space-element',
    'api/element-real-imag-conj/DiscretizedSpace',
    'api/element-real-imag-conj/NumpyTensorSpace',
    'api/element-real-imag-conj/ProductSpace',
    'api/field-of-field',
    'api/grid-approx-contains',
    'api/grid-approx-equals',
    'api/grid-contains',
    'api/grid-derived-members',
    'api/grid-is-subgrid',
    'api/interval-approx-equals',
    'api/interval-approx-equals-other-ndim',
    'api/interval-element',
    'api/partition-approx-equals',
    'api/partition-fromgrid',
    'api/partition-index',
    'api/pow-mul/DiscretizedSpace',
    'api/pow-mul/NumpyTensorSpace',
    'api/pow-mul/ProductSpace',
    'api/pspace-attributes',
    'api/set-contains-all-default/FiniteSet',
    'api/set-element-default/CartesianProduct',
    'api/set-element-default/ComplexNumbers',
    'api/set-element-default/EmptySet',
    'api/set-element-default/FiniteSet',
    'api/set-element-default/Integers',
    'api/set-element-default/IntervalProd',
    'api/set-element-default/RealNumbers',
    'api/set-element-default/SetIntersection',
    'api/set-element-default/SetUnion',
    'api/set-element-default/Strings',
    'api/set-element-default/UniversalSet',
    'api/set-element-member/CartesianProduct',
    'api/set-element-member/ComplexNumbers',
    'api/set-element-member/EmptySet',
    'api/set-element-member/FiniteSet',
    'api/set-element-member/Integers',
    'api/set-element-member/IntervalProd',
    'api/set-element-member/IntervalProd-1d-sequence',
    'api/set-element-member/RealNumbers',
    'api/set-element-member/SetUnion',
    'api/set-element-member/Strings',
    'api/set-element-member/UniversalSet',
    'api/set-getitem-int/CartesianProduct',
    'api/set-getitem-int/FiniteSet',
    'api/set-getitem-int/SetIntersection',
    'api/set-getitem-int/SetUnion',
    'api/set-getitem-slice/CartesianProduct',
    'api/set-getitem-slice/FiniteSet',
    'api/set-getitem-slice/SetIntersection',
    'api/set-getitem-slice/SetUnion',
    'api/strings-contains-all/list',
    'api/strings-contains-all/ndarray',
    'api/strings-contains-all/ndarray-uneven-lengths',
    'api/vector',
    'api/weighting-equiv/NumpyTensorSpaceArrayWeighting',
    'api/weighting-equiv/NumpyTensorSpaceConstWeighting',
    'api/weighting-equiv/ProductSpaceArrayWeighting',
    'api/weighting-equiv/ProductSpaceConstWeighting',
    'api/weighting-equiv/const-vs-full-array',
    'api/weighting-equiv/MatrixWeighting-vs-array-and-const',
    'api/weighting-equiv/MatrixWeighting-vs-matrix',
    'api/zero-one/DiscretizedSpace',
    'api/zero-one/NumpyTensorSpace',
    'api/zero-one/ProductSpace',
]
KNOWN_EXPLAINS_DISAGREEMENT = False


# ---------------------------------------------------------------------------
# descriptors

def flw(x):
    """wire form of a float (non-NaN)"""
    x = float(x)
    if x != x:
        raise ValueError('NaN')
    if x == float('inf'):
        return 'inf'
    if x == float('-inf'):
        return '-inf'
    if x == 0.0 and np.signbit(x):
        return '-0'
    return fs(x)


def L(items):
    return 'L(' + ','.join(items) + ')'


class Reg:
    """identity tokens for arrays and callables"""

    def __init__(self):
        self.ids = {}
        self.keep = []
        self.frozen = False   # True: objects not seen so far are "fresh" (token 0)

    def tok(self, obj):
        k = id(obj)
        if k not in self.ids and self.frozen:
            return 0
        if k not in self.ids:
            self.ids[k] = len(self.ids) + 1
            self.keep.append(obj)
        return self.ids[k]


DTYPE_NAMES = {'bool', 'int8', 'int16', 'int32', 'int64', 'uint8', 'uint16', 'uint32', 'uint64',
               'float16', 'float32', 'float64', 'float128', 'complex64', 'complex128',
               'complex256'}


def dtype_w(dt):
    dt = np.dtype(dt)
    if not dt.isnative:
        raise ValueError('byte-swapped dtype outside the model: {}'.format(dt))
    if dt.name in DTYPE_NAMES:
        return dt.name
    if dt.kind == 'S':
        return 'bytes{}'.format(dt.itemsize)
    if dt.kind == 'U':
        return 'str{}'.format(dt.itemsize // 4)
    raise ValueError('dtype outside the model: {}'.format(dt))


def describe_weighting(w, reg):
    name = type(w).__name__
    fam = {'NumpyTensorSpace': 'np', 'ProductSpace': 'ps'}
    for prefix, f in fam.items():
        if name.startswith(prefix):
            kind = name[len(prefix):]
            break
    else:
        raise ValueError('weighting class outside the model: ' + name)
    if w.impl != 'numpy':
        raise ValueError('impl outside the model')
    if kind == 'ConstWeighting':
        return 'wc({},{},{})'.format(f, flw(w.const), flw(w.exponent))
    if kind == 'ArrayWeighting':
        arr = w.array
        digest = hashlib.sha1(arr.tobytes()).hexdigest()[:16]
        return 'wa({},{},{},{})'.format(f, reg.tok(arr), digest, flw(w.exponent))
    if kind in ('CustomInner', 'CustomNorm', 'CustomDist'):
        import types
        fn = {'CustomInner': 'inner', 'CustomNorm': 'norm', 'CustomDist': 'dist'}[kind]
        call = getattr(w, fn)
        if not isinstance(call, types.FunctionType):
            raise ValueError('callable that is not a plain function (compared with its own '
                             '__eq__, not by identity): oracle only')
        return 'w{}({},{})'.format(fn[0], f, reg.tok(call))
    raise ValueError('weighting class outside the model: ' + name)


def describe_interval(ip):
    return 'ip({},{})'.format(L(flw(v) for v in ip.min_pt), L(flw(v) for v in ip.max_pt))


def describe_grid(g):
    return 'gr({})'.format(L(L(flw(v) for v in cv) for cv in g.coord_vectors))


def describe_partition(p):
    return 'pt({},{})'.format(describe_interval(p.set), describe_grid(p.grid))


def describe_space(s, reg):
    import odl
    from odl.space.npy_tensors import NumpyTensorSpace
    if type(s) is NumpyTensorSpace:
        return 'ts({},{},{})'.format(L(str(int(n)) for n in s.shape), dtype_w(s.dtype),
                                     describe_weighting(s.weighting, reg))
    if type(s) is odl.DiscretizedSpace:
        p = s.partition
        if tuple(p.shape) != tuple(s.tspace.shape) or p.set.ndim != p.grid.ndim:
            raise ValueError('constructor invariant broken')
        if type(s.tspace) is not NumpyTensorSpace:
            raise ValueError('tspace class outside the model')
        axes = ['ax({},{},{})'.format(flw(p.set.min_pt[i]), flw(p.set.max_pt[i]),
                                      L(flw(v) for v in p.grid.coord_vectors[i]))
                for i in range(p.ndim)]
        return 'ds({},{},{})'.format(L(axes), dtype_w(s.tspace.dtype),
                                     describe_weighting(s.tspace.weighting, reg))
    if type(s) is odl.ProductSpace:
        f = s.field
        fld = ('real' if isinstance(f, odl.RealNumbers) else
               'complex' if isinstance(f, odl.ComplexNumbers) else 'none')
        return 'ps({},{},{})'.format(L(describe_space(c, reg) for c in s.spaces),
                                     describe_weighting(s.weighting, reg), fld)
    raise ValueError('space class outside the model: ' + type(s).__name__)


def describe_leaf(o, reg):
    import odl
    t = type(o)
    if t is odl.EmptySet:
        return 'empty'
    if t is odl.UniversalSet:
        return 'universal'
    if t is odl.Strings:
        return 'strings({})'.format(int(o.length))
    if t is odl.ComplexNumbers:
        return 'complex'
    if t is odl.RealNumbers:
        return 'real'
    if t is odl.Integers:
        return 'integers'
    if t is odl.IntervalProd:
        return describe_interval(o)
    if t is odl.RectGrid:
        return describe_grid(o)
    if t is odl.FiniteSet:
        items = []
        for e in o.elements:
            if isinstance(e, bool) or not isinstance(e, (int, str)):
                raise ValueError('atom outside the model')
            items.append('i({})'.format(e) if isinstance(e, int) else 's({})'.format(e))
        return 'fin({})'.format(L(items))
    return describe_space(o, reg)


def describe(o, reg):
    import odl
    from odl.space.weighting import Weighting
    t = type(o)
    if t in (odl.CartesianProduct, odl.SetUnion, odl.SetIntersection):
        for m in o.sets:
            if isinstance(m, (odl.FiniteSet, odl.CartesianProduct, odl.SetUnion,
                              odl.SetIntersection)):
                raise ValueError('composite with FiniteSet / composite members: oracle only')
    if t is odl.CartesianProduct:
        return 'cart({})'.format(L(describe_leaf(m, reg) for m in o.sets))
    if t is odl.SetUnion:
        return 'union({})'.format(L(describe_leaf(m, reg) for m in o.sets))
    if t is odl.SetIntersection:
        return 'inter({})'.format(L(describe_leaf(m, reg) for m in o.sets))
    if t is odl.RectPartition:
        return describe_partition(o)
    if isinstance(o, Weighting):
        return describe_weighting(o, reg)
    return describe_leaf(o, reg)


# ---------------------------------------------------------------------------
# the zoo

def _f_inner(x, y):
    return float(np.vdot(y.data, x.data).real)


def _g_inner(x, y):
    return 2 * float(np.vdot(y.data, x.data).real)


def _f_norm(x):
    return float(np.linalg.norm(x.data))


def _g_norm(x):
    return 2 * float(np.linalg.norm(x.data))


def _f_dist(x, y):
    return float(np.linalg.norm(x.data - y.data))


def _pf_inner(x, y):
    return sum(float(np.vdot(b.data, a.data).real) for a, b in zip(x, y))


def _pf_norm(x):
    return float(np.sqrt(sum(float(np.vdot(a.data, a.data).real) for a in x)))


class _Helper(object):
    def norm(self, x):
        return float(np.linalg.norm(x.data))


_HELPER = _Helper()
import functools  # noqa
_PARTIAL_NORM = functools.partial(lambda c, x: c * float(np.linalg.norm(x.data)), 2.0)
M3 = np.diag([1.0, 2.0, 3.0])
M3_COPY = M3.copy()
W3 = np.array([1.0, 2.0, 3.0])
W3_COPY = W3.copy()                     # equal content, different identity
W3_OTHER = np.array([1.0, 2.0, 4.0])
W23 = np.array([[1.0, 2.0, 3.0], [4.0, 5.0, 6.0]])
PW2 = np.array([1.0, 2.0])
PW2_COPY = PW2.copy()
PW3 = np.array([1.0, 2.0, 3.0])


def build_zoo(ctx):
    """List of (recipe name, class tag, object).  Every recipe is evaluated by a thunk so
    that a constructor raising in a mutated tree is reported, not a crash."""
    import odl
    from odl.space.npy_tensors import (NumpyTensorSpaceConstWeighting,
                                       NumpyTensorSpaceArrayWeighting,
                                       NumpyTensorSpaceCustomInner, NumpyTensorSpaceCustomNorm,
                                       NumpyTensorSpaceCustomDist)
    from odl.space.pspace import (ProductSpaceConstWeighting, ProductSpaceArrayWeighting,
                                  ProductSpaceCustomInner, ProductSpaceCustomNorm,
                                  ProductSpaceCustomDist)
    from odl.space.weighting import MatrixWeighting, ConstWeighting, ArrayWeighting
    rng = ctx.rng
    R = []

    def add(name, thunk, dup=True):
        """dup: also build a second object from the same recipe (equal by construction)"""
        R.append((name, thunk, 0))
        if dup:
            R.append((name, thunk, 1))

    # --- basic sets
    for nm, cls in [('EmptySet', odl.EmptySet), ('UniversalSet', odl.UniversalSet),
                    ('ComplexNumbers', odl.ComplexNumbers), ('RealNumbers', odl.RealNumbers),
                    ('Integers', odl.Integers)]:
        add(nm, cls)
    for n in (1, 2, 3):
        add('Strings({})'.format(n), lambda n=n: odl.Strings(n), dup=(n == 2))
    for els in [(1, 2, 3), (3, 2, 1), (1, 2), (1, 2, 3, 3), ('a', 1), (1, 'a'), ('a',), ('b',),
                (7,), ()]:
        add('FiniteSet{}'.format(els), lambda els=els: odl.FiniteSet(*els), dup=(els == (1, 2, 3)))
    # atoms outside the model (oracle only): floats equal to ints, unhashable atoms, arrays
    add('FiniteSet(1.0, 2)', lambda: odl.FiniteSet(1.0, 2), dup=False)
    add('FiniteSet([1, 2])', lambda: odl.FiniteSet([1, 2]), dup=True)
    add('FiniteSet(array([1, 2]))', lambda: odl.FiniteSet(np.array([1, 2])), dup=True)
    # --- interval products
    ips = [([0], [1]), ([0], [2]), ([-0.0], [1]), ([0], [0]), ([-1], [1]),
           ([float('-inf')], [float('inf')]), ([0], [float('inf')]),
           ([0, 0], [1, 1]), ([0, 0], [1, 2]), ([0, 1], [1, 1]), ([0, -0.0], [1, 1]),
           ([0, 0, 0], [1, 1, 1]), ([0, 0, 0], [1, 1, 2]), ([0, 0, 0], [1, 2, 1]),
           ([0, 0, 0, 0], [1, 1, 1, 1]), ([0.5], [0.75])]
    for k in range(2 if ctx.quick else 8):
        d = rng.randint(1, 3)
        lo = [rng.randint(-8, 8) / 4 for _ in range(d)]
        hi = [v + rng.randint(0, 8) / 4 for v in lo]
        ips.append((lo, hi))
    for lo, hi in ips:
        add('IntervalProd({},{})'.format(lo, hi),
            lambda lo=lo, hi=hi: odl.IntervalProd(lo, hi), dup=(len(lo) <= 2 and hi[0] == 1))
    # --- grids
    grids = [([0.0, 1.0],), ([0.0, 1.0, 2.0],), ([-0.0, 1.0],), ([0.0, 1.0, 3.0],), ([0.5],),
             ([0.0, 1.0], [0.0, 1.0]), ([0.0, 1.0], [0.0, 2.0]), ([0.0, 1.0], [-0.0, 1.0]),
             ([0.0, 1.0, 2.0], [0.0, 1.0]), ([0.0, 1.0], [0.0, 1.0, 2.0]),
             ([0.0, 1.0], [0.0, 1.0], [0.0, 1.0]), ([-1.0, 0.0, 1.0],), ([-1.0, -0.0, 1.0],),
             # same shape and end points, exactly one INTERIOR coordinate differs
             ([0.0, 1.0, 2.0, 3.0],), ([0.0, 1.0, 2.5, 3.0],), ([0.0, 0.5, 2.5, 3.0],),
             ([0.0, 1.0, 2.0], [0.0, 1.0, 2.0, 3.0]), ([0.0, 1.0, 2.0], [0.0, 1.0, 2.5, 3.0]),
             ([0.0, 0.5, 2.0], [0.0, 1.0, 2.0, 3.0])]
    for k in range(2 if ctx.quick else 10):
        n = rng.randint(3, 6)
        base = [float(i) for i in range(n)]
        j = rng.randint(1, n - 2)
        moved = list(base)
        moved[j] += rng.choice([-0.5, 0.25, 0.5])
        grids.append((base,))
        grids.append((moved,))
    for vs in grids:
        add('RectGrid{}'.format(vs), lambda vs=vs: odl.RectGrid(*vs),
            dup=(len(vs) == 1 and len(vs[0]) <= 2))
    # --- partitions
    parts = [
        ('up(0,1,2)', lambda: odl.uniform_partition(0, 1, 2), True),
        ('up(0,1,3)', lambda: odl.uniform_partition(0, 1, 3), False),
        ('up(0,2,2)', lambda: odl.uniform_partition(0, 2, 2), False),
        ('up(0,1,2,nodes)', lambda: odl.uniform_partition(0, 1, 2, nodes_on_bdry=True), False),
        ('up(0,1,2,nodesL)', lambda: odl.uniform_partition(0, 1, 2,
                                                          nodes_on_bdry=[(True, False)]), False),
        ('up(-1,1,3,nodes)', lambda: odl.uniform_partition(-1, 1, 3, nodes_on_bdry=True), False),
        ('part(-1,1;[-1,-0,1])', lambda: odl.RectPartition(
            odl.IntervalProd(-1, 1), odl.RectGrid([-1.0, -0.0, 1.0])), False),
        ('nup([0,2,3])', lambda: odl.nonuniform_partition([0, 2, 3]), True),
        ('nup([0,2,3],min=-1)', lambda: odl.nonuniform_partition([0, 2, 3], min_pt=-1), False),
        ('up2((0,0),(1,1),(2,2))', lambda: odl.uniform_partition([0, 0], [1, 1], (2, 2)), True),
        ('up2((0,0),(1,1),(2,3))', lambda: odl.uniform_partition([0, 0], [1, 1], (2, 3)), False),
        ('up2((0,0),(1,2),(2,2))', lambda: odl.uniform_partition([0, 0], [1, 2], (2, 2)), False),
        ('up3', lambda: odl.uniform_partition([0, 0, 0], [1, 1, 1], (2, 2, 2)), False),
        ('up3b', lambda: odl.uniform_partition([0, 0, 0], [1, 1, 2], (2, 2, 2)), False),
        ('up4', lambda: odl.uniform_partition([0] * 4, [1] * 4, (2,) * 4), False),
        ('part(0,1;[0.5])', lambda: odl.RectPartition(
            odl.IntervalProd(0, 1), odl.RectGrid([0.5])), False),
        ('part(0,3;[0,1,2,3])', lambda: odl.RectPartition(
            odl.IntervalProd(0, 3), odl.RectGrid([0.0, 1.0, 2.0, 3.0])), False),
        ('part(0,3;[0,1,2.5,3])', lambda: odl.RectPartition(
            odl.IntervalProd(0, 3), odl.RectGrid([0.0, 1.0, 2.5, 3.0])), False),
        ('part(0,3;[0,.5,2.5,3])', lambda: odl.RectPartition(
            odl.IntervalProd(0, 3), odl.RectGrid([0.0, 0.5, 2.5, 3.0])), False),
    ]
    for nm, th, dup in parts:
        add('RectPartition:' + nm, th, dup=dup)
    # --- weightings
    wts = [
        ('npC(1)', lambda: NumpyTensorSpaceConstWeighting(1.0), True),
        ('npC(2)', lambda: NumpyTensorSpaceConstWeighting(2.0), True),
        ('npC(2,e1)', lambda: NumpyTensorSpaceConstWeighting(2.0, exponent=1.0), False),
        ('npC(2,einf)', lambda: NumpyTensorSpaceConstWeighting(2.0, exponent=float('inf')), True),
        ('npC(1,e1.5)', lambda: NumpyTensorSpaceConstWeighting(1.0, exponent=1.5), False),
        ('psC(1)', lambda: ProductSpaceConstWeighting(1.0), True),
        ('psC(2)', lambda: ProductSpaceConstWeighting(2.0), False),
        ('psC(2,e1)', lambda: ProductSpaceConstWeighting(2.0, exponent=1.0), False),
        ('npA(W3)', lambda: NumpyTensorSpaceArrayWeighting(W3), True),
        ('npA(W3copy)', lambda: NumpyTensorSpaceArrayWeighting(W3_COPY), False),
        ('npA(W3other)', lambda: NumpyTensorSpaceArrayWeighting(W3_OTHER), False),
        ('npA(W3,e1)', lambda: NumpyTensorSpaceArrayWeighting(W3, exponent=1.0), False),
        ('psA(W3)', lambda: ProductSpaceArrayWeighting(W3), True),
        ('psA(PW2)', lambda: ProductSpaceArrayWeighting(PW2), False),
        ('psA(PW2,e1)', lambda: ProductSpaceArrayWeighting(PW2, exponent=1.0), False),
        ('npI(f)', lambda: NumpyTensorSpaceCustomInner(_f_inner), True),
        ('npI(g)', lambda: NumpyTensorSpaceCustomInner(_g_inner), False),
        ('npN(f)', lambda: NumpyTensorSpaceCustomNorm(_f_norm), True),
        ('npN(g)', lambda: NumpyTensorSpaceCustomNorm(_g_norm), False),
        ('npD(f)', lambda: NumpyTensorSpaceCustomDist(_f_dist), True),
        ('npN(f_inner)', lambda: NumpyTensorSpaceCustomNorm(_f_inner), False),
        ('psI(f)', lambda: ProductSpaceCustomInner(_pf_inner), True),
        ('psI(npf)', lambda: ProductSpaceCustomInner(_f_inner), False),
        ('psN(f)', lambda: ProductSpaceCustomNorm(_pf_norm), False),
        ('psD(f)', lambda: ProductSpaceCustomDist(_f_dist), False),
        # classes without a model (oracle only): MatrixWeighting, directly instantiated bases
        ('Matrix(M3)', lambda: MatrixWeighting(M3, impl='numpy'), True),
        ('Matrix(M3copy)', lambda: MatrixWeighting(M3_COPY, impl='numpy'), False),
        ('Matrix(M3,e1)', lambda: MatrixWeighting(M3, impl='numpy', exponent=1.0), False),
        ('baseC(2)', lambda: ConstWeighting(2.0, impl='numpy'), True),
        ('baseA(W3)', lambda: ArrayWeighting(W3, impl='numpy'), True),
        ('npN(bound)', lambda: NumpyTensorSpaceCustomNorm(_HELPER.norm), True),
    ]
    for nm, th, dup in wts:
        add('Weighting:' + nm, th, dup=dup)
    # --- tensor spaces
    tss = [
        ('rn(3)', lambda: odl.rn(3), True),
        ('rn(3,e=2)', lambda: odl.rn(3, exponent=2), False),
        ('rn(3,w=1)', lambda: odl.rn(3, weighting=1.0), False),
        ('rn(4)', lambda: odl.rn(4), False),
        ('rn((3,1))', lambda: odl.rn((3, 1)), False),
        ('rn((1,3))', lambda: odl.rn((1, 3)), False),
        ('rn((2,3))', lambda: odl.rn((2, 3)), True),
        ('rn((3,2))', lambda: odl.rn((3, 2)), False),
        ('rn(0)', lambda: odl.rn(0), False),
        ('rn(())', lambda: odl.rn(()), False),
        ('rn(3,f32)', lambda: odl.rn(3, dtype='float32'), True),
        ('rn(3,f16)', lambda: odl.rn(3, dtype='float16'), False),
        ('cn(3)', lambda: odl.cn(3), True),
        ('cn(3,c64)', lambda: odl.cn(3, dtype='complex64'), False),
        ('ts(3,int64)', lambda: odl.tensor_space(3, dtype='int64'), True),
        ('ts(3,int32)', lambda: odl.tensor_space(3, dtype='int32'), False),
        ('ts(3,uint8)', lambda: odl.tensor_space(3, dtype='uint8'), False),
        ('ts(3,bool)', lambda: odl.tensor_space(3, dtype=bool), True),
        ('ts(3,U2)', lambda: odl.tensor_space(3, dtype='U2'), False),
        ('ts(3,U5)', lambda: odl.tensor_space(3, dtype='U5'), True),
        ('ts(3,U7)', lambda: odl.tensor_space(3, dtype='U7'), False),
        ('ts(3,S5)', lambda: odl.tensor_space(3, dtype='S5'), False),
        ('ts(3,bool,e=1)', lambda: odl.tensor_space(3, dtype=bool, exponent=1.0), False),
        ('ts((2,3),bool)', lambda: odl.tensor_space((2, 3), dtype=bool), False),
        ('rn(3,>f8)', lambda: odl.rn(3, dtype='>f8'), True),        # oracle only
        ('rn(3,w=Matrix)', lambda: odl.rn(3, weighting=MatrixWeighting(M3, impl='numpy')),
         True),                                                      # oracle only
        ('rn(3,norm=bound)', lambda: odl.rn(3, norm=_HELPER.norm), True),   # oracle only
        ('rn(3,norm=partial)', lambda: odl.rn(3, norm=_PARTIAL_NORM), True),  # oracle only
        ('rn(3,e=1)', lambda: odl.rn(3, exponent=1), True),
        ('rn(3,e=inf)', lambda: odl.rn(3, exponent=float('inf')), False),
        ('rn(3,e=1.5)', lambda: odl.rn(3, exponent=1.5), False),
        ('rn(3,w=2)', lambda: odl.rn(3, weighting=2.0), True),
        ('rn(3,w=2,e=1)', lambda: odl.rn(3, weighting=2.0, exponent=1), False),
        ('rn(3,w=0.5)', lambda: odl.rn(3, weighting=0.5), False),
        ('rn(3,w=W3)', lambda: odl.rn(3, weighting=W3), True),
        ('rn(3,w=W3copy)', lambda: odl.rn(3, weighting=W3_COPY), False),
        ('rn(3,w=W3other)', lambda: odl.rn(3, weighting=W3_OTHER), False),
        ('rn(3,w=W3,e=1)', lambda: odl.rn(3, weighting=W3, exponent=1), False),
        ('rn(3,w=list)', lambda: odl.rn(3, weighting=[1.0, 2.0, 3.0]), False),
        ('cn(3,w=W3)', lambda: odl.cn(3, weighting=W3), False),
        ('rn((2,3),w=W23)', lambda: odl.rn((2, 3), weighting=W23), True),
        ('rn(3,inner=f)', lambda: odl.rn(3, inner=_f_inner), True),
        ('rn(3,inner=g)', lambda: odl.rn(3, inner=_g_inner), False),
        ('rn(3,norm=f)', lambda: odl.rn(3, norm=_f_norm), True),
        ('rn(3,norm=g)', lambda: odl.rn(3, norm=_g_norm), False),
        ('rn(3,dist=f)', lambda: odl.rn(3, dist=_f_dist), True),
        ('cn(3,inner=f)', lambda: odl.cn(3, inner=_f_inner), False),
        ('rn(3,w=psC(2))', lambda: odl.rn(3, weighting=ProductSpaceConstWeighting(2.0)), False),
        ('rn(3,w=npC(2)obj)', lambda: odl.rn(3, weighting=NumpyTensorSpaceConstWeighting(2.0)),
         False),
    ]
    for nm, th, dup in tss:
        add('NumpyTensorSpace:' + nm, th, dup=dup)
    # --- discretized spaces
    dss = [
        ('ud(0,1,3)', lambda: odl.uniform_discr(0, 1, 3), True),
        ('ud(0,1,3,labels)', lambda: odl.uniform_discr(0, 1, 3, axis_labels=['t']), False),
        ('ud(0,1,4)', lambda: odl.uniform_discr(0, 1, 4), False),
        ('ud(0,2,3)', lambda: odl.uniform_discr(0, 2, 3), False),
        ('ud(-1,1,3)', lambda: odl.uniform_discr(-1, 1, 3), False),
        ('ud(0,1,3,f32)', lambda: odl.uniform_discr(0, 1, 3, dtype='float32'), False),
        ('ud(0,1,3,c128)', lambda: odl.uniform_discr(0, 1, 3, dtype='complex128'), True),
        ('ud(0,1,3,int)', lambda: odl.uniform_discr(0, 1, 3, dtype='int64'), False),
        ('ud(0,1,3,nodes)', lambda: odl.uniform_discr(0, 1, 3, nodes_on_bdry=True), False),
        ('ud(0,1,3,e1)', lambda: odl.uniform_discr(0, 1, 3, exponent=1.0), True),
        ('ud(0,1,3,w=2)', lambda: odl.uniform_discr(0, 1, 3, weighting=2.0), False),
        ('ud(0,1,3,w=1/3)', lambda: odl.uniform_discr(0, 1, 3, weighting=1.0 / 3.0), False),
        ('ud(0,1,3,w=W3)', lambda: odl.uniform_discr(0, 1, 3, weighting=W3), True),
        ('ud(0,1,3,w=W3copy)', lambda: odl.uniform_discr(0, 1, 3, weighting=W3_COPY), False),
        ('ds(0,1,3,inner)', lambda: odl.DiscretizedSpace(odl.uniform_partition(0, 1, 3),
                                                         odl.rn(3, inner=_f_inner)), True),
        ('ud(-1,1,3,nodes)', lambda: odl.uniform_discr(-1, 1, 3, nodes_on_bdry=True), False),
        ('ds(-1,1;[-1,-0,1])', lambda: odl.DiscretizedSpace(
            odl.RectPartition(odl.IntervalProd(-1, 1), odl.RectGrid([-1.0, -0.0, 1.0])),
            odl.rn(3, weighting=1.0)), False),
        ('ds(-1,1;[-1,0,1])', lambda: odl.DiscretizedSpace(
            odl.RectPartition(odl.IntervalProd(-1, 1), odl.RectGrid([-1.0, 0.0, 1.0])),
            odl.rn(3, weighting=1.0)), False),
        ('ud2((0,0),(1,1),(2,3))', lambda: odl.uniform_discr([0, 0], [1, 1], (2, 3)), True),
        ('ud2((0,0),(1,1),(3,2))', lambda: odl.uniform_discr([0, 0], [1, 1], (3, 2)), False),
        ('ud2((0,0),(1,2),(2,3))', lambda: odl.uniform_discr([0, 0], [1, 2], (2, 3)), False),
        ('ud2(nodes01)', lambda: odl.uniform_discr([0, 0], [1, 1], (2, 3),
                                                   nodes_on_bdry=[True, (False, True)]), False),
        ('ud3', lambda: odl.uniform_discr([0, 0, 0], [1, 1, 1], (2, 2, 2)), False),
        ('nud([0,2,3])', lambda: odl.DiscretizedSpace(odl.nonuniform_partition([0, 2, 3]),
                                                      odl.rn(3)), True),
        ('nud([0,2,3],min=-1)', lambda: odl.DiscretizedSpace(
            odl.nonuniform_partition([0, 2, 3], min_pt=-1), odl.rn(3)), False),
        ('nud([0,2,3],w=2)', lambda: odl.DiscretizedSpace(odl.nonuniform_partition([0, 2, 3]),
                                                          odl.rn(3, weighting=2.0)), False),
        ('ds(0,3;[0,1,2,3])', lambda: odl.DiscretizedSpace(odl.RectPartition(
            odl.IntervalProd(0, 3), odl.RectGrid([0.0, 1.0, 2.0, 3.0])), odl.rn(4)), False),
        ('ds(0,3;[0,1,2.5,3])', lambda: odl.DiscretizedSpace(odl.RectPartition(
            odl.IntervalProd(0, 3), odl.RectGrid([0.0, 1.0, 2.5, 3.0])), odl.rn(4)), False),
        ('ds(0,3;[0,.5,2.5,3])', lambda: odl.DiscretizedSpace(odl.RectPartition(
            odl.IntervalProd(0, 3), odl.RectGrid([0.0, 0.5, 2.5, 3.0])), odl.rn(4)), False),
    ]
    for nm, th, dup in dss:
        add('DiscretizedSpace:' + nm, th, dup=dup)
    # --- product spaces
    r2, r3, c2 = odl.rn(2), odl.rn(3), odl.cn(2)
    pss = [
        ('P(r2,r3)', lambda: odl.ProductSpace(odl.rn(2), odl.rn(3)), True),
        ('P(r3,r2)', lambda: odl.ProductSpace(r3, r2), False),
        ('P(r2,2)', lambda: odl.ProductSpace(r2, 2), True),
        ('P(r2,r2)', lambda: odl.ProductSpace(r2, odl.rn(2)), False),
        ('P(r2,3)', lambda: odl.ProductSpace(r2, 3), False),
        ('P(r2)', lambda: odl.ProductSpace(r2), False),
        ('P(r2,1)', lambda: odl.ProductSpace(r2, 1), False),
        ('P(r2,0)', lambda: odl.ProductSpace(r2, 0), False),
        ('P(field=R)', lambda: odl.ProductSpace(field=odl.RealNumbers()), True),
        ('P(field=C)', lambda: odl.ProductSpace(field=odl.ComplexNumbers()), False),
        ('P(c2,2)', lambda: odl.ProductSpace(c2, 2), False),
        ('P(r2,r3,e1)', lambda: odl.ProductSpace(r2, r3, exponent=1.0), True),
        ('P(r2,r3,einf)', lambda: odl.ProductSpace(r2, r3, exponent=float('inf')), False),
        ('P(r2,r3,w=2)', lambda: odl.ProductSpace(r2, r3, weighting=2.0), True),
        ('P(r2,r3,w=1)', lambda: odl.ProductSpace(r2, r3, weighting=1.0), False),
        ('P(r2,r3,w=2,e1)', lambda: odl.ProductSpace(r2, r3, weighting=2.0, exponent=1.0), False),
        ('P(r2,r3,w=PW2)', lambda: odl.ProductSpace(r2, r3, weighting=PW2), True),
        ('P(r2,r3,w=PW2copy)', lambda: odl.ProductSpace(r2, r3, weighting=PW2_COPY), False),
        ('P(r2,r3,w=list)', lambda: odl.ProductSpace(r2, r3, weighting=[1.0, 2.0]), False),
        ('P(r2,r3,inner)', lambda: odl.ProductSpace(r2, r3, inner=_pf_inner), True),
        ('P(r2,r3,norm)', lambda: odl.ProductSpace(r2, r3, norm=_pf_norm), False),
        ('P(r2,r3,w=npC(2))', lambda: odl.ProductSpace(
            r2, r3, weighting=NumpyTensorSpaceConstWeighting(2.0)), False),
        ('P(r2w,r3)', lambda: odl.ProductSpace(odl.rn(2, weighting=2.0), r3), False),
        ('P(r2e1,r3)', lambda: odl.ProductSpace(odl.rn(2, exponent=1.0), r3), False),
        ('P(P(r2,2),r3)', lambda: odl.ProductSpace(odl.ProductSpace(r2, 2), r3), True),
        ('P(P(r2,2,w=2),r3)', lambda: odl.ProductSpace(odl.ProductSpace(r2, 2, weighting=2.0),
                                                       r3), False),
        ('P(P(r2,2),2)', lambda: odl.ProductSpace(odl.ProductSpace(r2, 2), 2), True),
        ('P(P(P(r2,2),2),w=3)', lambda: odl.ProductSpace(
            odl.ProductSpace(odl.ProductSpace(r2, 2), 2), odl.ProductSpace(r2, 2),
            weighting=3.0), False),
        ('P(ud,2)', lambda: odl.ProductSpace(odl.uniform_discr(0, 1, 3), 2), True),
        ('P(ud,rn3)', lambda: odl.ProductSpace(odl.uniform_discr(0, 1, 3), r3), False),
        ('P(ud,3,w=PW3)', lambda: odl.ProductSpace(odl.uniform_discr(0, 1, 3), 3,
                                                   weighting=PW3), False),
        ('P(r3w3,2)', lambda: odl.ProductSpace(odl.rn(3, weighting=W3), 2), False),
        ('P(r3w3,r3w3copy)', lambda: odl.ProductSpace(odl.rn(3, weighting=W3),
                                                      odl.rn(3, weighting=W3_COPY)), False),
        # mixed component dtypes (same field)
        ('P(r2,r3f32)', lambda: odl.ProductSpace(r2, odl.rn(3, dtype='float32')), True),
        ('P(r3f32,r2)', lambda: odl.ProductSpace(odl.rn(3, dtype='float32'), r2), False),
        ('P(r2,int2)', lambda: odl.ProductSpace(r2, odl.tensor_space(2, dtype='int64')), False),
        ('P(c2,c2c64)', lambda: odl.ProductSpace(c2, odl.cn(2, dtype='complex64')), False),
        ('P(P(r2,2),P(r2f32,2))', lambda: odl.ProductSpace(
            odl.ProductSpace(r2, 2), odl.ProductSpace(odl.rn(2, dtype='float32'), 2)), False),
        ('P(ud,udf32)', lambda: odl.ProductSpace(
            odl.uniform_discr(0, 1, 3), odl.uniform_discr(0, 1, 3, dtype='float32')), False),
    ]
    for nm, th, dup in pss:
        add('ProductSpace:' + nm, th, dup=dup)
    # --- randomly generated spaces, each with near-duplicates differing in exactly one field
    for name, thunk in random_spaces(ctx):
        add(name, thunk, dup=False)
    # --- composite sets over non-composite members
    ip1, ip2, ip3 = odl.IntervalProd(0, 1), odl.IntervalProd([0, 0], [1, 1]), \
        odl.IntervalProd([0, 0, 0], [1, 1, 1])
    RN, CN, ZN = odl.RealNumbers(), odl.ComplexNumbers(), odl.Integers()
    members = {
        'R': RN, 'C': CN, 'Z': ZN, 'S2': odl.Strings(2), 'E': odl.EmptySet(),
        'ip1': ip1, 'ip2': ip2, 'ip3': ip3, 'ip1b': odl.IntervalProd(0, 2),
        'r3': r3, 'r3w': odl.rn(3, weighting=2.0), 'r3W': odl.rn(3, weighting=W3),
        'r3Wc': odl.rn(3, weighting=W3_COPY), 'ud': odl.uniform_discr(0, 1, 3),
        'P': odl.ProductSpace(r2, r3), 'g': odl.RectGrid([0.0, 1.0]),
        'gz': odl.RectGrid([-0.0, 1.0]), 'U': odl.UniversalSet(),
        # members outside the model (oracle only): finite sets and composites
        'F12': odl.FiniteSet(1, 2), 'F21': odl.FiniteSet(2, 1), 'F13': odl.FiniteSet(1, 3),
        'CRC': odl.CartesianProduct(RN, CN), 'URC': odl.SetUnion(RN, CN),
        'UCR': odl.SetUnion(CN, RN), 'IRZ': odl.SetIntersection(RN, ZN),
    }
    combos = [('R',), ('R', 'C'), ('C', 'R'), ('R', 'C', 'Z'), ('Z', 'R', 'C'), ('R', 'R'),
              ('R', 'C', 'R'), (), ('r3',), ('r3', 'r3w'), ('r3w', 'r3'), ('r3W', 'r3Wc'),
              ('r3W',), ('r3Wc',), ('ip1',), ('ip1b',), ('ip2',), ('ip3',), ('ip1', 'R'),
              ('ip2', 'R'), ('R', 'ip2'), ('R', 'ip3'), ('ip2', 'ip3'), ('ud', 'P'), ('P', 'ud'),
              ('S2', 'E'), ('g',), ('gz',), ('ip1', 'ip2'), ('R', 'ip1'), ('U', 'R'), ('R', 'U'),
              ('F12',), ('F21',), ('F13',), ('F12', 'R'), ('R', 'F21'), ('R', 'F13'),
              ('CRC',), ('CRC', 'R'), ('R', 'CRC'), ('URC',), ('UCR',), ('URC', 'Z'),
              ('Z', 'UCR'), ('IRZ', 'URC'), ('UCR', 'IRZ')]
    for kind, cls in [('CartesianProduct', odl.CartesianProduct), ('SetUnion', odl.SetUnion),
                      ('SetIntersection', odl.SetIntersection)]:
        for cb in combos:
            add('{}{}'.format(kind, cb),
                lambda cls=cls, cb=cb: cls(*[members[k] for k in cb]),
                dup=(cb in (('R', 'C'), ('r3W',))))
    # random extra composites
    keys = sorted(k for k in members if k not in ('F12', 'F21', 'F13', 'CRC', 'URC', 'UCR',
                                                  'IRZ'))
    for _ in range(4 if ctx.quick else 30):
        cb = tuple(rng.choice(keys) for _ in range(rng.randint(1, 3)))
        cls_name, cls = rng.choice([('CartesianProduct', odl.CartesianProduct),
                                    ('SetUnion', odl.SetUnion),
                                    ('SetIntersection', odl.SetIntersection)])
        add('{}{}'.format(cls_name, cb), lambda cls=cls, cb=cb: cls(*[members[k] for k in cb]),
            dup=False)
    return R


RW = {}   # pool of weight arrays shared between random recipes (identity matters)


def _rw(shape):
    key = tuple(shape)
    if key not in RW:
        n = int(np.prod(shape)) if shape else 1
        RW[key] = (np.arange(1, n + 1, dtype=float).reshape(shape),
                   np.arange(1, n + 1, dtype=float).reshape(shape))   # equal content, 2 objects
    return RW[key]


def random_spaces(ctx):
    """(name, thunk) of random tensor / discretized / product spaces.  Every base parameter
    set is followed by variants in which exactly ONE field is changed (and one exact copy)."""
    import odl
    rng = ctx.rng
    nbase = 2 if ctx.quick else 14

    def make_t(p):
        kw = {}
        if p['w'] == 'const':
            kw['weighting'] = p['c']
        elif p['w'] == 'arr0':
            kw['weighting'] = _rw(p['shape'])[0]
        elif p['w'] == 'arr1':
            kw['weighting'] = _rw(p['shape'])[1]
        if p['e'] != 2.0:
            kw['exponent'] = p['e']
        return odl.tensor_space(p['shape'], dtype=p['dt'], **kw)

    def make_d(p):
        if p['grid'] == 'uniform':
            part = odl.uniform_partition(p['lo'], p['hi'], p['shape'], nodes_on_bdry=p['nodes'])
        else:
            vecs = []
            for lo, hi, n, j in zip(p['lo'], p['hi'], p['shape'], p['moved']):
                v = np.linspace(lo, hi, n + 2)[1:-1] if not p['nodes'] else np.linspace(lo, hi, n)
                v = np.array(v)
                if n >= 3:
                    v[1 + j % (n - 2)] += (hi - lo) / (8.0 * n)
                vecs.append(v)
            part = odl.RectPartition(odl.IntervalProd(p['lo'], p['hi']), odl.RectGrid(*vecs))
        tp = dict(p, shape=tuple(p['shape']))
        return odl.DiscretizedSpace(part, make_t(tp))

    def variants(p, fields):
        out = [('copy', dict(p))]
        for f, alts in fields.items():
            alts = [a for a in alts if a != p[f]]
            if alts:
                q = dict(p)
                q[f] = rng.choice(alts)
                out.append((f, q))
        return out
    float_dts = ['float64', 'float32', 'complex128']
    for b in range(nbase):
        shape = rng.choice([(3,), (4,), (2, 3), (3, 2), (2, 2, 2), (1, 4)])
        p = {'shape': shape, 'dt': rng.choice(float_dts), 'w': rng.choice(['none', 'const', 'arr0']),
             'c': rng.choice([0.5, 2.0, 3.0]), 'e': rng.choice([1.0, 2.0, 2.0, float('inf')])}
        fields = {'shape': [(3,), (4,), (2, 3), (3, 2), (6,)], 'dt': float_dts + ['float16'],
                  'w': ['none', 'const', 'arr0', 'arr1'], 'e': [1.0, 2.0, 1.5, float('inf')]}
        if p['w'] == 'const':
            fields['c'] = [0.5, 2.0, 3.0]
        if p['w'].startswith('arr') and p['dt'] == 'float32':
            p['dt'] = 'float64'   # float64 weights cannot be cast to a narrower space dtype
        for f, q in [('base', p)] + variants(p, fields):
            if q['w'].startswith('arr') and q['dt'] in ('float32', 'float16'):
                continue
            yield ('NumpyTensorSpace:rnd{}/{}{}'.format(b, f, sorted(q.items())),
                   lambda q=q: make_t(q))
    for b in range(nbase):
        d = rng.choice([1, 1, 2])
        lo = [rng.randint(-4, 2) / 2 for _ in range(d)]
        hi = [l + rng.randint(1, 6) / 2 for l in lo]
        p = {'lo': lo, 'hi': hi, 'shape': tuple(rng.randint(3, 5) for _ in range(d)),
             'nodes': rng.choice([False, True]), 'grid': rng.choice(['uniform', 'nonuniform']),
             'moved': [rng.randint(0, 3) for _ in range(d)],
             'dt': rng.choice(['float64', 'float32']), 'w': rng.choice(['none', 'const']),
             'c': rng.choice([0.5, 2.0]), 'e': rng.choice([1.0, 2.0])}
        fields = {'lo': [[l - 0.5 for l in lo]], 'hi': [[h + 0.5 for h in hi]],
                  'shape': [tuple(n + 1 for n in p['shape'])], 'nodes': [False, True],
                  'grid': ['uniform', 'nonuniform'],
                  'moved': [[m + 1 for m in p['moved']]] if p['grid'] == 'nonuniform' else [],
                  'dt': ['float64', 'float32', 'complex128'], 'w': ['none', 'const'],
                  'e': [1.0, 2.0, float('inf')]}
        for f, q in [('base', p)] + variants(p, fields):
            yield ('DiscretizedSpace:rnd{}/{}{}'.format(b, f, sorted(q.items())),
                   lambda q=q: make_d(q))
    comps = [lambda: odl.rn(2), lambda: odl.rn(3), lambda: odl.rn(2, dtype='float32'),
             lambda: odl.rn(2, weighting=2.0), lambda: odl.uniform_discr(0, 1, 2),
             lambda: odl.ProductSpace(odl.rn(2), 2), lambda: odl.cn(2)]
    for b in range(nbase):
        real = [0, 1, 2, 3, 4, 5]
        n = rng.randint(1, 3)
        p = {'comps': tuple(rng.choice(real) for _ in range(n)),
             'w': rng.choice(['none', 'const', 'arr0']), 'c': rng.choice([0.5, 2.0]),
             'e': rng.choice([1.0, 2.0, float('inf')])}

        def make_p(q):
            kw = {}
            if q['w'] == 'const':
                kw['weighting'] = q['c']
            elif q['w'] in ('arr0', 'arr1'):
                kw['weighting'] = _rw((len(q['comps']),))[int(q['w'][-1])]
            if q['e'] != 2.0:
                kw['exponent'] = q['e']
            return odl.ProductSpace(*[comps[i]() for i in q['comps']], **kw)
        alt_comps = list(p['comps'])
        k = rng.randrange(n)
        alt_comps[k] = rng.choice([i for i in real if i != alt_comps[k]])
        fields = {'comps': [tuple(alt_comps), p['comps'] + (rng.choice(real),)],
                  'w': ['none', 'const', 'arr0', 'arr1'], 'e': [1.0, 2.0, float('inf')]}
        if p['w'] == 'const':
            fields['c'] = [0.5, 2.0]
        for f, q in [('base', p)] + variants(p, fields):
            yield ('ProductSpace:rnd{}/{}{}'.format(b, f, sorted(q.items())),
                   lambda q=q: make_p(q))


def instantiate(ctx, recipes):
    """Evaluate the recipes; a raising constructor is an oracle violation of its own."""
    zoo = []
    for name, thunk, k in recipes:
        try:
            obj = thunk()
        except Exception as e:  # noqa
            ctx.violation('constructor-raises ' + name.split(':')[0].split('(')[0],
                          '{} raised {}: {}'.format(name, type(e).__name__, str(e)[:200]),
                          {'kind': 'construct', 'recipe': name})
            continue
        zoo.append((name, k, obj))
    return zoo


# ---------------------------------------------------------------------------
# diagnosis of the input class of a failing pair (used in violation keys)

def _intervals(o, acc):
    import odl
    if isinstance(o, odl.IntervalProd):
        acc.append(o)
    elif isinstance(o, odl.RectPartition):
        acc.append(o.set)
    elif isinstance(o, (odl.CartesianProduct, odl.SetUnion, odl.SetIntersection)):
        for m in o.sets:
            _intervals(m, acc)


def _grids(o, acc):
    import odl
    if isinstance(o, odl.RectGrid):
        acc.append(o)
    elif isinstance(o, odl.RectPartition):
        acc.append(o.grid)
    elif isinstance(o, odl.DiscretizedSpace):
        acc.append(o.partition.grid)
    elif isinstance(o, odl.ProductSpace):
        for m in o.spaces:
            _grids(m, acc)
    elif isinstance(o, (odl.CartesianProduct, odl.SetUnion, odl.SetIntersection)):
        for m in o.sets:
            _grids(m, acc)


def _foreign_weightings(o):
    """number of spaces inside `o` that hold a weighting of the other class family"""
    import odl
    n = 0
    if isinstance(o, odl.ProductSpace):
        n += not type(o.weighting).__name__.startswith('ProductSpace')
        for m in o.spaces:
            n += _foreign_weightings(m)
    elif isinstance(o, odl.DiscretizedSpace):
        n += not type(o.tspace.weighting).__name__.startswith('NumpyTensorSpace')
    elif hasattr(o, 'weighting') and hasattr(o, 'shape'):
        n += not type(o.weighting).__name__.startswith('NumpyTensorSpace')
    elif isinstance(o, (odl.CartesianProduct, odl.SetUnion, odl.SetIntersection)):
        for m in o.sets:
            n += _foreign_weightings(m)
    return n


def cause_of(a, b, hashing=False):
    """Words describing what is special about the pair (computed from the live objects,
    independent of the model).  Only `intervalprod-ndim-mismatch` can explain a raising /
    asymmetric / intransitive `==`; the other two concern hashes only."""
    from odl.space.weighting import Weighting
    ia, ib, ga, gb = [], [], [], []
    _intervals(a, ia)
    _intervals(b, ib)
    causes = []
    nds = sorted({i.ndim for i in ia} | {i.ndim for i in ib})
    if len(nds) > 1:
        causes.append('intervalprod-ndim-mismatch')
    if hashing:
        _grids(a, ga)
        _grids(b, gb)
        zero_signs = set()
        for g in ga + gb:
            for cv in g.coord_vectors:
                for v in cv:
                    if v == 0:
                        zero_signs.add(bool(np.signbit(v)))
        if len(zero_signs) > 1:
            causes.append('signed-zero-grid')
        if isinstance(a, Weighting) and isinstance(b, Weighting):
            if type(a).__name__[:5] != type(b).__name__[:5]:
                causes.append('weighting-family-mix')
        elif _foreign_weightings(a) + _foreign_weightings(b) > 0:
            causes.append('weighting-family-mix')
    return '+'.join(causes) if causes else 'none'


def _odd_atoms(o):
    """'' / ' atoms=array' / ' atoms=unhashable' for FiniteSets (also inside composites)"""
    import odl
    if isinstance(o, odl.FiniteSet):
        if any(isinstance(e, np.ndarray) for e in o.elements):
            return ' atoms=array'
        for e in o.elements:
            try:
                hash(e)
            except TypeError:
                return ' atoms=unhashable'
        return ''
    if isinstance(o, (odl.CartesianProduct, odl.SetUnion, odl.SetIntersection)):
        return ''.join(sorted({_odd_atoms(m) for m in o.sets}))
    return ''


def cls(o):
    return type(o).__name__


def viol(ctx, key, what, replay):
    """ctx.violation with at most 3 witnesses per key (the key names the input class)"""
    cnt = ctx.extra.setdefault('oracle_failures_by_key', {})
    cnt[key] = cnt.get(key, 0) + 1
    if cnt[key] <= 3:
        ctx.violation(key, what, replay)


# ---------------------------------------------------------------------------
# pairs: implementation matrices, oracle, correspondence

def impl_matrices(zoo):
    n = len(zoo)
    E = np.zeros((n, n), dtype=np.int8)     # 1 True, 0 False, 2 raises, 3 non-bool
    exc = {}
    H = []
    for i, (_, _, a) in enumerate(zoo):
        try:
            H.append(('ok', hash(a)))
        except Exception as e:  # noqa
            H.append(('err', type(e).__name__ + ': ' + str(e)[:80]))
        for j, (_, _, b) in enumerate(zoo):
            try:
                r = (a == b)
                if r is True or r is False or isinstance(r, (bool, np.bool_)):
                    E[i, j] = 1 if r else 0
                else:
                    E[i, j] = 3
                ne = (a != b)
                if bool(ne) == bool(r):
                    E[i, j] = 3
            except Exception as e:  # noqa
                E[i, j] = 2
                exc[(i, j)] = type(e).__name__ + ': ' + str(e)[:80]
    return E, exc, H


def oracle_pairs(ctx, zoo, E, exc, H):
    n = len(zoo)
    names = [z[0] for z in zoo]

    def rep(i, j=None, k=None):
        d = {'kind': 'pair', 'a': names[i]}
        if j is not None:
            d['b'] = names[j]
        if k is not None:
            d['c'] = names[k]
        return d
    for i in range(n):
        a = zoo[i][2]
        if H[i][0] != 'ok' and _odd_atoms(a) and H[i][1].startswith('TypeError'):
            pass   # a container of unhashable atoms is unhashable (as tuples of lists are)
        elif H[i][0] != 'ok':
            viol(ctx, 'hash-raises {}{}'.format(cls(a), _odd_atoms(a)),
                          'hash({}) raised {}'.format(names[i], H[i][1]), rep(i))
        if E[i, i] != 1:
            viol(ctx, 'eq-not-reflexive {} cause={}{}'.format(cls(a), cause_of(a, a),
                                                            _odd_atoms(a)),
                          '{} == itself gives {}'.format(names[i], _outcome(E, exc, i, i)), rep(i))
    for i in range(n):
        for j in range(n):
            a, b = zoo[i][2], zoo[j][2]
            if E[i, j] == 2:
                viol(ctx, 'eq-raises {} vs {} cause={}{}'.format(
                    cls(a), cls(b), cause_of(a, b), _odd_atoms(a) or _odd_atoms(b)),
                              '({}) == ({}) raised {}'.format(names[i], names[j], exc[(i, j)]),
                              rep(i, j))
            elif E[i, j] == 3:
                viol(ctx, 'eq-not-boolean-or-ne-inconsistent {} vs {}'.format(cls(a), cls(b)),
                              '({}) ==/!= ({})'.format(names[i], names[j]), rep(i, j))
            if i < j and E[i, j] != E[j, i]:
                viol(ctx, 'eq-not-symmetric {} vs {} cause={}'.format(
                    cls(a), cls(b), cause_of(a, b)),
                    '({}) == ({}) is {} but the converse is {}'.format(
                        names[i], names[j], _outcome(E, exc, i, j), _outcome(E, exc, j, i)),
                    rep(i, j))
            if i < j and E[i, j] == 1 and H[i][0] == 'ok' and H[j][0] == 'ok' \
                    and H[i][1] != H[j][1]:
                viol(ctx, 'equal-but-hash-differs {} vs {} cause={}'.format(
                    cls(a), cls(b), cause_of(a, b, hashing=True)),
                    '({}) == ({}) is True but their hashes differ'.format(names[i], names[j]),
                    rep(i, j))
            # equal-by-construction duplicates
            if i < j and names[i] == names[j] and E[i, j] != 1:
                viol(ctx, 'duplicates-unequal {}{}'.format(cls(a), _odd_atoms(a)),
                              'two objects built by the recipe {} compare {}'.format(
                                  names[i], _outcome(E, exc, i, j)), rep(i, j))
    # transitivity over ALL triples: T = E*E has T[i,k] > 0 iff some j links them
    T = (E == 1).astype(np.int64)
    TT = T @ T
    bad = np.argwhere((TT > 0) & (E != 1))
    seen = set()
    for i, k in bad.tolist():
        js = np.nonzero(T[i, :] & T[:, k])[0].tolist()
        j = js[0]
        a, b, c = zoo[i][2], zoo[j][2], zoo[k][2]
        key = 'eq-not-transitive {},{},{} cause={}'.format(
            cls(a), cls(b), cls(c), '+'.join(sorted(set(
                (cause_of(a, b) + '+' + cause_of(b, c) + '+' + cause_of(a, c)).split('+'))
                - {'none'})) or 'none')
        if (key, names[i], names[k]) in seen:
            continue
        seen.add((key, names[i], names[k]))
        viol(ctx, key, '({}) == ({}) and ({}) == ({}) but ({}) == ({}) is {}'.format(
            names[i], names[j], names[j], names[k], names[i], names[k],
            _outcome(E, exc, i, k)), rep(i, j, k))


def _outcome(E, exc, i, j):
    v = int(E[i, j])
    return {1: 'True', 0: 'False', 3: 'non-boolean'}.get(v) or ('raises ' + exc.get((i, j), ''))


def correspond_pairs(ctx, zoo, E, exc, H):
    reg = Reg()
    descs = []
    kept = []
    for idx, (name, k, o) in enumerate(zoo):
        try:
            descs.append(describe(o, reg))
            kept.append(idx)
        except Exception as e:  # noqa  (object outside the model: oracle only)
            ctx.notes.append('not modelled: {} ({})'.format(name, e))
    if not descs:
        return
    ans = core.run_driver('C20', ['eqall objs=' + L(descs)])[0]
    if not ans.startswith('ok '):
        ctx.disagree({'kind': 'eqall'}, 'descriptors', ans[:300])
        return
    f = dict(t.split('=', 1) for t in ans.split()[1:])
    m = len(kept)
    if int(f['n']) != m or len(f['eq']) != m * m or len(f['hash']) != m * m:
        ctx.disagree({'kind': 'eqall'}, 'n={}'.format(m), ans[:100])
        return
    code = {'t': 1, 'f': 0, 'e': 2}
    coarse = 0
    for p in range(m):
        i = kept[p]
        for q in range(m):
            j = kept[q]
            me = code[f['eq'][p * m + q]]
            mh = f['hash'][p * m + q] == '1'
            a, b = zoo[i][2], zoo[j][2]
            same_cls = type(a) is type(b)
            ie = int(E[i, j])
            sig = None
            if same_cls:
                sig = ('pair', cls(a), ie, cause_of(a, b, hashing=True),
                       zoo[i][0].split('(')[0] == zoo[j][0].split('(')[0])
            ctx.case(sig, sample=({'a': zoo[i][0], 'b': zoo[j][0], 'impl_eq': _outcome(E, exc, i, j),
                                   'model_eq': f['eq'][p * m + q], 'model_hash_equal': mh}
                                  if same_cls and i != j and len(ctx.samples) < 8 and
                                  ctx.rng.random() < 0.01 else None))
            if same_cls:
                ctx.hit('eq/{}/{}'.format(cls(a), 'fte'[ie] if ie < 3 else 'x'))
            if me != ie:
                ctx.disagree({'kind': 'pair', 'a': zoo[i][0], 'b': zoo[j][0], 'what': '=='},
                             _outcome(E, exc, i, j), 'model: ' + f['eq'][p * m + q])
            if H[i][0] == 'ok' and H[j][0] == 'ok':
                ih = H[i][1] == H[j][1]
                if mh and not ih:
                    ctx.disagree({'kind': 'pair', 'a': zoo[i][0], 'b': zoo[j][0], 'what': 'hash'},
                                 'hashes differ', 'model: hash keys equal')
                elif ih and not mh:
                    coarse += 1
            elif i == j:
                ctx.disagree({'kind': 'hash', 'a': zoo[i][0]}, 'hash raises: ' + H[i][1],
                             'model: hashable')
    ctx.extra['pairs_where_impl_hash_equal_but_model_keys_differ'] = coarse
    ctx.extra['zoo_size'] = len(zoo)
    ctx.extra['zoo_modelled'] = m


def run_pairs(ctx):
    zoo = instantiate(ctx, build_zoo(ctx))
    E, exc, H = impl_matrices(zoo)
    oracle_pairs(ctx, zoo, E, exc, H)
    correspond_pairs(ctx, zoo, E, exc, H)
    return zoo


# ---------------------------------------------------------------------------
# membership, element creation

def space_desc(s, reg):
    """descriptor as printed back by the driver (array weightings without digest)"""
    import re
    return re.sub(r'wa\((np|ps),(\d+),[0-9a-f]+,', r'wa(\1,\2,', describe_space(s, reg))


def is_space(o):
    import odl
    from odl.space.npy_tensors import NumpyTensorSpace
    return type(o) in (NumpyTensorSpace, odl.DiscretizedSpace, odl.ProductSpace)


def some_element(space, rng):
    """an element of `space` with small dyadic values (None if the dtype has no numbers)"""
    import odl
    if isinstance(space, odl.ProductSpace):
        parts = [some_element(c, rng) for c in space.spaces]
        if any(p is None for p in parts):
            return None
        return space.element(parts)
    if space.dtype.kind not in 'iufcb':
        return None
    n = int(np.prod(space.shape, dtype='int64'))
    vals = np.array([rng.randint(0, 12) / 4 for _ in range(n)]).reshape(space.shape)
    return space.element(vals.astype(space.dtype))


def run_membership(ctx, zoo):
    import odl
    rng = ctx.rng
    spaces = [(n, o) for n, _, o in zoo if is_space(o)]
    elems = []
    for n, sp in spaces:
        try:
            x = some_element(sp, rng)
        except Exception as e:  # noqa
            viol(ctx, 'element-raises {} input=own-values'.format(cls(sp)),
                 '{}: creating an element raised {}: {}'.format(n, type(e).__name__, str(e)[:120]),
                 {'kind': 'member', 'space': n})
            continue
        if x is not None:
            elems.append((n, sp, x))
    junk = [('None', None), ('3', 3), ('ndarray', np.zeros(3)), ('list', [0.0, 0.0, 0.0]),
            ('str', 'abc'), ('space', odl.rn(3))]
    lines, meta = [], []
    reg = Reg()
    for xn, xs, x in elems:
        for tn, t in spaces:
            try:
                m = x in t
                e = (x.space == t)
            except Exception as ex:  # noqa
                viol(ctx, 'member-raises {} in {}'.format(cls(xs), cls(t)),
                     'element of {} in {} raised {}'.format(xn, tn, type(ex).__name__),
                     {'kind': 'member', 'x': xn, 'space': tn})
                continue
            ctx.case(('member', cls(xs), cls(t), bool(m)) if type(xs) is type(t) else None)
            if bool(m) != bool(e) or not isinstance(m, (bool, np.bool_)):
                viol(ctx, 'member-mismatch {} in {}'.format(cls(xs), cls(t)),
                     'x in S is {} but x.space == S is {} (x from {}, S = {})'.format(m, e, xn, tn),
                     {'kind': 'member', 'x': xn, 'space': tn})
            if type(xs) is type(t) and rng.random() < (0.15 if ctx.quick else 0.6):
                try:
                    lines.append('contains S={} x={}'.format(describe_space(t, reg),
                                                            describe_space(xs, reg)))
                    meta.append((xn, tn, bool(m)))
                except ValueError:
                    pass
    for tn, t in spaces:
        for jn, j in junk:
            try:
                m = j in t
            except Exception as ex:  # noqa
                m = 'raises ' + type(ex).__name__
            ctx.case(None)
            if m is not False:
                viol(ctx, 'member-junk {} in {}'.format(jn, cls(t)),
                     '{} in {} gives {}'.format(jn, tn, m), {'kind': 'member', 'x': jn, 'space': tn})
        try:
            lines.append('contains S={} x=nospace'.format(describe_space(t, reg)))
            meta.append(('junk', tn, False))
        except ValueError:
            pass
    outs = core.run_driver('C20', lines)
    for (xn, tn, m), ans in zip(meta, outs):
        ctx.hit('contains/' + ('t' if m else 'f'))
        if ans != 'ok ' + ('t' if m else 'f'):
            ctx.disagree({'kind': 'member', 'x': xn, 'space': tn}, m, ans)
    return spaces, elems


def exact_vals(arr):
    a = np.asarray(arr)
    if a.dtype.kind == 'c':
        if np.any(a.imag != 0):
            raise ValueError('complex values outside the model')
        a = a.real
    if a.dtype.kind == 'b':
        a = a.astype(int)
    return [fs(v) for v in a.ravel(order='C').tolist()]


def describe_inp(inp, reg, space=None):
    """wire form of an input offered to `space.element`; plain sequences are read the way the
    target space reads them (item-wise for product spaces, as one array-like otherwise)"""
    import odl
    if isinstance(inp, odl.space.pspace.ProductSpaceElement):
        comps = [None] * len(inp.parts)
        if isinstance(space, odl.ProductSpace) and len(space) == len(inp.parts):
            comps = list(space.spaces)
        return 'pe({},{})'.format(describe_space(inp.space, reg),
                                  L(describe_inp(p, reg, c) for p, c in zip(inp.parts, comps)))
    if hasattr(inp, 'space') and hasattr(inp, 'asarray'):
        if isinstance(space, odl.ProductSpace):
            raise ValueError('tensor element offered to a product space: iteration over '
                             'elements is outside the model')
        a = inp.asarray()
        return 'el({},{},{},{})'.format(describe_space(inp.space, reg),
                                        L(str(n) for n in a.shape), dtype_w(a.dtype),
                                        L(exact_vals(a)))
    if isinstance(inp, np.ndarray):
        return 'ar(1,{},{},{})'.format(L(str(n) for n in inp.shape), dtype_w(inp.dtype),
                                       L(exact_vals(inp)))
    if isinstance(space, odl.ProductSpace) and isinstance(inp, (list, tuple)):
        comps = list(space.spaces) + [None] * max(0, len(inp) - len(space))
        return 'sq({})'.format(L(describe_inp(p, reg, c) for p, c in zip(inp, comps)))
    if isinstance(space, odl.ProductSpace):
        raise ValueError('non-sequence input for a product space is outside the model')
    a = np.asarray(inp)
    if a.dtype == object:
        raise ValueError('ragged input outside the model')
    return 'ar(0,{},{},{})'.format(L(str(n) for n in a.shape), dtype_w(a.dtype),
                                   L(exact_vals(a)))


def _is_numeric_nest(p):
    try:
        a = np.asarray(p)
    except Exception:  # noqa
        return False
    return a.dtype != object and a.dtype.kind in 'iufcb' and not isinstance(p, np.ndarray)


def source_array(inp):
    if isinstance(inp, np.ndarray):
        return inp
    if hasattr(inp, 'tensor'):
        return inp.tensor.data
    if hasattr(inp, 'data') and isinstance(getattr(inp, 'data'), np.ndarray):
        return inp.data
    return None


def canon_result(res, inp):
    """canonical outcome string of `space.element(inp)` in the driver's format"""
    import odl
    from odl.space.npy_tensors import NumpyTensor
    if res is inp:
        return 'same'
    if isinstance(res, NumpyTensor):
        src = source_array(inp)
        if res.data.size > 0:
            sh = int(src is not None and np.shares_memory(res.data, src))
        else:   # nothing to share: report what the code path would do (no copy iff same dtype)
            sh = int(src is not None and src.dtype == res.data.dtype)
        return 'T({};{};{};{})'.format(dtype_w(res.dtype), L(str(n) for n in res.shape),
                                       L(exact_vals(res.data)), sh)
    if isinstance(res, odl.DiscretizedSpaceElement):
        if res.tensor is inp:
            return 'D(1;same)'
        return 'D(0;{})'.format(canon_result(res.tensor, inp))
    if isinstance(res, odl.space.pspace.ProductSpaceElement):
        items = list(inp.parts) if hasattr(inp, 'parts') else list(inp)
        if len(items) == len(res.parts) and all(p is q for p, q in zip(res.parts, items)):
            return 'P(1;L())'
        return 'P(0;{})'.format(L(canon_result(p, q) for p, q in zip(res.parts, items)))
    return 'other:' + type(res).__name__


def flat_values(x):
    import odl
    if isinstance(x, odl.space.pspace.ProductSpaceElement):
        return [v for p in x.parts for v in flat_values(p)]
    if hasattr(x, 'asarray'):
        return np.asarray(x.asarray()).ravel().tolist()
    if isinstance(x, (list, tuple)) and x and not _is_numeric_nest(x):
        return [v for p in x for v in flat_values(p)]
    return np.asarray(x).ravel().tolist()


def expected_element(space, inp):
    """Oracle, independent of the model: ('same',) / ('values', flat list) / ('raise',)."""
    import odl
    if getattr(inp, 'space', None) is not None and inp.space == space:
        return ('same',)
    if isinstance(space, odl.ProductSpace):
        items = list(inp.parts) if hasattr(inp, 'parts') else list(inp)
        if len(items) != len(space):
            return ('raise',)
        vals = []
        for it, sp in zip(items, space.spaces):
            e = expected_element(sp, it)
            if e[0] == 'raise':
                return e
            vals.extend(flat_values(it) if e[0] == 'same' else e[1])
        return ('values', vals)
    a = np.asarray(inp.asarray() if hasattr(inp, 'asarray') else inp)
    shape = (1,) * max(0, space.ndim - a.ndim) + a.shape
    if shape != tuple(space.shape):
        return ('raise',)
    with np.errstate(all='ignore'):
        return ('values', a.astype(space.dtype).ravel().tolist())


def element_cases(ctx, spaces, elems):
    """(target name, target, input kind, input)"""
    import odl
    rng = ctx.rng
    by_space = {}
    for n, sp, x in elems:
        by_space.setdefault(cls(sp), []).append((n, sp, x))

    def arr(shape, dt):
        n = int(np.prod(shape)) if shape else 1
        vals = np.array([rng.randint(-12, 12) / 4 for _ in range(n)]).reshape(shape)
        if np.dtype(dt).kind == 'u':
            vals = np.abs(vals)
        return vals.astype(dt)
    targets = [(n, sp) for n, sp in spaces if sp.dtype.kind in 'iufc'] if False else []
    for n, sp in spaces:
        try:
            if isinstance(sp, odl.ProductSpace):
                ok = all(c.dtype.kind in 'iufc' for c in _leaves(sp))
            else:
                ok = sp.dtype.kind in 'iufc'
        except Exception:  # noqa
            ok = False
        if ok:
            targets.append((n, sp))
    seen_recipe = set()
    for tn, t in targets:
        if tn in seen_recipe:
            continue
        seen_recipe.add(tn)
        # elements of this / equal / other spaces of the same class
        pool = by_space.get(cls(t), [])
        own = [e for e in pool if e[1] == t]
        others = [e for e in pool if not (e[1] == t)]
        rng.shuffle(others)
        for xn, xs, x in own[:2] + others[:(3 if ctx.quick else 10)]:
            yield tn, t, 'element-of:' + ('equal-space' if xs == t else 'other-space'), x
        if isinstance(t, odl.ProductSpace):
            if len(t) == 0:
                continue
            good = [some_element(c, rng) for c in t.spaces]
            yield tn, t, 'list-of-members', list(good)
            yield tn, t, 'tuple-of-members', tuple(good)
            yield tn, t, 'list-too-short', list(good[:-1])
            yield tn, t, 'list-too-long', list(good) + [good[0]]
            if t.is_power_space and not isinstance(t.spaces[0], odl.ProductSpace):
                full = (len(t),) + tuple(t.spaces[0].shape)
                yield tn, t, 'ndarray-stacked', arr(full, 'float64')
                yield tn, t, 'ndarray-stacked-wrong-length', arr((len(t) + 1,) + full[1:],
                                                                 'float64')
                yield tn, t, 'nested-list-stacked', arr(full, 'float64').tolist()
            try:
                raw = [_raw_input(c, rng, arr) for c in t.spaces]
                yield tn, t, 'list-of-arrays', raw
                mixed = [g if k % 2 else r for k, (g, r) in enumerate(zip(good, raw))]
                yield tn, t, 'list-mixed', mixed
                bad = list(raw)
                bad[-1] = _wrong_shape_input(t.spaces[-1], arr)
                yield tn, t, 'list-last-wrong-shape', bad
            except NotImplementedError:
                pass
            continue
        sh, dt = tuple(t.shape), t.dtype
        yield tn, t, 'ndarray-same-dtype', arr(sh, dt)
        for odt in ('float64', 'float32', 'int64', 'int32', 'uint8', 'complex128'):
            if np.dtype(odt) != dt and not (np.dtype(odt).kind == 'c' and dt.kind != 'c'):
                src = arr(sh, odt)
                if np.dtype(odt).kind == 'c':
                    src = src.real.astype(odt)
                if dt.kind == 'u':
                    src = np.abs(src)
                yield tn, t, 'ndarray-' + odt, src
        yield tn, t, 'nested-list', (np.abs(arr(sh, 'float64')) if dt.kind == 'u'
                                     else arr(sh, 'float64')).tolist()
        yield tn, t, 'wrong-shape-longer', arr(tuple(n + 1 for n in sh) or (2,), dt)
        yield tn, t, 'wrong-shape-extra-axis', arr(sh + (2,), dt)
        if len(sh) >= 1:
            yield tn, t, 'axis-dropped', arr(sh[1:], dt)        # ok iff sh[0] == 1
            yield tn, t, 'axis-prepended', arr((1,) + sh, dt)   # never ok
        yield tn, t, 'scalar', 1.5
        if isinstance(t, odl.DiscretizedSpace):
            yield tn, t, 'tspace-element', t.tspace.element(arr(sh, dt))
            other_ts = odl.rn(sh, dtype=dt, weighting=7.0) if dt.kind == 'f' else None
            if other_ts is not None:
                yield tn, t, 'other-tspace-element', other_ts.element(arr(sh, dt))
            # tensors of the same shape from tensor spaces with ANOTHER dtype
            for odt in ('float32', 'float64', 'int64'):
                if np.dtype(odt) != dt and dt.kind in 'fc':
                    yield tn, t, 'tensor-of-dtype-' + odt, odl.tensor_space(
                        sh, dtype=odt).element(arr(sh, odt))
            yield tn, t, 'forced:own-element', t.element(arr(sh, dt))
        else:
            yield tn, t, 'forced:own-element', t.element(arr(sh, dt))
            yield tn, t, 'forced:ndarray', arr(sh, dt)


def _has_complex(inp):
    if hasattr(inp, 'parts'):
        return any(_has_complex(p) for p in inp.parts)
    if hasattr(inp, 'dtype'):
        return np.dtype(inp.dtype).kind == 'c'
    if isinstance(inp, (list, tuple)):
        return any(_has_complex(p) for p in inp)
    return isinstance(inp, complex)


def _elem_leaves(x):
    if hasattr(x, 'parts'):
        for p in x.parts:
            for l in _elem_leaves(p):
                yield l
    else:
        yield x


def _leaves(sp):
    import odl
    if isinstance(sp, odl.ProductSpace):
        for c in sp.spaces:
            for l in _leaves(c):
                yield l
    else:
        yield sp


def _raw_input(space, rng, arr):
    import odl
    if isinstance(space, odl.ProductSpace):
        return [_raw_input(c, rng, arr) for c in space.spaces]
    return arr(tuple(space.shape), 'float64' if space.dtype.kind != 'c' else 'float64')


def _wrong_shape_input(space, arr):
    import odl
    if isinstance(space, odl.ProductSpace):
        return [arr((2,), 'float64')] * (len(space) + 1)
    return arr(tuple(n + 1 for n in space.shape) or (2,), 'float64')


def run_elements(ctx, spaces, elems):
    import warnings
    lines, meta = [], []
    for tn, t, kind, inp in element_cases(ctx, spaces, elems):
        forced = kind.startswith('forced:')
        if _has_complex(inp) and any(c.dtype.kind != 'c' for c in _leaves(t)):
            continue   # complex -> real casts: NumPy-specific (warning / TypeError), not modelled
        reg = Reg()
        with warnings.catch_warnings():
            warnings.simplefilter('ignore')
            try:
                res = t.element(inp, order='C') if forced else t.element(inp)
                err = None
                try:
                    impl = canon_result(res, inp)
                except ValueError:      # result outside the wire format: oracle only
                    impl = 'unmodelled'
            except Exception as e:  # noqa
                res, err = None, e
                impl = {'ValueError': 'errValue', 'TypeError': 'errType'}.get(
                    type(e).__name__, 'err:' + type(e).__name__)
            # oracle
            try:
                exp = expected_element(t, inp)
            except Exception as e:  # noqa
                exp = ('unknown', str(e))
        key_in = kind.split(':')[0] if forced else kind
        rep = {'kind': 'element', 'space': tn, 'input': kind}
        if forced:
            exp = ('values', exp[1] if exp[0] == 'values' else flat_values(inp)) \
                if exp[0] != 'raise' else exp
        if exp[0] == 'same':
            if res is not inp:
                viol(ctx, 'element-not-idempotent {} input={}'.format(cls(t), key_in),
                     '{}.element(x) for x in the space returned {}'.format(tn, impl[:80]), rep)
        elif exp[0] == 'raise':
            if err is None:
                viol(ctx, 'element-no-shape-error {} input={}'.format(cls(t), key_in),
                     '{}.element(<{}>) returned {} instead of raising'.format(tn, kind, impl[:80]),
                     rep)
            elif not isinstance(err, (ValueError, TypeError)):
                viol(ctx, 'element-wrong-error {} input={}'.format(cls(t), key_in),
                     '{}.element(<{}>) raised {}'.format(tn, kind, type(err).__name__), rep)
        elif exp[0] == 'values':
            if err is not None:
                viol(ctx, 'element-raises {} input={}'.format(cls(t), key_in),
                     '{}.element(<{}>) raised {}: {}'.format(tn, kind, type(err).__name__,
                                                            str(err)[:100]), rep)
            else:
                problems = []
                if res is inp and not forced:
                    problems.append('returned the input although it is not in the space')
                if not (res in t):
                    problems.append('result is not in the space')
                try:
                    got_dt = [np.asarray(p.asarray()).dtype for p in _elem_leaves(res)]
                    want = [c.dtype for c in _leaves(t)]
                    if got_dt != want:
                        problems.append('data dtype {} is not the dtype of the space {}'.format(
                            got_dt, want))
                except Exception as e:  # noqa
                    problems.append('reading the data raised ' + type(e).__name__)
                got = flat_values(res)
                if len(got) != len(exp[1]) or any(
                        not (g == e or (g != g and e != e)) for g, e in zip(got, exp[1])):
                    problems.append('values {} != converted input {}'.format(got[:6], exp[1][:6]))
                if problems:
                    viol(ctx, 'element-wrong-values {} input={}'.format(cls(t), key_in),
                         '{}.element(<{}>): {}'.format(tn, kind, '; '.join(problems)), rep)
        ctx.case(('element', cls(t), key_in, impl.split('(')[0], forced),
                 sample=({'space': tn, 'input': kind, 'impl': impl[:100]}
                         if len(ctx.samples) < 12 and ctx.rng.random() < 0.02 else None))
        ctx.hit('element/{}/{}'.format(cls(t), impl.split('(')[0].split(';')[0]))
        if impl == 'unmodelled':
            ctx.notes.append('element case not modelled: {} <{}>'.format(tn, kind))
            continue
        try:
            line = 'element S={} inp={} forced={}'.format(describe_space(t, reg),
                                                         describe_inp(inp, reg, t), int(forced))
        except ValueError as e:
            ctx.notes.append('element case not modelled: {} <{}> ({})'.format(tn, kind, e))
            continue
        lines.append(line)
        meta.append((rep, impl))
    outs = core.run_driver('C20', lines)
    for (rep, impl), ans in zip(meta, outs):
        if ans == 'ok outside':
            # values outside the range on which the model converts exactly: no model statement
            # (the oracle above still compared the values with NumPy's own conversion)
            ctx.hit('element/outside-model-range')
            continue
        if ans != 'ok ' + impl:
            ctx.disagree(rep, impl[:300], ans[:300])


# ---------------------------------------------------------------------------
# derived spaces and indexing

def np_expected_dtypes():
    """What the dtype tables SHOULD contain, from NumPy alone (independent of odl.util):
    name -> dict(kind flags, r2c, c2r)."""
    from extract.dtypes import NAMES, NP
    exp = {}
    for n in NAMES:
        d = np.dtype(NP.get(n, n))
        k = d.kind
        e = {'isNumeric': k in 'iufc', 'isInt': k in 'iu', 'isRealFloating': k == 'f',
             'isComplexFloating': k == 'c', 'isFloating': k in 'fc',
             'isReal': k in 'iuf', 'r2c': None, 'c2r': None}
        if k == 'f':
            # smallest complex dtype whose components hold d (complex64 is the smallest)
            e['r2c'] = np.promote_types(d, np.complex64).name
            e['c2r'] = d.name
        if k == 'c':
            e['c2r'] = np.finfo(d).dtype.name      # float type of the components
        exp[n] = e
    return exp


def check_dtype_tables(ctx):
    """Oracle for the tables the translator copies into the model (C20 real/complex
    counterparts, dtype classification): compare the live odl tables with NumPy itself."""
    import odl.util.utility as u
    from extract.dtypes import NAMES, NP
    exp = np_expected_dtypes()
    preds = {'isNumeric': u.is_numeric_dtype, 'isInt': u.is_int_dtype, 'isReal': u.is_real_dtype,
             'isRealFloating': u.is_real_floating_dtype,
             'isComplexFloating': u.is_complex_floating_dtype, 'isFloating': u.is_floating_dtype}
    for n in NAMES:
        d = np.dtype(NP.get(n, n))
        for pn, fn in preds.items():
            ctx.case(('dtype-table', pn, n))
            try:
                got = bool(fn(d))
            except Exception as e:  # noqa
                got = 'raises ' + type(e).__name__
            if got != exp[n][pn]:
                viol(ctx, 'dtype-table-wrong {} dtype={}'.format(pn, n),
                     'odl.util.{}({}) is {} but NumPy says {}'.format(fn.__name__, n, got,
                                                                      exp[n][pn]),
                     {'kind': 'dtype-table', 'table': pn, 'dtype': n})
        for tn, tbl in (('r2c', u.TYPE_MAP_R2C), ('c2r', u.TYPE_MAP_C2R)):
            ctx.case(('dtype-table', tn, n))
            got = tbl.get(d)
            got = None if got is None else np.dtype(got).name
            if got != exp[n][tn]:
                viol(ctx, 'dtype-table-wrong {} dtype={}'.format(tn, n),
                     'TYPE_MAP_{}[{}] is {} but NumPy says {}'.format(tn.upper(), n, got,
                                                                      exp[n][tn]),
                     {'kind': 'dtype-table', 'table': tn, 'dtype': n})

def pidx_wire(idx, n):
    if isinstance(idx, int):
        return 'i({})'.format(idx % n) if -n <= idx < n else None
    if isinstance(idx, slice):
        start, stop, step = idx.indices(n)
        cnt = len(range(start, stop, step))
        return 'sl({},{},{})'.format(max(start, 0), cnt, step)
    if isinstance(idx, list):
        if all(-n <= i < n for i in idx):
            return 'li({})'.format(L(str(i % n) for i in idx))
    return None


def weighting_equal_selection(new_w, old_w, sel):
    """oracle: the weighting of a product-space selection: same class/exponent, constants
    kept, arrays restricted to the selection"""
    if type(new_w) is not type(old_w) or new_w.exponent != old_w.exponent:
        return False
    if hasattr(old_w, 'const'):
        return new_w.const == old_w.const
    if hasattr(old_w, 'array'):
        return sel is not None and np.array_equal(np.asarray(new_w.array),
                                                  np.asarray(old_w.array)[sel])
    return new_w == old_w


def run_derived(ctx, spaces, elems):
    import odl
    import warnings
    from odl.space.npy_tensors import NumpyTensorSpace
    from odl.space.weighting import ArrayWeighting
    rng = ctx.rng
    lines, meta = [], []
    targets = ['float32', 'float64', 'float16', 'complex64', 'complex128', 'int64', 'uint8', 'bool']
    seen = set()

    def send(rep, line, impl):
        lines.append(line)
        meta.append((rep, impl))

    def outcome(thunk, reg):
        with warnings.catch_warnings():
            warnings.simplefilter('ignore')
            try:
                r = thunk()
            except Exception as e:  # noqa
                return None, e, 'raise'
        try:
            return r, None, 'ok ' + space_desc(r, reg)
        except ValueError:
            return r, None, 'unmodelled'
    for sn, s in spaces:
        if sn in seen:
            continue
        seen.add(sn)
        is_t = type(s) is NumpyTensorSpace
        is_d = type(s) is odl.DiscretizedSpace
        is_p = type(s) is odl.ProductSpace
        leaf_dtypes = [c.dtype for c in _leaves(s)]
        # ---- astype
        for dt in targets:
            reg = Reg()
            r, err, impl = outcome(lambda: s.astype(dt), reg)
            rep = {'kind': 'derived', 'op': 'astype', 'space': sn, 'dtype': dt}
            ctx.case(('astype', cls(s), dt, impl.split(' ')[0]))
            ctx.hit('astype/{}/{}'.format(cls(s), impl.split(' ')[0]))
            w = getattr(s, 'weighting', None) if not is_d else s.tspace.weighting
            castok = 1
            narrow = False
            if isinstance(w, ArrayWeighting) and not is_p:
                castok = int(np.can_cast(w.array.dtype, np.dtype(dt)))
                narrow = not castok
            if is_p:
                narrow = any(isinstance(c.weighting if not isinstance(c, odl.DiscretizedSpace)
                                        else c.tspace.weighting, ArrayWeighting) and
                             not np.can_cast((c.weighting if not isinstance(
                                 c, odl.DiscretizedSpace) else c.tspace.weighting).array.dtype,
                                 np.dtype(dt)) for c in _leaves(s))
            # oracle
            if err is not None:
                expected_raise = narrow or any(d.kind not in 'iufcb' for d in leaf_dtypes) or \
                    (is_p and len(s) == 0)
                if not expected_raise:
                    viol(ctx, 'derived-raises {} op=astype'.format(cls(s)),
                         '{}.astype({}) raised {}: {}'.format(sn, dt, type(err).__name__,
                                                              str(err)[:100]), rep)
            else:
                probs = []
                if [tuple(c.shape) for c in _leaves(r)] != [tuple(c.shape) for c in _leaves(s)]:
                    probs.append('shape {} != {}'.format(r.shape, s.shape))
                if any(c.dtype != np.dtype(dt) for c in _leaves(r)):
                    probs.append('dtype is not ' + dt)
                if all(d == np.dtype(dt) for d in leaf_dtypes) and leaf_dtypes and r is not s:
                    probs.append('astype(own dtype) is not the space itself')
                if not is_p and np.dtype(dt).kind in 'fc' and leaf_dtypes[0].kind in 'fc':
                    if not (r.weighting == s.weighting and r.exponent == s.exponent):
                        probs.append('weighting/exponent not kept: {} vs {}'.format(
                            r.weighting, s.weighting))
                if not is_p:
                    f = r.field
                    want = (odl.ComplexNumbers() if np.dtype(dt).kind == 'c' else
                            odl.RealNumbers() if np.dtype(dt).kind in 'iuf' else None)
                    if f != want:
                        probs.append('field {} for dtype {}'.format(f, dt))
                if is_d and not (r.partition == s.partition):
                    probs.append('partition changed')
                if probs:
                    viol(ctx, 'derived-wrong {} op=astype'.format(cls(s)),
                         '{}.astype({}): {}'.format(sn, dt, '; '.join(probs)), rep)
                # as for tensor spaces, the weighting is kept for floating-point targets only
                if is_p and r is not s and np.dtype(dt).kind in 'fc' and \
                        not weighting_equal_selection(r.weighting, s.weighting, slice(None)):
                    viol(ctx, 'derived-weighting-dropped ProductSpace op=astype',
                         '{}.astype({}) has weighting {} instead of {}'.format(
                             sn, dt, r.weighting, s.weighting), rep)
            if impl != 'unmodelled' and not (is_p and narrow):
                try:
                    send(rep, 'derive op=astype S={} dt={} castok={}'.format(
                        describe_space(s, reg), dtype_w(dt), castok), impl)
                except ValueError:
                    pass
        # ---- real_space / complex_space
        for op in ('real_space', 'complex_space'):
            reg = Reg()
            r, err, impl = outcome(lambda: getattr(s, op), reg)
            rep = {'kind': 'derived', 'op': op, 'space': sn}
            ctx.case((op, cls(s), impl.split(' ')[0]))
            ctx.hit('{}/{}/{}'.format(op, cls(s), impl.split(' ')[0]))
            numeric = all(d.kind in 'iufc' for d in leaf_dtypes) and leaf_dtypes
            want_dt = None
            if numeric:
                # expectation from NumPy alone (not from odl's own tables)
                if op == 'real_space':
                    want_dt = [np.finfo(d).dtype if d.kind == 'c' else d for d in leaf_dtypes]
                else:
                    want_dt = [d if d.kind == 'c' else
                               np.promote_types(d, np.complex64) if d.kind == 'f' else None
                               for d in leaf_dtypes]
            w = getattr(s, 'weighting', None) if not is_d else s.tspace.weighting
            castok = 1
            if isinstance(w, ArrayWeighting) and not is_p and want_dt and want_dt[0] is not None:
                castok = int(np.can_cast(w.array.dtype, want_dt[0]))
            if err is not None:
                if numeric and want_dt and all(d is not None for d in want_dt) and castok \
                        and not (is_p and len(s) == 0):
                    viol(ctx, 'derived-raises {} op={}{}'.format(
                        cls(s), op, '' if all(d.isnative for d in leaf_dtypes)
                        else ' dtype=byteswapped'),
                         '{}.{} raised {}: {}'.format(sn, op, type(err).__name__,
                                                      str(err)[:100]), rep)
            else:
                probs = []
                if not numeric:
                    probs.append('returned for a non-numeric dtype')
                elif [c.dtype for c in _leaves(r)] != want_dt:
                    probs.append('dtypes {} != {}'.format([c.dtype for c in _leaves(r)], want_dt))
                if [tuple(c.shape) for c in _leaves(r)] != [tuple(c.shape) for c in _leaves(s)]:
                    probs.append('shape changed')
                if not is_p and leaf_dtypes[0].kind in 'fc' and not (
                        r.weighting == s.weighting and r.exponent == s.exponent):
                    probs.append('weighting/exponent not kept')
                # involution on exact real/complex pairs
                if not is_p and not probs and leaf_dtypes[0].kind in 'fc' and \
                        leaf_dtypes[0] != np.dtype('float16'):
                    try:
                        back = r.complex_space if leaf_dtypes[0].kind == 'c' else r.real_space
                        if not (back == s) or hash(back) != hash(s):
                            probs.append('round trip gives {} != {}'.format(back, s))
                    except Exception as e:  # noqa
                        probs.append('round trip raised ' + type(e).__name__)
                if probs:
                    viol(ctx, 'derived-wrong {} op={}'.format(cls(s), op),
                         '{}.{}: {}'.format(sn, op, '; '.join(probs)), rep)
                if is_p and not weighting_equal_selection(r.weighting, s.weighting, slice(None)):
                    viol(ctx, 'derived-weighting-dropped ProductSpace op=' + op,
                         '{}.{} has weighting {} instead of {}'.format(
                             sn, op, r.weighting, s.weighting), rep)
            if is_t and impl != 'unmodelled':
                try:
                    send(rep, 'derive op={} S={} castok={}'.format(
                        op.split('_')[0], describe_space(s, reg), castok), impl)
                except ValueError:
                    pass
        # ---- product space indexing
        if is_p:
            n = len(s)
            idxs = [0, n - 1, -1, n, slice(None), slice(1, None), slice(None, -1),
                    slice(None, None, 2), slice(None, None, -1), slice(n, n), [0], [n - 1, 0],
                    [0, 0], list(range(n))]
            for idx in idxs:
                if isinstance(idx, int) and n == 0 and idx != n:
                    continue
                if isinstance(idx, list) and n == 0:
                    continue
                reg = Reg()
                r, err, impl = outcome(lambda: s[idx], reg)
                rep = {'kind': 'derived', 'op': 'pspace-getitem', 'space': sn, 'index': str(idx)}
                kind = type(idx).__name__
                ctx.case(('pindex', kind, impl.split(' ')[0], n))
                ctx.hit('pindex/{}/{}'.format(kind, impl.split(' ')[0]))
                valid = not isinstance(idx, int) or -n <= idx < n
                if err is not None:
                    if valid:
                        viol(ctx, 'derived-raises ProductSpace op=getitem index=' + kind,
                             '{}[{}] raised {}: {}'.format(sn, idx, type(err).__name__,
                                                           str(err)[:100]), rep)
                elif not valid:
                    viol(ctx, 'derived-wrong ProductSpace op=getitem index=' + kind,
                         '{}[{}] did not raise'.format(sn, idx), rep)
                elif isinstance(idx, int):
                    if r is not s.spaces[idx]:
                        viol(ctx, 'derived-wrong ProductSpace op=getitem index=int',
                             '{}[{}] is not the component'.format(sn, idx), rep)
                else:
                    sel = s.spaces[idx] if isinstance(idx, slice) else tuple(
                        s.spaces[i] for i in idx)
                    probs = []
                    if len(r.spaces) != len(sel) or any(a is not b for a, b in zip(r.spaces, sel)):
                        probs.append('components are not the selected ones')
                    if r.field != s.field:
                        probs.append('field {} != {}'.format(r.field, s.field))
                    if probs:
                        viol(ctx, 'derived-wrong ProductSpace op=getitem index=' + kind,
                             '{}[{}]: {}'.format(sn, idx, '; '.join(probs)), rep)
                    wkind = ('const' if hasattr(s.weighting, 'const') else
                             'array' if hasattr(s.weighting, 'array') else 'custom')
                    if wkind != 'custom' and not weighting_equal_selection(
                            r.weighting, s.weighting, idx):
                        viol(ctx, 'derived-weighting-dropped ProductSpace op=getitem '
                             'weighting=' + wkind,
                             '{}[{}] has weighting {} instead of the selection of {}'.format(
                                 sn, idx, r.weighting, s.weighting), rep)
                w = pidx_wire(idx, n)
                if impl != 'unmodelled' and (w is not None or not valid):
                    try:
                        send(rep, 'derive op=pindex S={} idx={}'.format(
                            describe_space(s, reg), w or 'i({})'.format(n + 5)), impl)
                    except ValueError:
                        pass
            # tuple indices (oracle only): P[i, j] is P[i][j]
            for i in range(min(n, 2)):
                if isinstance(s.spaces[i], odl.ProductSpace) and len(s.spaces[i]) > 0:
                    try:
                        ok = s[i, 0] is s.spaces[i].spaces[0] and s[(i,)] is s.spaces[i]
                    except Exception as e:  # noqa
                        ok = False
                    ctx.case(('pindex', 'tuple', ok))
                    if not ok:
                        viol(ctx, 'derived-wrong ProductSpace op=getitem index=tuple',
                             '{}[{},0] is not {}[{}][0]'.format(sn, i, sn, i),
                             {'kind': 'derived', 'op': 'pspace-getitem', 'space': sn})
        # ---- byaxis (tensor spaces) / byaxis_in (discretized spaces)
        if (is_t or is_d) and s.ndim >= 1:
            nd = s.ndim
            idxs = [0, nd - 1, slice(None), slice(1, None), slice(None, None, -1), [0],
                    [nd - 1, 0], [0, 0]]
            w = s.weighting if is_t else s.tspace.weighting
            for idx in idxs:
                reg = Reg()
                try:
                    s_desc = describe_space(s, reg)
                except ValueError:
                    s_desc = None
                reg.frozen = True     # arrays created by byaxis are "fresh" (token 0)
                r, err, impl = outcome(
                    lambda: (s.byaxis if is_t else s.byaxis_in)[idx], reg)
                kind = type(idx).__name__
                rep = {'kind': 'derived', 'op': 'byaxis', 'space': sn, 'index': str(idx)}
                arrw = isinstance(w, ArrayWeighting)
                ctx.case(('byaxis', cls(s), kind, impl.split(' ')[0], arrw))
                ctx.hit('byaxis/{}/{}{}'.format(cls(s), impl.split(' ')[0],
                                                '/array-weighting' if arrw else ''))
                # the model of NumpyTensorSpace.byaxis covers every weighting, also when the
                # code raises ("raise" must then be the model's answer too)
                wire = pidx_wire(idx, nd)
                if is_t and impl != 'unmodelled' and wire and s_desc:
                    flen = (len(range(*idx.indices(s.shape[0]))) if isinstance(idx, slice)
                            and s.ndim else 0)
                    send(rep, 'derive op=byaxis S={} idx={} flen={}'.format(s_desc, wire, flen),
                         impl)
                want_shape = ((s.shape[idx],) if isinstance(idx, int) else
                              tuple(s.shape[idx]) if isinstance(idx, slice) else
                              tuple(s.shape[i] for i in idx))
                # input class of the case, in words, for the violation key
                what = 'weighting=array' if arrw else 'weighting=other'
                if is_d and not isinstance(idx, int) and len(want_shape) == 0:
                    what += ' selection=empty'
                elif is_d and not s.is_uniform:
                    what += ' partition=nonuniform'
                elif is_d and isinstance(idx, slice) and (idx.step or 1) < 0 and nd > 1:
                    what += ' slice=negative-step'
                if err is not None:
                    viol(ctx, 'derived-raises {} op=byaxis {}'.format(cls(s), what),
                         '{}.byaxis[{}] raised {}: {}'.format(sn, idx, type(err).__name__,
                                                              str(err)[:100]), rep)
                    continue
                if is_d and 'slice=negative-step' in what:
                    continue   # partition.byaxis semantics for reversed slices belong to C14
                probs = []
                full = (want_shape == tuple(s.shape) and not isinstance(idx, int))
                if arrw and full and not (r == s):
                    probs.append('selecting all axes in order gives a space != the original')
                if arrw and tuple(np.shape(r.weighting.array if is_t else
                                           r.tspace.weighting.array)) != want_shape:
                    probs.append('weight array of the result has the wrong shape')
                if tuple(r.shape) != want_shape:
                    probs.append('shape {} != {}'.format(r.shape, want_shape))
                if r.dtype != s.dtype or r.exponent != s.exponent or type(r) is not type(s):
                    probs.append('dtype/exponent/class changed')
                if is_t and not arrw and not (r.weighting == s.weighting):
                    probs.append('weighting changed')
                if is_d:
                    try:
                        if not (r.partition == s.partition.byaxis[idx]):
                            probs.append('partition is not the selected one')
                    except Exception as e:  # noqa
                        probs.append('partition comparison raised ' + type(e).__name__)
                if probs:
                    viol(ctx, 'derived-wrong {} op=byaxis {}'.format(cls(s), what),
                         '{}.byaxis[{}]: {}'.format(sn, idx, '; '.join(probs)), rep)
    # ---- element indexing commutes with asarray
    done = set()
    for xn, xs, x in elems:
        if xn in done:
            continue
        done.add(xn)
        if type(xs) is odl.ProductSpace:
            if len(xs) == 0:
                continue
            n = len(xs)
            idxs = [0, -1, slice(None), slice(1, None), slice(None, None, 2), [0], [n - 1, 0]]
            if xs.is_power_space and not isinstance(xs.spaces[0], odl.ProductSpace) \
                    and xs.spaces[0].ndim == 1:
                idxs += [(0, 0), (n - 1, slice(1, None)), (slice(None), 0)]
            for idx in idxs:
                rep = {'kind': 'index', 'space': xn, 'index': str(idx)}
                ctx.case(('pelem-index', type(idx).__name__, xs.is_power_space))
                try:
                    y = x[idx]
                    if isinstance(idx, int):
                        ok = y is x.parts[idx]
                    elif isinstance(idx, tuple):
                        ref = x.asarray()[idx]
                        got = np.asarray(y.asarray() if hasattr(y, 'asarray') else y)
                        ok = np.array_equal(got.reshape(ref.shape), ref)
                    else:
                        sel = x.parts[idx] if isinstance(idx, slice) else [x.parts[i] for i in idx]
                        ok = len(y.parts) == len(sel) and all(a is b for a, b in zip(y.parts, sel))
                        if xs.is_power_space and len(sel) > 0:
                            ok = ok and np.array_equal(y.asarray(), x.asarray()[idx])
                    what = 'x[{}] does not select the same entries as x.asarray()[{}]'.format(
                        idx, idx)
                except Exception as e:  # noqa
                    ok, what = False, 'x[{}] raised {}: {}'.format(idx, type(e).__name__,
                                                                   str(e)[:80])
                if not ok:
                    leafw = ['array' if isinstance(
                        c.weighting if type(c) is NumpyTensorSpace else c.tspace.weighting,
                        ArrayWeighting) else 'other' for c in _leaves(xs)]
                    viol(ctx, 'index-wrong ProductSpaceElement index={} weighting={}'.format(
                        type(idx).__name__, 'array' if 'array' in leafw else 'other'),
                         '{}: {}'.format(xn, what), rep)
            continue
        if xs.ndim == 0 or xs.size == 0:
            continue
        w = xs.weighting if is_space(xs) and type(xs) is NumpyTensorSpace else xs.tspace.weighting
        nd = xs.ndim
        idxs = [0, -1, slice(None), slice(1, None), slice(None, None, 2), slice(None, None, -1),
                [0], [xs.shape[0] - 1, 0], Ellipsis]
        if nd >= 2:
            idxs += [(0, 0), (slice(None), 0), (0, slice(1, None)), (slice(None), slice(None, 1)),
                     ([0, 0], [0, xs.shape[1] - 1])]
        for idx in idxs:
            rep = {'kind': 'index', 'space': xn, 'index': str(idx)}
            ref = x.asarray()[idx]
            reg = Reg()
            arrw = isinstance(w, ArrayWeighting)
            ts0 = xs if type(xs) is NumpyTensorSpace else xs.tspace
            try:
                ts_desc = describe_space(ts0, reg)
            except ValueError:
                ts_desc = None
            reg.frozen = True
            ctx.case(('elem-index', cls(xs), type(idx).__name__, np.isscalar(ref) or ref.ndim == 0,
                      arrw))
            try:
                y = x[idx]
                err = None
            except Exception as e:  # noqa
                y, err = None, e
            ts = xs if type(xs) is NumpyTensorSpace else xs.tspace
            if err is not None:
                viol(ctx, 'index-raises {} weighting={}'.format(
                    type(x).__name__, 'array' if arrw else 'other'),
                    '{}: x[{}] raised {}: {}'.format(xn, idx, type(err).__name__, str(err)[:80]),
                    rep)
                impl = 'raise'
            else:
                got = np.asarray(y)
                probs = []
                if got.shape != np.shape(ref) or not np.array_equal(got, ref):
                    probs.append('values differ from x.asarray()[idx]')
                if hasattr(y, 'space'):
                    if y.space.dtype != xs.dtype or y.space.exponent != xs.exponent:
                        probs.append('dtype/exponent of the result space changed')
                    if not arrw and not (y.space.weighting == ts.weighting):
                        probs.append('weighting of the result space changed')
                    if arrw and not (isinstance(y.space.weighting, ArrayWeighting) and
                                     np.array_equal(np.asarray(y.space.weighting.array),
                                                    np.asarray(w.array)[idx])):
                        probs.append('weights of the result space are not weights[idx]')
                    if y not in y.space:
                        probs.append('result not in its own space')
                if probs:
                    viol(ctx, 'index-wrong {} weighting={}'.format(
                        type(x).__name__, 'array' if arrw else 'other'),
                        '{}: x[{}]: {}'.format(xn, idx, '; '.join(probs)), rep)
                impl = None
                if hasattr(y, 'space') and ts_desc:
                    try:
                        impl = 'ok ' + space_desc(y.space, reg)
                    except ValueError:
                        impl = None
            if impl is not None and np.ndim(ref) > 0 and xs.dtype.kind in 'iufc' and ts_desc:
                send(rep, 'derive op=indexspace S={} shape={}'.format(
                    ts_desc, L(str(k) for k in np.shape(ref))), impl)
    outs = core.run_driver('C20', lines)
    for (rep, impl), ans in zip(meta, outs):
        if ans != impl:
            ctx.disagree(rep, impl[:300], ans[:300])


# ---------------------------------------------------------------------------
# OPTIONS stream: element(inp, **options) for every space kind x input kind x keyword option

def _dy(rng, shape, dt):
    n = int(np.prod(shape)) if shape else 1
    v = np.array([rng.randint(0, 12) / 4 for _ in range(n)]).reshape(shape)
    return v.astype(dt)


def _src_array(inp):
    if isinstance(inp, np.ndarray):
        return inp
    if hasattr(inp, 'tensor'):
        return inp.tensor.data
    if hasattr(inp, 'data') and isinstance(inp.data, np.ndarray):
        return inp.data
    return None


def tensor_like_inputs(S, rng, is_discr):
    """(input kind, input, is member) for a tensor / discretized space S"""
    import odl
    sh, dt = tuple(S.shape), S.dtype
    eq = rebuild(S)
    yield 'own-element', S.element(_dy(rng, sh, dt)), True
    yield 'own-element-F', S.element(np.asfortranarray(_dy(rng, sh, dt))), True
    yield 'equal-space-element', eq.element(_dy(rng, sh, dt)), True
    other_dt = 'float32' if dt != np.dtype('float32') else 'float64'
    yield 'other-dtype-element', odl.tensor_space(sh, dtype=other_dt).element(
        _dy(rng, sh, other_dt)), False
    if is_discr:
        yield 'tspace-element', S.tspace.element(_dy(rng, sh, dt)), False
        yield 'equal-tspace-element', rebuild(S.tspace).element(_dy(rng, sh, dt)), False
    yield 'ndarray-C', np.ascontiguousarray(_dy(rng, sh, dt)), False
    yield 'ndarray-F', np.asfortranarray(_dy(rng, sh, dt)), False
    big = np.zeros(tuple(2 * n for n in sh), dtype=dt)
    view = big[tuple(slice(None, None, 2) for _ in sh)]
    view[...] = _dy(rng, sh, dt)
    yield 'ndarray-strided', view, False
    yield 'ndarray-other-dtype', _dy(rng, sh, other_dt), False
    ro = np.broadcast_to(_dy(rng, sh[-1:], dt), sh)
    yield 'ndarray-readonly', ro, False
    yield 'nested-list', _dy(rng, sh, 'float64').tolist(), False
    yield 'wrong-shape', _dy(rng, tuple(n + 1 for n in sh), dt), False
    yield 'extra-axis', _dy(rng, sh + (2,), dt), False


def run_tensor_options(ctx):
    import odl
    import warnings
    rng = ctx.rng
    spaces = [('rn((2,3))', odl.rn((2, 3))), ('rn((2,3),f32,w=2)', odl.rn((2, 3), dtype='float32',
                                                                      weighting=2.0)),
              ('cn(3)', odl.cn(3)), ('ts((3,2),int64)', odl.tensor_space((3, 2), dtype='int64')),
              ('ud((0,0),(1,1),(2,3))', odl.uniform_discr([0, 0], [1, 1], (2, 3))),
              ('ud(0,1,4,f32)', odl.uniform_discr(0, 1, 4, dtype='float32')),
              ('ud(0,1,3,c128,e=1)', odl.uniform_discr(0, 1, 3, dtype='complex128', exponent=1.0))]
    for sn, S in spaces:
        is_d = isinstance(S, odl.DiscretizedSpace)
        kind = cls(S)
        for ik, inp, member in tensor_like_inputs(S, rng, is_d):
            for order in (None, 'C', 'F'):
                opt = 'order={}'.format(order)
                rep = {'kind': 'elemopt', 'space': sn, 'input': ik, 'option': opt}
                ctx.case(('elemopt', kind, ik, opt))
                ctx.hit('element/{}/{}/{}'.format(kind, ik, opt))
                src = _src_array(inp)
                a = np.asarray(inp.asarray() if hasattr(inp, 'asarray') else inp)
                shape_ok = (1,) * max(0, S.ndim - a.ndim) + a.shape == tuple(S.shape)
                probs = []
                try:
                    if bool(inp in S) != member:
                        probs.append('`inp in space` is {} (expected {})'.format(inp in S, member))
                except Exception as e:  # noqa
                    probs.append('`inp in space` raised ' + type(e).__name__)
                with warnings.catch_warnings():
                    warnings.simplefilter('ignore')
                    try:
                        res, err = S.element(inp, order=order), None
                    except Exception as e:  # noqa
                        res, err = None, e
                if not shape_ok:
                    if err is None or not isinstance(err, ValueError):
                        probs.append('wrong shape did not raise ValueError ({})'.format(
                            type(err).__name__ if err else 'returned'))
                elif err is not None:
                    probs.append('raised {}: {}'.format(type(err).__name__, str(err)[:80]))
                else:
                    data = res.tensor.data if is_d else res.data
                    if res not in S:
                        probs.append('result not in the space')
                    if data.dtype != S.dtype or data.shape != tuple(S.shape):
                        probs.append('data dtype/shape {} {}'.format(data.dtype, data.shape))
                    if not np.array_equal(data, a.astype(S.dtype).reshape(S.shape)):
                        probs.append('values differ from the converted input')
                    if order == 'C' and not data.flags.c_contiguous or \
                            order == 'F' and not data.flags.f_contiguous:
                        probs.append('data not {}-contiguous'.format(order))
                    if member and order is None and res is not inp:
                        probs.append('member with order=None is not returned as is')
                    if is_d and ik in ('tspace-element', 'equal-tspace-element') and \
                            order is None and res.tensor is not inp:
                        probs.append('tensor of the tspace is not wrapped as is')
                    if not data.flags.writeable:
                        probs.append('result not writeable')
                    # documented no-copy rule: correct shape and dtype (and contiguity in
                    # `order` if given, and writeable) <=> memory is shared
                    if src is not None:
                        can_share = (src.dtype == S.dtype and src.flags.writeable and
                                     (order is None or
                                      (order == 'C' and src.flags.c_contiguous) or
                                      (order == 'F' and src.flags.f_contiguous)))
                        shares = bool(np.shares_memory(data, src))
                        if shares != can_share:
                            probs.append('shares memory: {} (documented: {})'.format(
                                shares, can_share))
                if probs:
                    viol(ctx, 'element-option {} input={} {}'.format(kind, ik, opt),
                         '{}.element(<{}>, {}): {}'.format(sn, ik, opt, '; '.join(probs)), rep)
        # data_ptr (tensor spaces) and callables (discretized spaces)
        if not is_d:
            for order in ('C', 'F', None):
                opt = 'data_ptr,order={}'.format(order)
                ctx.case(('elemopt', kind, 'data_ptr', opt))
                ctx.hit('element/{}/data_ptr/{}'.format(kind, opt))
                arr = np.array(_dy(rng, tuple(S.shape), S.dtype), order=order or 'C')
                probs = []
                try:
                    res = S.element(data_ptr=arr.ctypes.data, order=order)
                    if order is None:
                        probs.append('order=None with data_ptr did not raise')
                    elif not (np.shares_memory(res.data, arr) and np.array_equal(res.data, arr)
                              and res in S):
                        probs.append('element from pointer does not view the array')
                except ValueError as e:
                    if order is not None:
                        probs.append('raised ValueError: ' + str(e)[:80])
                except Exception as e:  # noqa
                    probs.append('raised {}: {}'.format(type(e).__name__, str(e)[:80]))
                try:
                    S.element(arr, data_ptr=arr.ctypes.data, order='C')
                    probs.append('inp together with data_ptr did not raise')
                except TypeError:
                    pass
                except Exception as e:  # noqa
                    probs.append('inp+data_ptr raised ' + type(e).__name__)
                if probs:
                    viol(ctx, 'element-option {} input=data_ptr {}'.format(kind, opt),
                         '{}: {}'.format(sn, '; '.join(probs)),
                         {'kind': 'elemopt', 'space': sn, 'input': 'data_ptr', 'option': opt})
        elif S.dtype.kind == 'f':
            pts = S.points().T   # (ndim, n)
            funcs = [('callable-vectorized', (lambda x: sum((k + 1) * xi for k, xi in enumerate(x))),
                      {}, lambda p: sum((k + 1) * p[k] for k in range(S.ndim))),
                     ('callable-with-parameter',
                      _param_func, {'c': 2.0}, lambda p: 2.0 * p[0])]
            for ik, fn, kw, ref in funcs:
                for order in (None, 'C', 'F'):
                    opt = 'order={}'.format(order)
                    ctx.case(('elemopt', kind, ik, opt))
                    ctx.hit('element/{}/{}/{}'.format(kind, ik, opt))
                    probs = []
                    try:
                        res = S.element(fn, order=order, **kw)
                        want = np.asarray(ref(pts), dtype=S.dtype).reshape(S.shape)
                        if res not in S or res.tensor.data.dtype != S.dtype:
                            probs.append('result not in the space / wrong dtype')
                        if not np.allclose(res.asarray(), want, rtol=1e-6, atol=0):
                            probs.append('values are not the function at the grid points')
                        if order == 'F' and not res.tensor.data.flags.f_contiguous or \
                                order == 'C' and not res.tensor.data.flags.c_contiguous:
                            probs.append('data not {}-contiguous'.format(order))
                    except Exception as e:  # noqa
                        probs.append('raised {}: {}'.format(type(e).__name__, str(e)[:80]))
                    if probs:
                        viol(ctx, 'element-option {} input={} {}'.format(kind, ik, opt),
                             '{}.element(<{}>, {}): {}'.format(sn, ik, opt, '; '.join(probs)),
                             {'kind': 'elemopt', 'space': sn, 'input': ik, 'option': opt})


def _param_func(x, c=0.0):
    return c * x[0]


def _rebuilt_member(space, rng):
    """an element of an EQUAL but separately built space (inner product spaces and parts
    rebuilt too), with small dyadic values"""
    return some_element(rebuild(space), rng)


def pspace_inputs(P, rng):
    """(input kind, input, expectation) with expectation in
    'same' (element of an equal space), 'members' (all items members: wrapped as they are),
    'convertible' (cast=True converts, cast=False raises TypeError), 'length' (ValueError)"""
    import odl
    comps = list(P.spaces)
    yield 'own-element', some_element(P, rng), 'same'
    yield 'equal-space-element', _rebuilt_member(P, rng), 'same'
    own = [some_element(c, rng) for c in comps]
    eq = [_rebuilt_member(c, rng) for c in comps]
    yield 'list-of-own-members', list(own), 'members'
    yield 'tuple-of-own-members', tuple(own), 'members'
    yield 'list-of-equal-space-members', list(eq), 'members'
    yield 'tuple-of-equal-space-members', tuple(eq), 'members'
    if len(comps) > 1:
        yield 'list-own-and-equal-mixed', [o if k % 2 else e
                                           for k, (o, e) in enumerate(zip(own, eq))], 'members'
    raw = [_raw_of(c, rng) for c in comps]
    yield 'list-of-arrays', raw, 'convertible'
    yield 'nested-lists', [_tolist(r) for r in raw], 'convertible'
    yield 'list-member-and-array', [own[0]] + raw[1:] if len(comps) > 1 else [raw[0]], \
        'convertible' if len(comps) > 1 else 'convertible'
    if P.is_power_space and not isinstance(comps[0], odl.ProductSpace):
        full = (len(P),) + tuple(comps[0].shape)
        yield 'stacked-2d-array', _dy(rng, full, 'float64'), 'convertible'
        yield 'stacked-2d-array-F', np.asfortranarray(_dy(rng, full, 'float64')), 'convertible'
        yield 'stacked-2d-array-wrong-length', _dy(rng, (len(P) + 1,) + full[1:], 'float64'), \
            'length'
    yield 'list-too-short', list(own[:-1]), 'length'
    yield 'list-too-long', list(own) + [own[0]], 'length'
    wrong = odl.tensor_space(tuple(next(_leaves(comps[-1])).shape), dtype='float32')
    if not isinstance(comps[-1], odl.ProductSpace) and comps[-1].dtype != wrong.dtype:
        yield 'list-last-other-dtype-element', list(own[:-1]) + [some_element(wrong, rng)], \
            'convertible'


def _raw_of(space, rng):
    import odl
    if isinstance(space, odl.ProductSpace):
        return [_raw_of(c, rng) for c in space.spaces]
    return _dy(rng, tuple(space.shape), 'float64')


def _tolist(r):
    return [_tolist(x) for x in r] if isinstance(r, list) else r.tolist()


def run_pspace_options(ctx):
    import odl
    import warnings
    rng = ctx.rng
    r2, r3 = odl.rn(2), odl.rn(3)
    spaces = [('P(r2,r3)', odl.ProductSpace(r2, r3)),
              ('P(r3,2)', odl.ProductSpace(r3, 2)),
              ('P(r2,r3,w=2,e=1)', odl.ProductSpace(r2, r3, weighting=2.0, exponent=1.0)),
              ('P(ud,r3)', odl.ProductSpace(odl.uniform_discr(0, 1, 3), r3)),
              ('P(P(r2,2),r3)', odl.ProductSpace(odl.ProductSpace(r2, 2), r3)),
              ('P(P(P(r2,2),ud),2)', odl.ProductSpace(odl.ProductSpace(
                  odl.ProductSpace(r2, 2), odl.uniform_discr(0, 1, 2)), 2)),
              ('P(c2,2)', odl.ProductSpace(odl.cn(2), 2))]
    lines, meta = [], []
    for sn, P in spaces:
        for ik, inp, exp in pspace_inputs(P, rng):
            if _has_complex(inp) != (next(_leaves(P)).dtype.kind == 'c') and exp != 'length':
                pass
            for cast in (True, False):
                opt = 'cast={}'.format(cast)
                rep = {'kind': 'elemopt', 'space': sn, 'input': ik, 'option': opt}
                ctx.case(('elemopt', 'ProductSpace', ik, opt))
                ctx.hit('element/ProductSpace/{}/{}'.format(ik, opt))
                with warnings.catch_warnings():
                    warnings.simplefilter('ignore')
                    try:
                        res, err = P.element(inp, cast=cast), None
                    except Exception as e:  # noqa
                        res, err = None, e
                probs = []
                items = (list(inp.parts) if hasattr(inp, 'parts') else list(inp)) \
                    if exp != 'same' else None
                if exp == 'same':
                    if not (inp in P):
                        probs.append('element of an equal space is not `in` the space')
                    if err is not None:
                        probs.append('raised {}: {}'.format(type(err).__name__, str(err)[:80]))
                    elif res is not inp:
                        probs.append('element of the (equal) space is not returned as is')
                elif exp == 'members':
                    if not all(v in c for v, c in zip(items, P.spaces)):
                        probs.append('items are not `in` their components')
                    if err is not None:
                        probs.append('raised {} although every item is an element of the '
                                     'respective component: {}'.format(type(err).__name__,
                                                                       str(err)[:80]))
                    else:
                        if res not in P:
                            probs.append('result not in the space')
                        if not all(p is q for p, q in zip(res.parts, items)):
                            probs.append('member items are not used as the parts')
                elif exp == 'convertible':
                    if cast:
                        if err is not None:
                            probs.append('raised {}: {}'.format(type(err).__name__,
                                                                str(err)[:80]))
                        else:
                            if res not in P:
                                probs.append('result not in the space')
                            got, want = flat_values(res), flat_values(inp)
                            if len(got) != len(want) or any(g != w for g, w in zip(got, want)):
                                probs.append('values differ from the input')
                    elif not isinstance(err, TypeError):
                        probs.append('cast=False did not raise TypeError for items that are not '
                                     'elements ({})'.format(type(err).__name__ if err
                                                            else 'returned'))
                elif exp == 'length':
                    if not isinstance(err, ValueError):
                        probs.append('wrong length did not raise ValueError ({})'.format(
                            type(err).__name__ if err else 'returned'))
                if probs:
                    viol(ctx, 'element-option ProductSpace input={} {}'.format(ik, opt),
                         '{}.element(<{}>, {}): {}'.format(sn, ik, opt, '; '.join(probs)), rep)
                # correspondence with the model (`Space.elementC`)
                reg = Reg()
                try:
                    if err is None:
                        impl = canon_result(res, inp)
                    else:
                        impl = {'ValueError': 'errValue', 'TypeError': 'errType'}.get(
                            type(err).__name__, 'err:' + type(err).__name__)
                    lines.append('element S={} inp={} forced=0 cast={}'.format(
                        describe_space(P, reg), describe_inp(inp, reg, P), int(cast)))
                    meta.append((rep, impl))
                except ValueError as e:
                    ctx.notes.append('option case not modelled: {} <{}> ({})'.format(sn, ik, e))
    outs = core.run_driver('C20', lines)
    for (rep, impl), ans in zip(meta, outs):
        if ans == 'ok outside':
            ctx.hit('element/outside-model-range')
        elif ans != 'ok ' + impl:
            ctx.disagree(rep, impl[:300], ans[:300])


def run_element_options(ctx):
    run_tensor_options(ctx)
    run_pspace_options(ctx)


# ---------------------------------------------------------------------------
# HISTORY stream: chains of conversions; equal spaces must behave equally whatever their past
# (astype / real_space / complex_space cache their results per instance)

ALL_DTYPES = ['float16', 'float32', 'float64', 'float128', 'complex64', 'complex128',
              'complex256', 'int8', 'int32', 'int64', 'uint8', 'uint64', 'bool']


def _np_real(d):
    d = np.dtype(d)
    return np.finfo(d).dtype if d.kind == 'c' else d if d.kind in 'iuf' else None


def _np_complex(d):
    d = np.dtype(d)
    return d if d.kind == 'c' else np.promote_types(d, np.complex64) if d.kind == 'f' else None


def rebuild(s):
    """An equal space built from scratch from the attributes of `s` (no shared caches)."""
    import odl
    from odl.space.npy_tensors import NumpyTensorSpace
    if type(s) is NumpyTensorSpace:
        if s.dtype.kind in 'iufc':
            return NumpyTensorSpace(s.shape, s.dtype, weighting=s.weighting)
        return NumpyTensorSpace(s.shape, s.dtype, exponent=s.exponent)
    if type(s) is odl.DiscretizedSpace:
        return odl.DiscretizedSpace(s.partition, rebuild(s.tspace), axis_labels=s.axis_labels)
    if type(s) is odl.ProductSpace:
        return odl.ProductSpace(*[rebuild(c) for c in s.spaces], weighting=s.weighting,
                                field=s.field)
    raise ValueError('cannot rebuild ' + type(s).__name__)


def _apply(s, op):
    """(outcome kind, result) of one conversion; never raises"""
    import warnings
    with warnings.catch_warnings():
        warnings.simplefilter('ignore')
        try:
            if op[0] == 'astype':
                return 'ok', s.astype(op[1])
            return 'ok', getattr(s, op[0])
        except Exception as e:  # noqa
            return 'raise:' + type(e).__name__, None


def _expected_leaf_dtypes(s, op):
    """dtypes of the leaves after `op`, from NumPy alone; None = must raise"""
    out = []
    for c in _leaves(s):
        d = c.dtype
        if op[0] == 'astype':
            e = np.dtype(op[1])
        elif op[0] == 'real_space':
            e = _np_real(d)
        else:
            e = _np_complex(d)
        if e is None:
            return None
        out.append(e)
    return out


def _probe_values(space, rng):
    """values exactly representable in the component dtype of `space` but using (almost) all
    of its precision, so that a detour through a narrower dtype shows"""
    d = space.dtype
    n = int(np.prod(space.shape, dtype='int64'))
    if d.kind in 'fc':
        nm = min(np.finfo(d).nmant, 40)
        eps = 2.0 ** -(nm - 3)
        re = np.array([rng.randint(1, 4) + eps for _ in range(n)], dtype=np.finfo(d).dtype)
        if d.kind == 'c':
            im = np.array([rng.randint(1, 4) + 2 * eps for _ in range(n)],
                          dtype=np.finfo(d).dtype)
            return (re + 1j * im).astype(d).reshape(space.shape)
        return re.astype(d).reshape(space.shape)
    if d.kind in 'iu':
        return np.array([rng.randint(0, 9) for _ in range(n)], dtype=d).reshape(space.shape)
    return None


def _history_elem_checks(ctx, cur, fresh, path, rng):
    """(4) real / imag parts of elements of a space with history"""
    import warnings
    for sc, sf in zip(_leaves(cur), _leaves(fresh)):
        if sc.dtype.kind not in 'fc' or sc.size == 0:
            continue   # `.real` / `.imag` of integer elements raise NotImplementedError by an
            #            explicit branch of the code (outside the property: observation only)
        vals = _probe_values(sc, rng)
        kind = cls(sc)
        rep = {'kind': 'history', 'path': path, 'what': 'element.real/imag'}
        ctx.case(('history-elem', kind, sc.dtype.name))
        ctx.hit('history/{}/elem-real-imag'.format(kind))
        with warnings.catch_warnings():
            warnings.simplefilter('ignore')
            try:
                z, zf = sc.element(vals), sf.element(vals)
                parts = [('real', z.real, zf.real, np.asarray(vals).real)]
                if sc.dtype.kind in 'fc':
                    parts.append(('imag', z.imag, zf.imag, np.asarray(vals).imag))
                probs = []
                for nm, p, pf, ref in parts:
                    want = _np_real(sc.dtype)
                    if p.dtype != want:
                        probs.append('.{} has dtype {}, expected {}'.format(nm, p.dtype, want))
                    if not np.array_equal(np.asarray(p.asarray()), ref.astype(want)):
                        probs.append('.{} does not hold the {} parts of the values'.format(nm, nm))
                    if not (p.space == pf.space and hash(p.space) == hash(pf.space)):
                        probs.append('.{}.space is {!r} but {!r} for a freshly built equal '
                                     'space'.format(nm, p.space, pf.space))
            except Exception as e:  # noqa
                probs = ['raised {}: {}'.format(type(e).__name__, str(e)[:100])]
        if probs:
            viol(ctx, 'history-element-parts {} dtype={}'.format(kind, sc.dtype.name),
                 'after {}: element of {!r}: {}'.format(' -> '.join(path), sc, '; '.join(probs)),
                 rep)


def history_starts(ctx):
    import odl
    rng = ctx.rng
    starts = []
    for dt in ALL_DTYPES:
        num = np.dtype(dt).kind in 'iufc'
        kw = {'weighting': 1.5} if num else {}
        starts.append(('ts((2,3),{})'.format(dt), lambda dt=dt, kw=kw: odl.tensor_space(
            (2, 3), dtype=dt, **kw)))
        if num:
            starts.append(('ts(3,{},e=1)'.format(dt), lambda dt=dt: odl.tensor_space(
                3, dtype=dt, exponent=1.0)))
            starts.append(('ud((0,0),(1,1),(2,3),{})'.format(dt), lambda dt=dt: odl.uniform_discr(
                [0, 0], [1, 1], (2, 3), dtype=dt)))
            starts.append(('P(ts(2,{}),2,w=2,e=1)'.format(dt), lambda dt=dt: odl.ProductSpace(
                odl.tensor_space(2, dtype=dt), 2, weighting=2.0, exponent=1.0)))
    starts.append(('P(rn(2),rn(3,f16))', lambda: odl.ProductSpace(
        odl.rn(2), odl.rn(3, dtype='float16'))))
    starts.append(('P(cn(2,c64),ud(0,1,3,c64))', lambda: odl.ProductSpace(
        odl.cn(2, dtype='complex64'), odl.uniform_discr(0, 1, 3, dtype='complex64'))))
    return starts


def run_history(ctx):
    rng = ctx.rng
    base_ops = [('real_space',), ('complex_space',)]
    for name, make in history_starts(ctx):
        try:
            s0 = make()
        except Exception as e:  # noqa
            viol(ctx, 'constructor-raises history-start',
                 '{} raised {}'.format(name, type(e).__name__), {'kind': 'history', 'path': [name]})
            continue
        d0 = next(_leaves(s0)).dtype
        # systematic chains of length 2 over the counterpart conversions (every order), and
        # random walks over all dtypes
        conv = list(base_ops)
        for e in (_np_real(d0), _np_complex(d0)):
            if e is not None:
                conv.append(('astype', np.dtype(e).name))
        chains = [[a, b] for a in conv for b in base_ops + [('astype', d0.name)]]
        for _ in range(2 if ctx.quick else 8):
            chains.append([rng.choice(base_ops + [('astype', rng.choice(ALL_DTYPES))])
                           for _ in range(rng.randint(3, 5))])
        for chain in chains:
            cur = make()
            path = [name]
            for op in chain:
                opname = op[0] if len(op) == 1 else 'astype({})'.format(op[1])
                kind = cls(cur)
                rep = {'kind': 'history', 'path': path + [opname]}
                try:
                    fresh = rebuild(cur)
                except Exception as e:  # noqa
                    ctx.notes.append('history: cannot rebuild {!r}: {}'.format(cur, e))
                    break
                cur_dt = [c.dtype.name for c in _leaves(cur)]
                ctx.case(('history', kind, op[0], tuple(sorted(set(cur_dt))),
                          path[-1].split('(')[0] if len(path) > 1 else 'start'))
                ctx.hit('history/{}/{}'.format(kind, op[0]))
                if len(path) > 1:
                    ctx.hit('history/chain/{}>{}'.format(path[-1].split('(')[0], op[0]))
                for d in set(cur_dt):
                    ctx.hit('history/dtype/' + d)
                if not (fresh == cur and hash(fresh) == hash(cur)):
                    viol(ctx, 'history-rebuild-unequal {}'.format(kind),
                         'a space rebuilt from the attributes of {!r} is not equal to it'.format(
                             cur), rep)
                    break
                k1, r1 = _apply(cur, op)
                k2, r2 = _apply(fresh, op)
                want = _expected_leaf_dtypes(cur, op)
                key_tail = '{} op={} dtype={}'.format(kind, op[0], '+'.join(sorted(set(cur_dt))))
                # (1) history independence
                same = (k1 == k2) and (r1 is None or (r1 == r2 and hash(r1) == hash(r2)))
                if not same:
                    viol(ctx, 'history-dependent ' + key_tail,
                         'after {}: {!r}.{} gives {} but the same call on a freshly built equal '
                         'space gives {}'.format(' -> '.join(path), cur, opname,
                                                 repr(r1) if r1 is not None else k1,
                                                 repr(r2) if r2 is not None else k2), rep)
                # (2) dtype of the result against the expectation from NumPy / the tables
                if r1 is not None:
                    got = [c.dtype for c in _leaves(r1)]
                    if want is None:
                        viol(ctx, 'history-no-raise ' + key_tail,
                             'after {}: {!r}.{} returned {!r} although there is no such '
                             'counterpart'.format(' -> '.join(path), cur, opname, r1), rep)
                    elif got != want:
                        viol(ctx, 'history-wrong-dtype ' + key_tail,
                             'after {}: {!r}.{} has dtypes {} expected {}'.format(
                                 ' -> '.join(path), cur, opname, [d.name for d in got],
                                 [d.name for d in want]), rep)
                    # (3) identities and round trips
                    if want is not None and [np.dtype(d) for d in cur_dt] == want and \
                            not (r1 == cur):
                        viol(ctx, 'history-identity ' + key_tail,
                             'after {}: {!r}.{} keeps every dtype but is != the space'.format(
                                 ' -> '.join(path), cur, opname), rep)
                    if op[0] == 'astype' and [np.dtype(d) for d in cur_dt] == want and \
                            r1 is not cur:
                        viol(ctx, 'history-identity ' + key_tail,
                             'after {}: astype(own dtype) is not the space itself'.format(
                                 ' -> '.join(path)), rep)
                    if op[0] in ('real_space', 'complex_space') and want is not None:
                        back_op = ('complex_space',) if op[0] == 'real_space' else ('real_space',)
                        exact = (_expected_leaf_dtypes(r1, back_op) ==
                                 [np.dtype(d) for d in cur_dt])
                        floating = all(np.dtype(d).kind in 'fc' for d in cur_dt)
                        if exact and floating:
                            kb, rb = _apply(r1, back_op)
                            if rb is None or not (rb == cur and hash(rb) == hash(cur)):
                                viol(ctx, 'history-round-trip ' + key_tail,
                                     'after {}: .{}.{} gives {} instead of the space'.format(
                                         ' -> '.join(path), op[0], back_op[0],
                                         repr(rb) if rb is not None else kb), rep)
                elif want is not None and not (cls(cur) == 'ProductSpace' and len(cur) == 0):
                    viol(ctx, 'history-raises ' + key_tail,
                         'after {}: {!r}.{} raised {}'.format(' -> '.join(path), cur, opname, k1),
                         rep)
                if r1 is None:
                    break
                path = path + [opname]
                cur = r1
                # (4) elements of the space with history
                try:
                    _history_elem_checks(ctx, cur, rebuild(cur), path, rng)
                except ValueError:
                    pass


# ---------------------------------------------------------------------------
# round 4: membership in plain sets — `x in S`, `A.contains_set(B[, atol])`,
# `F.contains_all(array)`  (model: PSet.mem / PLeaf.containsSet / PLeaf.containsAllDtype)

_ALPHA = 'abxy'
_REALS = (bool, int, float, np.integer, np.floating)


def describe_scalar(v):
    """wire form of a Python / NumPy scalar (reads the live object)"""
    if v is None:
        return 'n'
    if isinstance(v, np.bool_):
        raise ValueError('np.bool_ is outside the model')
    if isinstance(v, bool):
        return 'b({})'.format(int(v))
    if isinstance(v, (int, np.integer)):
        return 'i({})'.format(int(v))
    if isinstance(v, (float, np.floating)):
        return 'r({})'.format(fs(v))
    if isinstance(v, (complex, np.complexfloating)):
        return '{}({},{})'.format('cn' if isinstance(v, np.complexfloating) else 'c',
                                  fs(float(v.real)), fs(float(v.imag)))
    if isinstance(v, str):
        if not all(c in _ALPHA for c in v):
            raise ValueError('text outside the model')
        return 's({})'.format(v)
    raise ValueError('value outside the model: {!r}'.format(type(v)))


def describe_val(v):
    if isinstance(v, (tuple, list)):
        return 't(' + ','.join(describe_val(x) for x in v) + ')'
    return describe_scalar(v)


def describe_pset(o):
    """wire form of a plain set, read from the live object's attributes"""
    import odl
    from odl.set import sets as S
    t = type(o)
    if t is S.EmptySet:
        return 'empty'
    if t is S.UniversalSet:
        return 'universal'
    if t is S.Strings:
        return 'strings({})'.format(o.length)
    if t is S.ComplexNumbers:
        return 'complex'
    if t is S.RealNumbers:
        return 'real'
    if t is S.Integers:
        return 'integers'
    if t is odl.IntervalProd:
        return 'iv({},{})'.format(L([fs(x) for x in o.min_pt]), L([fs(x) for x in o.max_pt]))
    if t is S.FiniteSet:
        if any(isinstance(e, np.generic) for e in o.elements):
            # `np_scalar == sequence` is element-wise / raises: outside the model (C20-F14)
            raise ValueError('FiniteSet with NumPy scalar elements is outside the model')
        return 'fs(' + ','.join(describe_scalar(e) for e in o.elements) + ')'
    if t is S.CartesianProduct:
        return 'cart(' + ','.join(describe_pset(m) for m in o.sets) + ')'
    if t is S.SetUnion:
        return 'union(' + ','.join(describe_pset(m) for m in o.sets) + ')'
    if t is S.SetIntersection:
        return 'inter(' + ','.join(describe_pset(m) for m in o.sets) + ')'
    raise ValueError('set outside the model: {}'.format(t.__name__))


def _dyq(rng, lo=-2, hi=3):
    return rng.randint(lo * 4, hi * 4) / 4.0


def gen_scalar(rng):
    k = rng.randrange(10)
    if k == 0:
        return None
    if k == 1:
        return rng.random() < 0.5
    if k == 2:
        i = rng.randint(-2, 3)
        return rng.choice([i, np.int8(i), np.int64(i)])
    if k in (3, 4):
        x = _dyq(rng)
        return rng.choice([x, np.float32(x), np.float64(x), np.float16(x)])
    if k == 5:
        return float(rng.randint(-2, 3))
    if k == 6:
        z = complex(_dyq(rng), rng.choice([0.0, _dyq(rng)]))
        return rng.choice([z, np.complex64(z), np.complex128(z)])
    return ''.join(rng.choice(_ALPHA) for _ in range(rng.choice([0, 1, 1, 2, 2, 3])))


def gen_val(rng, depth=0):
    if depth < 2 and rng.random() < 0.3:
        seq = [gen_val(rng, depth + 1) for _ in range(rng.choice([0, 1, 2, 2, 3]))]
        return tuple(seq) if rng.random() < 0.6 else seq
    return gen_scalar(rng)


def gen_pleaf(rng, allow_zero_dim=True):
    import odl
    k = rng.randrange(12)
    if k == 0:
        return odl.EmptySet()
    if k == 1:
        return odl.UniversalSet()
    if k == 2:
        return odl.Strings(rng.randint(1, 3))
    if k == 3:
        return odl.ComplexNumbers()
    if k == 4:
        return odl.RealNumbers()
    if k == 5:
        return odl.Integers()
    if k in (6, 7, 8, 9):
        d = rng.choice([1, 1, 1, 2, 2, 3] + ([0] if allow_zero_dim and rng.random() < 0.3 else []))
        lo = [_dyq(rng, -2, 1) for _ in range(d)]
        hi = [l + rng.choice([0.0, 0.25, 0.5, 1.0, 2.0]) for l in lo]
        return odl.IntervalProd(lo, hi)
    els = [gen_scalar(rng) for _ in range(rng.choice([0, 1, 2, 3, 4]))]
    if rng.random() < 0.9:
        els = [e.item() if isinstance(e, np.generic) else e for e in els]
    return odl.FiniteSet(*els)


def gen_pset(rng, depth=0):
    import odl
    if depth >= 3 or rng.random() < (0.45 if depth else 0.25):
        return gen_pleaf(rng)
    k = rng.randrange(3)
    n = rng.choice([0, 1, 2, 2, 3]) if rng.random() < 0.9 else 0
    ms = [gen_pset(rng, depth + 1) for _ in range(n)]
    if ms and rng.random() < 0.25:
        ms.append(ms[0])                       # duplicate member (unions drop it)
    ctor = (odl.CartesianProduct, odl.SetUnion, odl.SetIntersection)[k]
    return ctor(*ms)


def targeted_val(rng, S, depth=0):
    """a value that has a fair chance of being a member of S"""
    import odl
    from odl.set import sets as M
    t = type(S)
    if t is M.EmptySet:
        return None
    if t is M.Strings:
        n = S.length + (rng.random() < 0.2)
        return ''.join(rng.choice(_ALPHA) for _ in range(n))
    if t is M.Integers:
        return rng.choice([rng.randint(-3, 3), True, np.int8(2), 2.0])
    if t is M.RealNumbers:
        return rng.choice([_dyq(rng), 1, False, np.float32(0.5), 1 + 0j])
    if t is M.ComplexNumbers:
        return rng.choice([complex(_dyq(rng), _dyq(rng)), 1, 0.5, True, np.complex64(1j)])
    if t is odl.IntervalProd:
        pt = []
        for l, h in zip(S.min_pt, S.max_pt):
            pt.append(rng.choice([float(l), float(h), float(l + h) / 2, float(l) - 0.25,
                                  float(h) + 0.25]) if rng.random() < 0.9 else
                      rng.choice([None, 1j, 'a', (0.0,)]))
        if rng.random() < 0.15:
            pt = pt + [0.0] if rng.random() < 0.5 else pt[:-1]
        if len(pt) == 1 and rng.random() < 0.6:
            return rng.choice([pt[0], np.float32(pt[0]) if isinstance(pt[0], float) else pt[0]])
        if all(isinstance(x, float) for x in pt) and rng.random() < 0.2:
            return [int(x) if x == int(x) else x for x in pt]
        return tuple(pt) if rng.random() < 0.7 else list(pt)
    if t is M.FiniteSet:
        if S.elements and rng.random() < 0.8:
            e = rng.choice(S.elements)
            if isinstance(e, _REALS) and not isinstance(e, str) and rng.random() < 0.5:
                return rng.choice([float(e), complex(e), int(e) if e == int(e) else e,
                                   bool(e) if e in (0, 1) else e])
            return e
        return gen_scalar(rng)
    if t is M.CartesianProduct:
        items = [targeted_val(rng, m, depth + 1) for m in S.sets]
        if items and all(isinstance(x, str) and len(x) == 1 for x in items) and rng.random() < 0.5:
            return ''.join(items)
        if rng.random() < 0.1:
            items = items[:-1] if items and rng.random() < 0.5 else items + [None]
        return tuple(items) if rng.random() < 0.6 else list(items)
    if t in (M.SetUnion, M.SetIntersection):
        if S.sets:
            return targeted_val(rng, rng.choice(S.sets), depth + 1)
        return gen_scalar(rng)
    return gen_val(rng)


def _is_real(x):
    return isinstance(x, _REALS) and not isinstance(x, np.bool_)


def expected_member(S, v):
    """What `v in S` SHOULD be by the documented meaning of the set classes — written against
    Python / NumPy types only, independent of the Lean model and of odl's own code."""
    import odl
    from odl.set import sets as M
    t = type(S)
    if t is M.EmptySet:
        return v is None
    if t is M.UniversalSet:
        return True
    if t is M.Strings:
        return isinstance(v, str) and len(v) == S.length
    if t is M.ComplexNumbers:
        return _is_real(v) or isinstance(v, (complex, np.complexfloating))
    if t is M.RealNumbers:
        return _is_real(v)
    if t is M.Integers:
        return isinstance(v, (bool, int, np.integer))
    if t is odl.IntervalProd:
        if _is_real(v):
            pt = [v]
        elif isinstance(v, (tuple, list)) and all(_is_real(x) for x in v):
            pt = list(v)
        else:
            return False
        return len(pt) == S.ndim and all(float(l) <= float(x) <= float(h)
                                         for l, x, h in zip(S.min_pt, pt, S.max_pt))
    if t is M.FiniteSet:
        if isinstance(v, (tuple, list)):
            return False
        return any(type(e == v) in (bool, np.bool_) and bool(e == v) for e in S.elements)
    if t is M.CartesianProduct:
        if not isinstance(v, (tuple, list, str)):
            return False
        return len(v) == len(S.sets) and all(expected_member(m, x) for m, x in zip(S.sets, v))
    if t is M.SetUnion:
        return any(expected_member(m, v) for m in S.sets)
    if t is M.SetIntersection:
        return all(expected_member(m, v) for m in S.sets)
    raise ValueError('no expectation')


def _has_seq(v):
    return isinstance(v, (tuple, list))


def _has_np_complex(v):
    if isinstance(v, (tuple, list)):
        return any(_has_np_complex(x) for x in v)
    return isinstance(v, np.complexfloating)


def _tree_has(S, pred):
    if pred(S):
        return True
    return any(_tree_has(m, pred) for m in getattr(S, 'sets', ()))


def member_cause(S, v, results):
    """names the input class of a membership failure in words (for known_findings.json)"""
    import odl
    from odl.set import sets as M
    # C20-F14: `seq in FiniteSet(<NumPy scalars>)` compares the sequence with each NumPy scalar by
    # broadcasting: ValueError for longer sequences, and for a length-1 sequence the one-entry
    # array is truthy, so the sequence is ACCEPTED as a member. Named only when such a FiniteSet
    # node of the tree itself misanswers for this very value.
    if _has_seq(v) and _tree_has(
            S, lambda o: type(o) is M.FiniteSet and any(isinstance(e, np.generic)
                                                        for e in o.elements)
            and _mem(o, v) != 'f'):
        return ' cause=sequence-tested-against-FiniteSet-with-NumPy-scalar-elements'
    if _has_np_complex(v) and _tree_has(S, lambda o: type(o) is odl.IntervalProd):
        return ' cause=NumPy-complex-scalar-offered-to-IntervalProd'
    return ''


def _vkind(v):
    if isinstance(v, (tuple, list)):
        return 'seq{}'.format(min(len(v), 3))
    return type(v).__name__


def _mem(S, v):
    import warnings
    try:
        with warnings.catch_warnings():
            warnings.simplefilter('ignore')      # ComplexWarning of np.array(…, dtype=float)
            r = v in S
    except Exception as e:  # noqa
        return 'x:' + type(e).__name__
    return 't' if r is True else 'f' if r is False else 'x:nonbool-' + type(r).__name__


def equal_variant(rng, S):
    """a separately built set that should compare equal to S (members rebuilt, unions and
    intersections permuted), or None"""
    import odl
    from odl.set import sets as M
    t = type(S)
    if t is odl.IntervalProd:
        return odl.IntervalProd(S.min_pt.copy(), S.max_pt.copy())
    if t is M.FiniteSet:
        els = list(S.elements)
        rng.shuffle(els)
        return odl.FiniteSet(*els)
    if t is M.Strings:
        return odl.Strings(S.length)
    if t in (M.SetUnion, M.SetIntersection):
        ms = [equal_variant(rng, m) or m for m in S.sets]
        rng.shuffle(ms)
        return t(*ms)
    if t is M.CartesianProduct:
        return t(*[equal_variant(rng, m) or m for m in S.sets])
    return t()


def expected_contains_set(A, B, atol):
    """'t' / 'f' by the documented meaning, or None where the documentation is silent"""
    import odl
    from odl.set import sets as M
    rank = {M.Integers: 0, M.RealNumbers: 1, M.ComplexNumbers: 2}
    if type(A) in rank:
        return 't' if type(B) in rank and rank[type(B)] <= rank[type(A)] else 'f'
    if type(A) is M.UniversalSet:
        return 't'
    if type(A) is M.EmptySet:
        return 't' if type(B) is M.EmptySet else 'f'
    if type(A) is odl.IntervalProd and type(B) is odl.IntervalProd and A is not B:
        if B.ndim == 0 or A.ndim == 0:
            return None
        if A.ndim != B.ndim:
            return 'f'
        a = 0.0 if atol is None else atol
        if a < 0:
            return None
        ok = all(float(la) - a <= float(lb) and float(hb) <= float(ha) + a
                 for la, ha, lb, hb in zip(A.min_pt, A.max_pt, B.min_pt, B.max_pt))
        return 't' if ok else 'f'
    return None


def run_set_membership(ctx):
    import odl
    from odl.set import sets as M
    rng = ctx.rng
    nsets = 120 if ctx.quick else 900
    lines, meta = [], []
    # fixed probes (every seed): complex values offered to interval products (C20-F13, repaired
    # in /repo 1a77968), the zero-dimensional interval product, strings as sequences
    fixed = [(odl.IntervalProd(0, 1), [np.complex64(0.5 + 1j), 0.5 + 1j, np.complex128(0.5),
                                       (np.complex64(0.5 + 1j),), [np.complex128(0.5)], 0.5,
                                       np.float32(0.5), None, 'a', True, 2]),
             (odl.IntervalProd([0, 0], [1, 1]), [[0.5, np.complex128(0.5 + 2j)], (0.5, 0.5 + 2j),
                                                 (0.5, 0.5), [0.5, None], (0.5, (0.5,)), 0.5]),
             (odl.SetUnion(odl.Integers(), odl.IntervalProd(0, 1)), [np.complex64(0.5), 0.5, 2, 2.0]),
             (odl.IntervalProd([], []), [(), [], 0.0, (0.5,)]),
             (odl.FiniteSet(1, 'a', 2.5, None), [1, 1.0, True, 1 + 0j, 'a', 'b', (1,), None, 2.5, 2]),
             (odl.CartesianProduct(odl.Strings(1), odl.Strings(1)), ['ab', ('a', 'b'), 'a', 'abx'])]
    for si in range(nsets + len(fixed)):
        if si < len(fixed):
            S, vals = fixed[si]
        else:
            S = gen_pset(rng)
            vals = None
        try:
            wire = describe_pset(S)
        except ValueError:
            wire = None                    # outside the model: oracle only
        if vals is None:
            vals = [gen_val(rng) for _ in range(6)] + [targeted_val(rng, S) for _ in range(10)]
        keep, wv = [], []
        for v in vals:
            try:
                wv.append(describe_val(v))
                keep.append(v)
            except ValueError:
                pass
        impl = [_mem(S, v) for v in keep]
        rep0 = {'kind': 'setmember', 'space': wire or repr(S)}
        # oracle 1: documented meaning
        for v, r, w in zip(keep, impl, wv):
            ctx.case(('mem', cls(S), _vkind(v), r))
            try:
                want = 't' if expected_member(S, v) else 'f'
            except ValueError:
                continue
            if r != want:
                viol(ctx, 'set-member-wrong {} value={}{}'.format(cls(S), _vkind(v),
                                                                 member_cause(S, v, [r])),
                     '{!r} in {!r} gives {} (expected {})'.format(v, S, r, want),
                     dict(rep0, x=w))
        # oracle 2: membership respects `==` (separately built equal set)
        try:
            S2 = equal_variant(rng, S)
            same = S2 is not None and (S == S2) is True
        except Exception:  # noqa
            same = False
        if same:
            for v, r, w in zip(keep, impl, wv):
                r2 = _mem(S2, v)
                ctx.case(None)
                if r2 != r:
                    viol(ctx, 'set-member-eq-incoherent {}{}'.format(
                        cls(S), member_cause(S, v, [r, r2])),
                         '{!r} == {!r} but {!r} in them gives {} / {}'.format(S, S2, v, r, r2),
                         dict(rep0, x=w))
        if wire is None:
            ctx.hit('mem/outside-model(oracle only)')
            continue
        lines.append('mem S={} vals={}'.format(wire, L(wv)))
        meta.append((wire, wv, impl, cls(S)))
    outs = core.run_driver('C20', lines)
    for (wire, wv, impl, c), ans in zip(meta, outs):
        got = ''.join(r if r in 'tf' else 'x' for r in impl)
        for r in got:
            ctx.hit('mem/{}/{}'.format(c, r))
        if ans != 'ok ' + got:
            bad = [i for i, (a, b) in enumerate(zip(ans[3:], got)) if a != b]
            ctx.disagree({'kind': 'setmember', 'space': wire,
                          'x': [wv[i] for i in bad[:4]] if ans.startswith('ok ') else wv},
                         got, ans)

    # ---- contains_set on the non-composite sets
    nleaf = 26 if ctx.quick else 70
    leaves = [odl.EmptySet(), odl.UniversalSet(), odl.ComplexNumbers(), odl.RealNumbers(),
              odl.Integers(), odl.Strings(2), odl.IntervalProd(0, 1), odl.IntervalProd(0.25, 0.75),
              odl.IntervalProd([0, 0], [1, 1]), odl.IntervalProd([0.25, 0], [0.5, 1]),
              odl.IntervalProd([], [])]
    while len(leaves) < nleaf:
        leaves.append(gen_pleaf(rng))
        if rng.random() < 0.3:
            leaves.append(equal_variant(rng, leaves[-1]))   # equal but distinct object
    lw = []
    for A in leaves:
        try:
            lw.append(describe_pset(A))
        except ValueError:
            lw.append(None)
    leaves = [A for A, w in zip(leaves, lw) if w is not None]
    lw = [w for w in lw if w is not None]
    n = len(leaves)
    atols = [None, 0.0, 0.25, 1.0, -0.25]

    def cset(A, B, atol):
        try:
            r = A.contains_set(B) if atol is None else A.contains_set(B, atol=atol)
        except AttributeError:
            return 'e'
        except Exception as e:  # noqa
            return 'x:' + type(e).__name__
        return 't' if r is True or r is np.True_ else 'f' if r is False or r is np.False_ \
            else 'x:nonbool-' + type(r).__name__

    lines, meta = [], []
    C0 = [[None] * n for _ in range(n)]
    probes = [[targeted_val(rng, B) for _ in range(8)] + [gen_val(rng) for _ in range(3)]
              for B in leaves]
    for i, A in enumerate(leaves):
        is_iv = type(A) is odl.IntervalProd
        for j, B in enumerate(leaves):
            for atol in (atols if is_iv else [None]):
                r = cset(A, B, atol)
                rep = {'kind': 'containsset', 'space': lw[i], 'x': lw[j],
                       'option': 'atol={}'.format(atol)}
                ctx.case(('cset', cls(A), cls(B), atol, r))
                ctx.hit('cset/{}/{}'.format(cls(A), r[0]))
                if atol in (None, 0.0):
                    C0[i][j] = r
                if r.startswith('x') or (r == 'e' and hasattr(B, 'min') and hasattr(B, 'max')):
                    viol(ctx, 'contains-set-raises {} {}'.format(cls(A), cls(B)),
                         '{!r}.contains_set({!r}, atol={}) gives {}'.format(A, B, atol, r), rep)
                # documented meaning (independent of the model): the tower of number sets,
                # and for interval products of equal positive dimension the end-point test
                want = expected_contains_set(A, B, atol)
                if want is not None and r != want:
                    viol(ctx, 'contains-set-wrong {} {}'.format(cls(A), cls(B)),
                         '{!r}.contains_set({!r}, atol={}) gives {} (expected {})'.format(
                             A, B, atol, r, want), rep)
                # soundness w.r.t. membership (exact inclusion only)
                if r == 't' and atol in (None, 0.0):
                    for v in probes[j]:
                        if _mem(B, v) == 't' and _mem(A, v) != 't':
                            zero_dim = type(B) is odl.IntervalProd and B.ndim == 0
                            viol(ctx, 'contains-set-unsound {} {}{}'.format(
                                cls(A), cls(B), ' zero-dimensional' if zero_dim else ''),
                                 '{!r}.contains_set({!r}) is True but {!r} is in the second '
                                 'and not in the first'.format(A, B, v), rep)
                            break
                if i == j and r != 't' and (atol is None or atol >= 0):
                    viol(ctx, 'contains-set-not-reflexive {}'.format(cls(A)),
                         '{!r}.contains_set(itself, atol={}) gives {}'.format(A, atol, r), rep)
                lines.append('cset A={} B={} atol={} same={}'.format(
                    lw[i], lw[j], fs(0.0 if atol is None else atol), int(A is B)))
                meta.append((rep, r))
        if is_iv:
            # monotone in atol
            for j, B in enumerate(leaves):
                rs = [cset(A, B, a) for a in (-0.25, 0.0, 0.25, 1.0)]
                if any(rs[k] == 't' and rs[k + 1] == 'f' for k in range(3)):
                    viol(ctx, 'contains-set-atol-not-monotone {}'.format(cls(B)),
                         '{!r}.contains_set({!r}, atol) for atol=-0.25,0,0.25,1: {}'.format(
                             A, B, rs), {'kind': 'containsset', 'space': lw[i], 'x': lw[j]})
    # transitivity at atol = 0
    for i in range(n):
        for j in range(n):
            if C0[i][j] != 't':
                continue
            for k in range(n):
                if C0[j][k] == 't' and C0[i][k] != 't':
                    zero_dim = any(type(X) is odl.IntervalProd and X.ndim == 0
                                   for X in (leaves[j], leaves[k]))
                    viol(ctx, 'contains-set-not-transitive {}{}'.format(
                        cls(leaves[i]), ' zero-dimensional' if zero_dim else ''),
                         '{!r} ⊇ {!r} ⊇ {!r} but the first does not contain the third ({})'.format(
                             leaves[i], leaves[j], leaves[k], C0[i][k]),
                         {'kind': 'containsset', 'space': lw[i], 'x': lw[k]})
    outs = core.run_driver('C20', lines)
    for (rep, r), ans in zip(meta, outs):
        if ans != 'ok ' + (r if r in 'tfe' else 'x'):
            ctx.disagree(rep, r, ans)

    # ---- approx_equals between interval products (distinct objects), model intervalApproxEq
    ivs = [(A, w) for A, w in zip(leaves, lw) if type(A) is odl.IntervalProd]
    # end points that differ from IntervalProd(0, 1) by atol + 2**-20 (a relative tolerance
    # would accept them)
    for extra in (odl.IntervalProd(0, 1 + 2.0 ** -20), odl.IntervalProd(0, 1.25 + 2.0 ** -20),
                  odl.IntervalProd(-2.0 ** -20, 1), odl.IntervalProd(0, 1.25)):
        ivs.append((extra, describe_pset(extra)))
    lines, meta = [], []
    for A, wa in ivs:
        for B, wb in ivs + [(equal_variant(rng, A), wa)]:
            if B is A:
                continue
            for atol in (0.0, 0.25, 1.0):
                try:
                    r = A.approx_equals(B, atol)
                    r = 't' if bool(r) is True else 'f'
                except ValueError:
                    r = 'e'
                except Exception as e:  # noqa
                    r = 'x:' + type(e).__name__
                same_dim = A.ndim == B.ndim
                ctx.case(('approxeq', A.ndim, B.ndim, atol, r))
                ctx.hit('approxeq/{}/{}'.format('same-ndim' if same_dim else 'other-ndim', r[0]))
                rep = {'kind': 'approxeq', 'space': wa, 'x': wb, 'option': 'atol={}'.format(atol)}
                if True:
                    # oracle (independent of the model): same dimension and end points within
                    # atol (different dimension: never approximately equal, C20-F18 repaired in
                    # /repo b059927); atol = 0 is ==
                    want = same_dim and all(abs(float(a) - float(b)) <= atol
                                            for a, b in zip(list(A.min_pt) + list(A.max_pt),
                                                            list(B.min_pt) + list(B.max_pt)))
                    eq0 = (A == B) if atol == 0.0 else None
                    if r != ('t' if want else 'f') or (eq0 is not None and (r == 't') != bool(eq0)):
                        viol(ctx, 'approx-equals-wrong IntervalProd{}'.format(
                            '' if same_dim else ' other-ndim'),
                             '{!r}.approx_equals({!r}, {}) gives {} (end points within atol: {}, '
                             '==: {})'.format(A, B, atol, r, want, eq0), rep)
                lines.append('approxeq A={} B={} atol={}'.format(wa, wb, fs(atol)))
                meta.append((rep, r))
    outs = core.run_driver('C20', lines)
    for (rep, r), ans in zip(meta, outs):
        if ans != 'ok ' + (r if r in 'tfe' else 'x'):
            ctx.disagree(rep, r, ans)

    # ---- contains_all(array) of the number sets: a dtype test
    names = list(DTYPE_NAMES) + ['S3', 'U2']
    lines, meta = [], []
    for F, w, kinds in ((odl.ComplexNumbers(), 'complex', 'iufc'), (odl.RealNumbers(), 'real', 'iuf'),
                        (odl.Integers(), 'integers', 'iu')):
        got = ''
        dts = []
        for nm in names:
            try:
                dt = np.dtype(nm)
                dts.append(dtype_w(dt))
            except (TypeError, ValueError):
                continue
            try:
                r = F.contains_all(np.zeros(2, dtype=dt))
                r = 't' if r is True else 'f' if r is False else 'x'
            except Exception as e:  # noqa
                r = 'x'
            got += r
            ctx.case(('call', w, dt.kind, r))
            ctx.hit('call/{}/{}'.format(w, r))
            if r != ('t' if dt.kind in kinds else 'f'):
                viol(ctx, 'contains-all-wrong {} dtype={}'.format(cls(F), dt.name),
                     '{!r}.contains_all(zeros(2, {})) gives {}'.format(F, dt, r),
                     {'kind': 'containsall', 'space': w, 'dtype': dt.name})
        lines.append('call A={} dts={}'.format(w, L(dts)))
        meta.append((w, got))
    outs = core.run_driver('C20', lines)
    for (w, got), ans in zip(meta, outs):
        if ans != 'ok ' + got:
            ctx.disagree({'kind': 'containsall', 'space': w}, got, ans)


# ---------------------------------------------------------------------------
# round 5: API strata — functions of the anchored classes that no other stream enters
# (element() / __getitem__ / contains_all of plain sets, grid / partition / interval membership
# and approximate equality, Weighting.equiv, element equality, element astype / real / imag /
# conj, zero / one, space ** n and space * space, vector()); oracle only.

def _api(ctx, name, thunk, what, rep=None):
    """one oracle check of stratum `name`: `thunk()` must return True (a string describes the
    failure); any exception is a failure"""
    ctx.hit('api/' + name)
    ctx.case(('api', name))
    try:
        ok = thunk()
    except Exception as e:  # noqa
        ok = 'raised {}: {}'.format(type(e).__name__, str(e)[:100])
    if ok is not True and ok is not np.True_:
        viol(ctx, 'api-wrong ' + name, '{}: {}'.format(what, ok),
             dict({'kind': 'api', 'op': name}, **(rep or {})))


def _veq(a, b):
    """value equality of set elements (floats / strings / tuples / arrays)"""
    if isinstance(a, np.ndarray) or isinstance(b, np.ndarray):
        try:
            return bool(np.array_equal(np.asarray(a), np.asarray(b)))
        except Exception:  # noqa
            return False
    if isinstance(a, (tuple, list)) or isinstance(b, (tuple, list)):
        return (isinstance(a, (tuple, list)) and isinstance(b, (tuple, list)) and
                len(a) == len(b) and all(_veq(x, y) for x, y in zip(a, b)))
    if a is None or b is None:
        return a is b
    return bool(a == b)


def _dy_arr(rng, shape, cplx=False):
    n = int(np.prod(shape)) if shape else 1
    a = np.array([rng.randint(-8, 8) / 4.0 for _ in range(n)]).reshape(shape)
    if cplx:
        a = a + 1j * np.array([rng.randint(-8, 8) / 4.0 for _ in range(n)]).reshape(shape)
    return a


def api_spaces():
    import odl
    W = np.array([1.0, 2.0, 0.5])
    return [('rn3', odl.rn(3)), ('rn3w2', odl.rn(3, weighting=2.0)), ('rn3W', odl.rn(3, weighting=W)),
            ('rn22f32', odl.rn((2, 2), dtype='float32')), ('cn2', odl.cn(2)),
            ('int3', odl.tensor_space(3, dtype='int64')),
            ('ud3', odl.uniform_discr(0, 1, 3)), ('ud22c', odl.uniform_discr([0, 0], [1, 1], (2, 2),
                                                                             dtype='complex128')),
            ('P(rn3,2)', odl.ProductSpace(odl.rn(3), 2)),
            ('P(rn2,rn3f32)', odl.ProductSpace(odl.rn(2), odl.rn(3, dtype='float32'))),
            ('P(cn2,2)w', odl.ProductSpace(odl.cn(2), 2, weighting=[1.0, 2.0])),
            ('P(P(rn2,2),ud3)', odl.ProductSpace(odl.ProductSpace(odl.rn(2), 2),
                                                 odl.uniform_discr(0, 1, 3)))]


def _rand_elem(space, rng, perturb=None):
    """element with dyadic values; `perturb`: another element whose values are changed in one
    entry"""
    import odl
    if isinstance(space, odl.ProductSpace):
        return space.element([_rand_elem(c, rng) for c in space.spaces])
    a = _dy_arr(rng, space.shape, cplx=np.dtype(space.dtype).kind == 'c')
    if np.dtype(space.dtype).kind in 'iu':
        a = np.round(a)
    return space.element(a.astype(space.dtype))


def _flat(x):
    return np.array(flat_values(x))


def run_api_strata(ctx):
    import odl
    import warnings
    from odl.set import sets as M
    from odl.space.npy_tensors import (NumpyTensorSpaceConstWeighting as CW,
                                       NumpyTensorSpaceArrayWeighting as AW)
    from odl.space.pspace import (ProductSpaceConstWeighting as PCW,
                                  ProductSpaceArrayWeighting as PAW)
    rng = ctx.rng
    warnings.simplefilter('ignore')
    nsets = 40 if ctx.quick else 250

    # ---- A/B/C: element(), __getitem__, contains_all of plain sets
    psets = [odl.EmptySet(), odl.UniversalSet(), odl.Strings(2), odl.Integers(), odl.RealNumbers(),
             odl.ComplexNumbers(), odl.IntervalProd(0, 1), odl.IntervalProd([0, 0], [1, 2]),
             odl.FiniteSet(1, 'a', 2.5),
             odl.CartesianProduct(odl.RealNumbers(), odl.Strings(2), odl.Integers()),
             odl.SetUnion(odl.Integers(), odl.Strings(2), odl.IntervalProd(0, 1)),
             odl.SetIntersection(odl.RealNumbers(), odl.Integers(), odl.IntervalProd(0, 3))]
    while len(psets) < nsets:
        S = gen_pset(rng)
        try:
            describe_pset(S)
        except ValueError:
            continue                        # NumPy-scalar FiniteSets: finding C20-F14
        psets.append(S)
    leafcls = (M.EmptySet, M.UniversalSet, M.Strings, M.Integers, M.RealNumbers, M.ComplexNumbers,
               odl.IntervalProd, M.FiniteSet)
    for S in psets:
        c = cls(S)
        rep = {'space': repr(S)[:200]}

        def default_elem():
            try:
                e = S.element()
            except NotImplementedError:
                return True                 # intersections / empty unions have no element()
            except IndexError:
                return True if _tree_has(S, lambda o: type(o) is M.FiniteSet and not o.elements) \
                    else 'IndexError'
            return True if _mem(S, e) == 't' else '{!r} is not in the set ({})'.format(e, _mem(S, e))
        _api(ctx, 'set-element-default/' + c, default_elem,
             '{!r}.element() must be a member'.format(S), rep)
        cands = [targeted_val(rng, S) for _ in range(4)]
        if S is psets[6]:
            cands += [(0.5,), [0.25], 0.5]
        for v in cands:
            if _mem(S, v) != 't':
                continue

            def member_elem():
                try:
                    e = S.element(v)
                except NotImplementedError:
                    return True
                except (ValueError, TypeError) as ex:
                    # a union only asks its FIRST member set, which may be unable to convert
                    return True if not isinstance(S, leafcls) else 'raised {}'.format(ex)
                if _mem(S, e) != 't':
                    return 'element({!r}) = {!r} is not in the set'.format(v, e)
                # `inp=None` means 'no input' (default element), even where None is a member
                if type(S) is odl.IntervalProd:
                    # a point of a 1-d interval product may be given as a length-1 sequence
                    same = _veq(np.atleast_1d(np.asarray(e, dtype=float)),
                                np.atleast_1d(np.asarray(v, dtype=float)))
                else:
                    same = _veq(e, v)
                if isinstance(S, leafcls) and v is not None and not same:
                    return 'element({!r}) = {!r} differs from the member offered'.format(v, e)
                return True
            seq1d = type(S) is odl.IntervalProd and S.ndim == 1 and isinstance(v, (tuple, list))
            _api(ctx, 'set-element-member/' + c + ('-1d-sequence' if seq1d else ''), member_elem,
                 '{!r}.element(member) must be that member'.format(S), rep)
        if isinstance(S, (M.CartesianProduct, M.SetUnion, M.SetIntersection)) and len(S.sets) > 0:
            n = len(S.sets)
            i = rng.randrange(n)
            a, b = sorted((rng.randint(0, n), rng.randint(0, n)))
            _api(ctx, 'set-getitem-int/' + c, lambda: S[i] is S.sets[i] and S[i - n] is S.sets[i],
                 '{!r}[{}] must be the member set'.format(S, i), rep)

            def slice_ok():
                sub = S[a:b]
                want = type(S)(*S.sets[a:b])
                if type(sub) is not type(S) or not (sub == want) or hash(sub) != hash(want):
                    return '[{}:{}] gives {!r}, expected {!r}'.format(a, b, sub, want)
                for _ in range(4):
                    v = targeted_val(rng, S)
                    if _mem(sub, v) != _mem(want, v):
                        return 'membership of {!r} differs'.format(v)
                return True
            _api(ctx, 'set-getitem-slice/' + c, slice_ok, '{!r}[{}:{}]'.format(S, a, b), rep)
        if type(S) is M.FiniteSet and S.elements:
            n = len(S.elements)
            i = rng.randrange(n)
            _api(ctx, 'set-getitem-int/FiniteSet', lambda: _veq(S[i], S.elements[i]),
                 '{!r}[{}]'.format(S, i), rep)
            _api(ctx, 'set-getitem-slice/FiniteSet',
                 lambda: S[1:] == odl.FiniteSet(*S.elements[1:]), '{!r}[1:]'.format(S), rep)
            seq = [rng.choice(S.elements) for _ in range(3)] + ([gen_scalar(rng)] if rng.random() < .5
                                                                else [])
            seq = [x.item() if isinstance(x, np.generic) else x for x in seq]
            _api(ctx, 'set-contains-all-default/FiniteSet',
                 lambda: S.contains_all(seq) == all(_mem(S, x) == 't' for x in seq),
                 '{!r}.contains_all({!r}) must be all(x in S)'.format(S, seq), rep)
    for n in (1, 2, 3):
        S = odl.Strings(n)
        for words in (['ab', 'xy'], ['a', 'b', 'x'], ['abx'], ['ab', 'x']):
            want = all(len(w) == n for w in words)
            for form, arg in (('ndarray', np.array(words)), ('list', list(words))):
                def call():
                    r = S.contains_all(arg)
                    return True if r is want or r == want else 'gives {} (all(x in S) is {})'.format(
                        r, want)
                uneven = len(set(len(w) for w in words)) > 1
                _api(ctx, 'strings-contains-all/{}{}'.format(form, '-uneven-lengths' if uneven else ''),
                     call, 'Strings({}).contains_all({!r})'.format(n, arg))
    _api(ctx, 'field-of-field', lambda: odl.RealNumbers().field == odl.RealNumbers() and
         odl.ComplexNumbers().field == odl.ComplexNumbers(), 'Field.field is the field itself')

    # ---- D: grids
    grids = [odl.uniform_grid(0, 1, 5), odl.uniform_grid([0, 0], [1, 2], (3, 5)),
             odl.RectGrid([0, 1, 3], [2, 5]), odl.RectGrid([0.0], [1.0, 1.5], [-1, 0, 2, 2.5])]
    for g in grids:
        rep = {'space': repr(g)[:200]}
        idx = tuple(rng.randrange(k) for k in g.shape)
        pt = [float(v[i]) for v, i in zip(g.coord_vectors, idx)]
        off = list(pt)
        off[rng.randrange(g.ndim)] += 0.0625
        _api(ctx, 'grid-contains', lambda: (pt in g) is True and (tuple(pt) in g) is True and
             (np.array(pt) in g) is True and (off in g) is False and (pt + [0.0] in g) is False and
             ([None] * g.ndim in g) is False and (g.ndim > 1 or (pt[0] in g) is True),
             'grid point {} in {!r}, off-grid point {} not'.format(pt, g, off), rep)
        _api(ctx, 'grid-approx-contains', lambda: g.approx_contains(off, 0.125) is True and
             g.approx_contains(off, 0.03125) is False and g.approx_contains(pt, 0.0) is True,
             'approx_contains of {} / {} in {!r}'.format(pt, off, g), rep)
        g2 = odl.RectGrid(*[v.copy() for v in g.coord_vectors])
        vecs = [v.copy() for v in g.coord_vectors]
        vecs[0][-1] += 0.0625
        g3 = odl.RectGrid(*vecs)
        _api(ctx, 'grid-approx-equals', lambda: g.approx_equals(g, 0.0) is True and
             bool(g.approx_equals(g2, 0.0)) is True and (g == g2) and
             bool(g.approx_equals(g3, 0.0)) is False and not (g == g3) and
             bool(g.approx_equals(g3, 0.125)) is True and bool(g3.approx_equals(g, 0.125)) is True and
             g.approx_equals(odl.RealNumbers(), 1.0) is False,
             'approx_equals(atol=0) must agree with == for {!r}'.format(g), rep)
        sub = g[tuple(slice(None, None, 2) for _ in g.shape)]

        def subgrid():
            if not (g.is_subgrid(g) and sub.is_subgrid(g) and g.is_subgrid(g2)):
                return 'not reflexive / strided subgrid rejected'
            if sub.shape != g.shape and g.is_subgrid(sub):
                return 'larger grid is a subgrid of its strided part'
            if g3.is_subgrid(g) or not g3.is_subgrid(g, atol=0.125):
                return 'atol handling'
            return all(list(p) in g for p in sub.points())
        _api(ctx, 'grid-is-subgrid', subgrid, 'is_subgrid of {!r}'.format(g), rep)
        _api(ctx, 'grid-derived-members', lambda: (g.element() in g) and len(g) == g.shape[0] and
             g.convex_hull().contains_set(g) and (g.mid_pt in g.convex_hull()) and
             g.corner_grid().is_subgrid(g) and all(list(c) in g for c in g.corners()) and
             all(list(q) in g for q in np.asarray(g)[:7]) and
             g.convex_hull() == odl.IntervalProd(g.min_pt, g.max_pt),
             'element / corners / points of {!r} are grid points inside the convex hull'.format(g),
             rep)

    # ---- E: interval products
    for _ in range(6 if ctx.quick else 40):
        d = rng.choice([1, 1, 2, 3])
        lo = np.array([_dyq(rng, -2, 1) for _ in range(d)])
        hi = lo + np.array([rng.choice([0.0, 0.5, 1.0, 2.0]) for _ in range(d)])
        I = odl.IntervalProd(lo, hi)
        J = odl.IntervalProd(lo.copy(), hi.copy())
        K = odl.IntervalProd(lo, hi + 0.125)
        rep = {'space': repr(I)}
        _api(ctx, 'interval-approx-equals', lambda: I.approx_equals(I, 0.0) is True and
             bool(I.approx_equals(J, 0.0)) and I == J and not bool(I.approx_equals(K, 0.0)) and
             not (I == K) and bool(I.approx_equals(K, 0.25)) and bool(K.approx_equals(I, 0.25)) and
             not bool(I.approx_equals(K, 0.0625)) and I.approx_equals(odl.RealNumbers(), 1.0) is False,
             'approx_equals(atol=0) must agree with == for {!r}'.format(I), rep)
        d2 = d % 3 + 1
        I2 = odl.IntervalProd([0] * d2, [1] * d2)
        _api(ctx, 'interval-approx-equals-other-ndim', lambda: not bool(I.approx_equals(I2, 9.0)) and
             not bool(I2.approx_equals(I, 9.0)),
             'interval products of different dimension are never approximately equal: {!r} vs '
             '{!r}'.format(I, I2), rep)

        def members():
            e = I.element()
            if e not in I or I.mid_pt not in I:
                return 'element() / mid_pt not in the set'
            if not all(list(c) in I for c in I.corners()):
                return 'a corner is not in the set'
            pt = [float(l + h) / 2 for l, h in zip(lo, hi)]
            e2 = I.element(pt if d > 1 else pt[0])
            if not _veq(np.atleast_1d(e2), np.array(pt)):
                return 'element(member) = {!r}'.format(e2)
            try:
                I.element([float(h) + 1 for h in hi])
                return 'element(non-member) did not raise'
            except TypeError:
                return True
        _api(ctx, 'interval-element', members, 'element / mid_pt / corners of {!r}'.format(I), rep)

    # ---- F: partitions
    parts = [odl.uniform_partition(0, 1, 4), odl.uniform_partition([0, 0], [1, 2], (2, 4)),
             odl.uniform_partition(0, 1, 4, nodes_on_bdry=True),
             odl.nonuniform_partition([0, 1, 3], [2, 5, 6]),
             odl.uniform_partition([0, 0], [1, 1], (3, 3), nodes_on_bdry=[True, (False, True)])]
    for pa in parts:
        rep = {'space': repr(pa)[:200]}
        pb = odl.RectPartition(odl.IntervalProd(pa.min_pt.copy(), pa.max_pt.copy()),
                               odl.RectGrid(*[v.copy() for v in pa.coord_vectors]))
        pc = odl.RectPartition(odl.IntervalProd(pa.min_pt, pa.max_pt + 0.0625), pa.grid)
        _api(ctx, 'partition-approx-equals', lambda: pa.approx_equals(pa, 0.0) is True and
             bool(pa.approx_equals(pb, 0.0)) and pa == pb and hash(pa) == hash(pb) and
             not bool(pa.approx_equals(pc, 0.0)) and not (pa == pc) and
             bool(pa.approx_equals(pc, 0.125)) and pa.approx_equals(pa.grid, 1.0) is False,
             'approx_equals(atol=0) must agree with == for {!r}'.format(pa), rep)

        def index_ok():
            pt = [float(l) + rng.randint(1, 15) / 16.0 * float(h - l)
                  for l, h in zip(pa.min_pt, pa.max_pt)]
            idx = pa.index(pt if pa.ndim > 1 else pt[0])
            idx_t = idx if isinstance(idx, tuple) else (idx,)
            if not all(0 <= i < n for i, n in zip(idx_t, pa.shape)):
                return 'index {} out of range'.format(idx)
            cell = odl.IntervalProd([v[i] for v, i in zip(pa.cell_boundary_vecs, idx_t)],
                                    [v[i + 1] for v, i in zip(pa.cell_boundary_vecs, idx_t)])
            if pt not in cell:
                return 'point {} is not in cell {} = {!r}'.format(pt, idx, cell)
            return len(pa) == pa.shape[0] and (pa.mid_pt in pa.set) and \
                all(np.array_equal(a, b) for a, b in zip(pa.coord_vectors, pa.grid.coord_vectors)) \
                and isinstance(pa.nodes_on_bdry, (bool, tuple)) and \
                len(pa.nodes_on_bdry_byaxis) == pa.ndim and len(pa.is_uniform_byaxis) == pa.ndim
        _api(ctx, 'partition-index', index_ok, 'index / mid_pt / coord_vectors of {!r}'.format(pa), rep)
        if pa.is_uniform and all(n > 1 for n in pa.shape):
            def fromgrid():
                q = odl.uniform_partition_fromgrid(pa.grid)
                q2 = odl.uniform_partition_fromgrid(pa.grid, min_pt=pa.min_pt, max_pt=pa.max_pt)
                return q.grid == pa.grid and q.set.contains_set(pa.grid) and q2 == pa and \
                    hash(q2) == hash(pa)
            _api(ctx, 'partition-fromgrid', fromgrid,
                 'uniform_partition_fromgrid(grid of {!r})'.format(pa), rep)

    # ---- G: Weighting.equiv
    A1 = np.array([2.0, 2.0, 2.0])
    ws = [CW(2.0), CW(2.0), CW(3.0), CW(2.0, exponent=1.0), AW(A1), AW(A1.copy()), AW(np.array([1.0, 2.0, 3.0])),
          PCW(2.0), PAW(np.array([2.0, 2.0])), PAW(np.array([2.0, 2.0])), PCW(1.0, exponent=1.0)]
    for i, w in enumerate(ws):
        for j, v in enumerate(ws):
            def eqv():
                a, b = w.equiv(v), v.equiv(w)
                if bool(a) != bool(b):
                    return 'not symmetric: {} / {}'.format(a, b)
                if (w == v) and not a:
                    return '== but not equiv'
                if i == j and not a:
                    return 'not reflexive'
                return True
            _api(ctx, 'weighting-equiv/' + cls(w), eqv, '{!r}.equiv({!r})'.format(w, v),
                 {'space': repr(w), 'x': repr(v)})
    _api(ctx, 'weighting-equiv/const-vs-full-array', lambda: bool(CW(2.0).equiv(AW(A1))) and
         bool(AW(A1).equiv(CW(2.0))) and not CW(3.0).equiv(AW(A1)) and not CW(2.0).equiv(5) and
         bool(AW(A1).equiv(AW(A1.copy()))) and not AW(A1).equiv(AW(np.array([2.0, 2.0, 1.0]))),
         'a constant weighting is equivalent to the array weighting with that constant')

    # MatrixWeighting.equiv (no model; `matrix_issparse` does not exist: finding C20-F19)
    from odl.space.weighting import MatrixWeighting
    D3 = np.array([1.0, 2.0, 3.0])
    mw, mw2 = MatrixWeighting(np.diag(D3), impl='numpy'), MatrixWeighting(np.diag(D3), impl='numpy')
    _api(ctx, 'weighting-equiv/MatrixWeighting-vs-array-and-const', lambda: bool(mw.equiv(AW(D3))) and
         bool(AW(D3).equiv(mw)) and not mw.equiv(AW(D3 + 1)) and mw.is_valid() and
         bool(MatrixWeighting(2 * np.eye(3), impl='numpy').equiv(CW(2.0))) and
         bool(CW(2.0).equiv(MatrixWeighting(2 * np.eye(3), impl='numpy'))) and
         not MatrixWeighting(2 * np.eye(3), impl='numpy').equiv(CW(3.0)) and mw.equiv(mw) is True,
         'a diagonal MatrixWeighting is equivalent to the array / constant weighting of its diagonal')
    # C20-F19 (AttributeError `matrix_issparse`) was repaired in /repo 0e46014: the correct
    # answers are REQUIRED now, incl. a working hash that respects ==
    mw3 = MatrixWeighting(np.diag(D3 + 1), impl='numpy')
    _api(ctx, 'weighting-equiv/MatrixWeighting-vs-matrix', lambda: mw.equiv(mw2) is True and
         mw2.equiv(mw) is True and mw.equiv(mw3) is False and mw3.equiv(mw) is False and
         isinstance(hash(mw), int) and (not (mw == mw2) or hash(mw) == hash(mw2)) and
         mw == mw and isinstance(repr(mw), str),
         'two MatrixWeightings with equal matrices are equivalent (and hash / repr work)')

    # ---- H..N: elements of spaces
    for sn, S in api_spaces():
        rep = {'space': sn}
        kind = cls(S)
        x = _rand_elem(S, rng)
        S2 = rebuild(S) if not sn.endswith('W') else S
        num = all(np.dtype(c.dtype).kind in 'fc' for c in _leaves(S))

        def elem_eq():
            y = x.copy()
            if y is x or y not in S or not (x == y) or (x != y) or not (y == x):
                return 'copy is not an equal element of the space'
            z = x.copy()
            flat = _flat(z)
            z2 = S.element(_perturbed(S, x))
            if (x == z2) or not (x != z2) or (z2 == x):
                return 'element with one changed value compares equal'
            if S2 is not S and S2 == S:
                w = S2.element(x)
                if not (w == x and x == w):
                    return 'equal values in an equal space compare unequal'
            for dt2 in ('complex128', 'complex64', 'float64'):
                try:
                    So = S.astype(dt2)
                except Exception:  # noqa
                    continue
                if So == S:
                    continue
                o = So.element(x)
                if (x == o) or (o == x) or not (x != o):
                    return 'equal to the element of {!r} with the same values'.format(So)
                break
            else:
                return 'no other space found'
            import copy as _copy
            c1, c2 = _copy.copy(x), _copy.deepcopy(x)
            if c1 is x or c2 is x or not (c1 == x and c2 == x and c1 in S and c2 in S):
                return 'copy.copy / copy.deepcopy do not give equal new elements'
            if x == flat.tolist() or x == None or x == S:  # noqa
                return 'equal to a non-element'
            return bool(x == x)
        _api(ctx, 'element-eq/' + kind, elem_eq, 'element equality in ' + sn, rep)

        def zero_one():
            z, o = S.zero(), S.one()
            return z in S and o in S and not np.any(_flat(z)) and bool(np.all(_flat(o) == 1)) and \
                (z == S.zero()) and not (z == o)
        _api(ctx, 'zero-one/' + kind, zero_one, 'zero() / one() of ' + sn, rep)

        def pow_mul():
            n = rng.choice([1, 2, 3])
            P1, P2 = S ** n, odl.ProductSpace(S, n)
            if not (P1 == P2 and hash(P1) == hash(P2) and len(P1) == n and P1[0] is S):
                return '** {} differs from ProductSpace(S, {})'.format(n, n)
            Q1, Q2 = S ** (2, 3), odl.ProductSpace(odl.ProductSpace(S, 2), 3)
            if not (Q1 == Q2 and hash(Q1) == hash(Q2)):
                return '** (2, 3) differs'
            T = odl.cn(2) if S.is_complex else odl.rn(2)
            R1, R2 = S * T, odl.ProductSpace(S, T)
            return R1 == R2 and hash(R1) == hash(R2) and (S.zero() in P1[0]) and \
                P1.element([x] * n) in P2
        _api(ctx, 'pow-mul/' + kind, pow_mul, 'S ** n, S * T for ' + sn, rep)
        if num:
            for dt in (() if isinstance(S, odl.ProductSpace) else
                       ('float64', 'complex128') if sn.endswith('W') else ('float32', 'complex128')):
                if np.dtype(dt).kind == 'f' and any(np.dtype(c.dtype).kind == 'c' for c in _leaves(S)):
                    continue

                def el_astype():
                    y = x.astype(dt)
                    T = S.astype(dt)
                    if y not in T:
                        return 'x.astype({}) lies in {!r}, not in space.astype = {!r}'.format(
                            dt, y.space, T)
                    return bool(np.array_equal(_flat(y), _flat(x).astype(dt)))
                _api(ctx, 'element-astype/' + kind, el_astype, 'x.astype({}) for x in {}'.format(dt, sn),
                     dict(rep, dtype=dt))

            def real_imag_conj():
                R = S.real_space
                re, im, cj = x.real, x.imag, x.conj()
                f = _flat(x)
                if re not in R or im not in R:
                    return 'real / imag not in real_space (in {!r})'.format(re.space)
                if cj not in S:
                    return 'conj not in the space'
                return bool(np.array_equal(_flat(re), f.real) and np.array_equal(_flat(im), f.imag)
                            and np.array_equal(_flat(cj), f.conj()))
            _api(ctx, 'element-real-imag-conj/' + kind, real_imag_conj,
                 'x.real, x.imag, x.conj() for x in ' + sn, rep)
        if isinstance(S, odl.ProductSpace):
            _api(ctx, 'pspace-attributes', lambda: S.is_weighted == (not (S.weighting == (S ** 1)[0].__class__ and False) and
                 S.weighting != odl.ProductSpace(*S.spaces).weighting) and
                 S.is_real == all(c.is_real for c in S.spaces) and
                 S.is_complex == all(c.is_complex for c in S.spaces) and
                 S.exponent == S.weighting.exponent and x.ndim == len(x.shape) and
                 x.size == int(np.prod(x.shape)) if S.is_power_space else True,
                 'is_weighted / is_real / is_complex / exponent of ' + sn, rep)
        if isinstance(S, odl.DiscretizedSpace):
            _api(ctx, 'discr-attributes', lambda: S.tangent_bundle == S ** S.ndim and
                 S.grid == S.partition.grid and S.is_weighted == S.tspace.is_weighted and
                 len(x) == S.shape[0] and x.data is x.tensor.data and
                 np.array_equal(S.cell_sides, S.partition.cell_sides) and
                 x.cell_volume == S.cell_volume,
                 'tangent_bundle / grid / is_weighted of ' + sn, rep)
    for vals in ([1, 2, 3], [1.5, 2], [1, 2j], [[1, 2], [3, 4]], [True, False]):
        def vec():
            v = odl.vector(vals)
            a = np.asarray(vals)
            return v in v.space and v.shape == a.shape and np.dtype(v.dtype).kind == a.dtype.kind and \
                bool(np.array_equal(v.asarray(), a)) and \
                v.space == odl.tensor_space(a.shape, dtype=v.dtype)
        _api(ctx, 'vector', vec, 'odl.vector({!r})'.format(vals), {'input': repr(vals)})
    # power-space element offered to a tensor space of the stacked shape (since /repo 7818edc)
    for dt in ('float64', 'float32'):
        P = odl.ProductSpace(odl.rn(3), 2)
        px = _rand_elem(P, rng)
        T = odl.rn((2, 3), dtype=dt)
        lines = ['element S={} inp={} forced=0'.format(describe_space(T, Reg()), describe_inp(px, Reg(), T))]

        def stacked():
            y = T.element(px)
            return y in T and bool(np.array_equal(y.asarray(), px.asarray().astype(dt))) and \
                core.run_driver('C20', lines)[0] == 'ok ' + canon_result(y, px)
        _api(ctx, 'element-from-power-space-element', stacked,
             'rn((2,3), {}).element(element of rn(3)^2)'.format(dt), {'dtype': dt})


def _perturbed(S, x):
    """nested list / array of the values of x with the first entry changed"""
    import odl
    if isinstance(S, odl.ProductSpace):
        return [_perturbed(S[0], x[0])] + [x[i] for i in range(1, len(S))]
    a = np.array(x.asarray())
    a.flat[0] = a.flat[0] + 1
    return a


def regenerate(ctx):
    from extract import dtypes as extract_dtypes
    changed = extract_dtypes.regenerate()
    return [('extract(dtype tables -> Gen/DTypeTables.lean)', True,
             'regenerated' if changed else 'unchanged')]


EXTRA_TARGETS = ('OdlModel.Gen.DTypeTables',)


def run_all(ctx):
    check_dtype_tables(ctx)
    zoo = run_pairs(ctx)
    spaces, elems = run_membership(ctx, zoo)
    run_elements(ctx, spaces, elems)
    run_derived(ctx, spaces, elems)
    run_element_options(ctx)
    run_history(ctx)
    run_set_membership(ctx)
    run_api_strata(ctx)


def run(ctx):
    run_all(ctx)


def search(ctx, broken):
    """An obligation or the correspondence broke without an oracle failure in `run`: run the
    thorough zoo and all oracles on the real code once more (fresh seed-derived choices)."""
    saved = ctx.tier
    ctx.tier = 'thorough'
    try:
        zoo = instantiate(ctx, build_zoo(ctx))
        E, exc, H = impl_matrices(zoo)
        oracle_pairs(ctx, zoo, E, exc, H)
        sub = core.Ctx(ctx.pid, 'thorough', ctx.seed + 1)
        try:
            spaces, elems = run_membership(sub, zoo)
            run_elements(sub, spaces, elems)
            run_derived(sub, spaces, elems)
        except core.DriverBroken:
            pass
        check_dtype_tables(sub)
        try:
            run_element_options(sub)
        except core.DriverBroken:
            pass
        run_history(sub)
        try:
            run_set_membership(sub)
            run_api_strata(sub)
        except core.DriverBroken:
            pass
        for v in sub.violations:
            ctx.violation(v['key'], v['what'], v['replay'])
    finally:
        ctx.tier = saved


def replay(ctx, case):
    """Re-run one recorded case on the real code; returns a description if it still fails."""
    sub = core.Ctx(ctx.pid, 'thorough', ctx.seed)
    if case.get('kind') in ('pair', 'construct'):
        recipes = build_zoo(sub)
        want = {case.get('a'), case.get('b'), case.get('c'), case.get('recipe')} - {None}
        zoo = instantiate(sub, [r for r in recipes if r[0] in want])
        E, exc, H = impl_matrices(zoo)
        oracle_pairs(sub, zoo, E, exc, H)
    else:
        zoo = instantiate(sub, build_zoo(sub))
        try:
            spaces, elems = run_membership(sub, zoo)
            run_elements(sub, spaces, elems)
            run_derived(sub, spaces, elems)
        except core.DriverBroken:
            pass
        check_dtype_tables(sub)
        try:
            run_element_options(sub)
        except core.DriverBroken:
            pass
        run_history(sub)
        try:
            run_set_membership(sub)
            run_api_strata(sub)
        except core.DriverBroken:
            pass
        keep = [v for v in sub.violations
                if all(v['replay'].get(k) == case.get(k) for k in ('kind', 'space', 'op', 'input',
                                                                    'index', 'x', 'dtype',
                                                                    'path', 'table', 'option'))]
        sub.violations = keep
    known = core.load_known(ctx.pid)
    fails = [v for v in sub.violations if core.match_known(v, known) is None]
    if fails:
        return '; '.join(v['key'] + ' :: ' + v['what'] for v in fails[:3])[:600]
    return None
