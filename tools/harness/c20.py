"""C20 — sets and spaces: equality, hashing, membership and element creation are coherent.

Tie to /repo:
  (T) tools/extract/dtypes.py regenerates Gen/DTypeTables.lean (real/complex dtype maps and
      dtype classification) from the live `odl.util.utility` tables.
  (C) a zoo of several hundred live objects (every set / space / grid / partition / weighting
      class, equal-by-construction duplicates, near-duplicates differing in exactly one
      field, cross-class pairs).  `describe` reads from each live object exactly the
      attributes its `__eq__` / `__hash__` look at and sends the descriptors to the Lean
      driver; for ALL ordered pairs the implementation's `a == b` (True / False / raises)
      must equal the model's `eqO`, and wherever the model's hash keys are equal the
      implementation's hashes must be equal.  Likewise membership, `element(...)` decisions
      and the derived-space constructors (descriptor of the result vs the model's
      descriptor transformer).
Oracle (independent of the model, on the real code): `==` never raises, is reflexive,
symmetric and transitive (all triples, via the boolean matrix product), equal objects have
equal hashes and `hash` does not raise; `x in S` iff `x.space == S`; `S.element(x) is x` for
members; element values / dtype / shape errors; derived spaces; indexing commutes with
`asarray`.
"""
import hashlib
import itertools

import numpy as np

from vf import core
from vf.core import fs

RULE = ('zoo objects are built from recipes (class x field variations); a pair case is '
        'non-trivial when both objects have the same class (cross-class pairs are trivially '
        'unequal); distinct = distinct (class, outcome, differing-field) signatures for pairs, '
        '(space kind, input kind, outcome) for element(), (constructor, space kind, argument '
        'class) for derived spaces.')
TRUSTED = ['harness `describe` (reads the attributes used by __eq__/__hash__ from live objects)',
           'translator tools/extract/dtypes.py (dtype tables -> Gen/DTypeTables.lean)',
           'Python semantics of ==, hash(tuple), hash(frozenset), tuple containment, '
           'NumPy broadcasting of == (modelled in Model/Spaces.lean)']
ASSUMPTIONS = ['NaN exponents / coordinates are outside the model (constructors reject NaN '
               'coordinates and constants)',
               'custom inner/norm/dist callables are plain functions (compared by identity)',
               'FiniteSet atoms are ints and strings; composite sets (CartesianProduct, '
               'SetUnion, SetIntersection) have non-composite, non-FiniteSet members',
               'base-class weightings (odl.space.weighting.ConstWeighting etc. instantiated '
               'directly) and string dtypes of different lengths are outside the zoo',
               'array contents are fixed while hashes are compared (array-weighting hashes '
               'depend on mutable content by design)']
KNOWN_EXPLAINS_DISAGREEMENT = False


# ---------------------------------------------------------------------------
# descriptors

def flw(x):
    """wire form of a float (non-NaN)"""
    x = float(x)
    if x != x:
        raise ValueError('NaN')
    if x == float('inf'):
        return 'inf'
    if x == float('-inf'):
        return '-inf'
    if x == 0.0 and np.signbit(x):
        return '-0'
    return fs(x)


def L(items):
    return 'L(' + ','.join(items) + ')'


class Reg:
    """identity tokens for arrays and callables"""

    def __init__(self):
        self.ids = {}
        self.keep = []

    def tok(self, obj):
        k = id(obj)
        if k not in self.ids:
            self.ids[k] = len(self.ids) + 1
            self.keep.append(obj)
        return self.ids[k]


DTYPE_NAMES = {'bool', 'int8', 'int16', 'int32', 'int64', 'uint8', 'uint16', 'uint32', 'uint64',
               'float16', 'float32', 'float64', 'float128', 'complex64', 'complex128',
               'complex256'}


def dtype_w(dt):
    dt = np.dtype(dt)
    if dt.name in DTYPE_NAMES:
        return dt.name
    if dt.kind == 'S':
        return 'bytes'
    if dt.kind == 'U':
        return 'str'
    raise ValueError('dtype outside the model: {}'.format(dt))


def describe_weighting(w, reg):
    name = type(w).__name__
    fam = {'NumpyTensorSpace': 'np', 'ProductSpace': 'ps'}
    for prefix, f in fam.items():
        if name.startswith(prefix):
            kind = name[len(prefix):]
            break
    else:
        raise ValueError('weighting class outside the model: ' + name)
    if w.impl != 'numpy':
        raise ValueError('impl outside the model')
    if kind == 'ConstWeighting':
        return 'wc({},{},{})'.format(f, flw(w.const), flw(w.exponent))
    if kind == 'ArrayWeighting':
        arr = w.array
        digest = hashlib.sha1(arr.tobytes()).hexdigest()[:16]
        return 'wa({},{},{},{})'.format(f, reg.tok(arr), digest, flw(w.exponent))
    if kind == 'CustomInner':
        return 'wi({},{})'.format(f, reg.tok(w.inner))
    if kind == 'CustomNorm':
        return 'wn({},{})'.format(f, reg.tok(w.norm))
    if kind == 'CustomDist':
        return 'wd({},{})'.format(f, reg.tok(w.dist))
    raise ValueError('weighting class outside the model: ' + name)


def describe_interval(ip):
    return 'ip({},{})'.format(L(flw(v) for v in ip.min_pt), L(flw(v) for v in ip.max_pt))


def describe_grid(g):
    return 'gr({})'.format(L(L(flw(v) for v in cv) for cv in g.coord_vectors))


def describe_partition(p):
    return 'pt({},{})'.format(describe_interval(p.set), describe_grid(p.grid))


def describe_space(s, reg):
    import odl
    from odl.space.npy_tensors import NumpyTensorSpace
    if type(s) is NumpyTensorSpace:
        return 'ts({},{},{})'.format(L(str(int(n)) for n in s.shape), dtype_w(s.dtype),
                                     describe_weighting(s.weighting, reg))
    if type(s) is odl.DiscretizedSpace:
        p = s.partition
        if tuple(p.shape) != tuple(s.tspace.shape) or p.set.ndim != p.grid.ndim:
            raise ValueError('constructor invariant broken')
        if type(s.tspace) is not NumpyTensorSpace:
            raise ValueError('tspace class outside the model')
        axes = ['ax({},{},{})'.format(flw(p.set.min_pt[i]), flw(p.set.max_pt[i]),
                                      L(flw(v) for v in p.grid.coord_vectors[i]))
                for i in range(p.ndim)]
        return 'ds({},{},{})'.format(L(axes), dtype_w(s.tspace.dtype),
                                     describe_weighting(s.tspace.weighting, reg))
    if type(s) is odl.ProductSpace:
        f = s.field
        fld = ('real' if isinstance(f, odl.RealNumbers) else
               'complex' if isinstance(f, odl.ComplexNumbers) else 'none')
        return 'ps({},{},{})'.format(L(describe_space(c, reg) for c in s.spaces),
                                     describe_weighting(s.weighting, reg), fld)
    raise ValueError('space class outside the model: ' + type(s).__name__)


def describe_leaf(o, reg):
    import odl
    t = type(o)
    if t is odl.EmptySet:
        return 'empty'
    if t is odl.UniversalSet:
        return 'universal'
    if t is odl.Strings:
        return 'strings({})'.format(int(o.length))
    if t is odl.ComplexNumbers:
        return 'complex'
    if t is odl.RealNumbers:
        return 'real'
    if t is odl.Integers:
        return 'integers'
    if t is odl.IntervalProd:
        return describe_interval(o)
    if t is odl.RectGrid:
        return describe_grid(o)
    if t is odl.FiniteSet:
        items = []
        for e in o.elements:
            if isinstance(e, bool) or not isinstance(e, (int, str)):
                raise ValueError('atom outside the model')
            items.append('i({})'.format(e) if isinstance(e, int) else 's({})'.format(e))
        return 'fin({})'.format(L(items))
    return describe_space(o, reg)


def describe(o, reg):
    import odl
    from odl.space.weighting import Weighting
    t = type(o)
    if t is odl.CartesianProduct:
        return 'cart({})'.format(L(describe_leaf(m, reg) for m in o.sets))
    if t is odl.SetUnion:
        return 'union({})'.format(L(describe_leaf(m, reg) for m in o.sets))
    if t is odl.SetIntersection:
        return 'inter({})'.format(L(describe_leaf(m, reg) for m in o.sets))
    if t is odl.RectPartition:
        return describe_partition(o)
    if isinstance(o, Weighting):
        return describe_weighting(o, reg)
    return describe_leaf(o, reg)


# ---------------------------------------------------------------------------
# the zoo

def _f_inner(x, y):
    return float(np.vdot(y.data, x.data).real)


def _g_inner(x, y):
    return 2 * float(np.vdot(y.data, x.data).real)


def _f_norm(x):
    return float(np.linalg.norm(x.data))


def _g_norm(x):
    return 2 * float(np.linalg.norm(x.data))


def _f_dist(x, y):
    return float(np.linalg.norm(x.data - y.data))


def _pf_inner(x, y):
    return sum(float(np.vdot(b.data, a.data).real) for a, b in zip(x, y))


def _pf_norm(x):
    return float(np.sqrt(sum(float(np.vdot(a.data, a.data).real) for a in x)))


W3 = np.array([1.0, 2.0, 3.0])
W3_COPY = W3.copy()                     # equal content, different identity
W3_OTHER = np.array([1.0, 2.0, 4.0])
W23 = np.array([[1.0, 2.0, 3.0], [4.0, 5.0, 6.0]])
PW2 = np.array([1.0, 2.0])
PW2_COPY = PW2.copy()
PW3 = np.array([1.0, 2.0, 3.0])


def build_zoo(ctx):
    """List of (recipe name, class tag, object).  Every recipe is evaluated by a thunk so
    that a constructor raising in a mutated tree is reported, not a crash."""
    import odl
    from odl.space.npy_tensors import (NumpyTensorSpaceConstWeighting,
                                       NumpyTensorSpaceArrayWeighting,
                                       NumpyTensorSpaceCustomInner, NumpyTensorSpaceCustomNorm,
                                       NumpyTensorSpaceCustomDist)
    from odl.space.pspace import (ProductSpaceConstWeighting, ProductSpaceArrayWeighting,
                                  ProductSpaceCustomInner, ProductSpaceCustomNorm,
                                  ProductSpaceCustomDist)
    rng = ctx.rng
    R = []

    def add(name, thunk, dup=True):
        """dup: also build a second object from the same recipe (equal by construction)"""
        R.append((name, thunk, 0))
        if dup:
            R.append((name, thunk, 1))

    # --- basic sets
    for nm, cls in [('EmptySet', odl.EmptySet), ('UniversalSet', odl.UniversalSet),
                    ('ComplexNumbers', odl.ComplexNumbers), ('RealNumbers', odl.RealNumbers),
                    ('Integers', odl.Integers)]:
        add(nm, cls)
    for n in (1, 2, 3):
        add('Strings({})'.format(n), lambda n=n: odl.Strings(n), dup=(n == 2))
    for els in [(1, 2, 3), (3, 2, 1), (1, 2), (1, 2, 3, 3), ('a', 1), (1, 'a'), ('a',), ('b',),
                (7,), ()]:
        add('FiniteSet{}'.format(els), lambda els=els: odl.FiniteSet(*els), dup=(els == (1, 2, 3)))
    # --- interval products
    ips = [([0], [1]), ([0], [2]), ([-0.0], [1]), ([0], [0]), ([-1], [1]),
           ([float('-inf')], [float('inf')]), ([0], [float('inf')]),
           ([0, 0], [1, 1]), ([0, 0], [1, 2]), ([0, 1], [1, 1]), ([0, -0.0], [1, 1]),
           ([0, 0, 0], [1, 1, 1]), ([0, 0, 0], [1, 1, 2]), ([0, 0, 0], [1, 2, 1]),
           ([0, 0, 0, 0], [1, 1, 1, 1]), ([0.5], [0.75])]
    for k in range(2 if ctx.quick else 8):
        d = rng.randint(1, 3)
        lo = [rng.randint(-8, 8) / 4 for _ in range(d)]
        hi = [v + rng.randint(0, 8) / 4 for v in lo]
        ips.append((lo, hi))
    for lo, hi in ips:
        add('IntervalProd({},{})'.format(lo, hi),
            lambda lo=lo, hi=hi: odl.IntervalProd(lo, hi), dup=(len(lo) <= 2 and hi[0] == 1))
    # --- grids
    grids = [([0.0, 1.0],), ([0.0, 1.0, 2.0],), ([-0.0, 1.0],), ([0.0, 1.0, 3.0],), ([0.5],),
             ([0.0, 1.0], [0.0, 1.0]), ([0.0, 1.0], [0.0, 2.0]), ([0.0, 1.0], [-0.0, 1.0]),
             ([0.0, 1.0, 2.0], [0.0, 1.0]), ([0.0, 1.0], [0.0, 1.0, 2.0]),
             ([0.0, 1.0], [0.0, 1.0], [0.0, 1.0]), ([-1.0, 0.0, 1.0],), ([-1.0, -0.0, 1.0],)]
    for vs in grids:
        add('RectGrid{}'.format(vs), lambda vs=vs: odl.RectGrid(*vs),
            dup=(len(vs) == 1 and len(vs[0]) <= 2))
    # --- partitions
    parts = [
        ('up(0,1,2)', lambda: odl.uniform_partition(0, 1, 2), True),
        ('up(0,1,3)', lambda: odl.uniform_partition(0, 1, 3), False),
        ('up(0,2,2)', lambda: odl.uniform_partition(0, 2, 2), False),
        ('up(0,1,2,nodes)', lambda: odl.uniform_partition(0, 1, 2, nodes_on_bdry=True), False),
        ('up(0,1,2,nodesL)', lambda: odl.uniform_partition(0, 1, 2,
                                                          nodes_on_bdry=[(True, False)]), False),
        ('up(-1,1,3,nodes)', lambda: odl.uniform_partition(-1, 1, 3, nodes_on_bdry=True), False),
        ('part(-1,1;[-1,-0,1])', lambda: odl.RectPartition(
            odl.IntervalProd(-1, 1), odl.RectGrid([-1.0, -0.0, 1.0])), False),
        ('nup([0,2,3])', lambda: odl.nonuniform_partition([0, 2, 3]), True),
        ('nup([0,2,3],min=-1)', lambda: odl.nonuniform_partition([0, 2, 3], min_pt=-1), False),
        ('up2((0,0),(1,1),(2,2))', lambda: odl.uniform_partition([0, 0], [1, 1], (2, 2)), True),
        ('up2((0,0),(1,1),(2,3))', lambda: odl.uniform_partition([0, 0], [1, 1], (2, 3)), False),
        ('up2((0,0),(1,2),(2,2))', lambda: odl.uniform_partition([0, 0], [1, 2], (2, 2)), False),
        ('up3', lambda: odl.uniform_partition([0, 0, 0], [1, 1, 1], (2, 2, 2)), False),
        ('up3b', lambda: odl.uniform_partition([0, 0, 0], [1, 1, 2], (2, 2, 2)), False),
        ('up4', lambda: odl.uniform_partition([0] * 4, [1] * 4, (2,) * 4), False),
        ('part(0,1;[0.5])', lambda: odl.RectPartition(
            odl.IntervalProd(0, 1), odl.RectGrid([0.5])), False),
    ]
    for nm, th, dup in parts:
        add('RectPartition:' + nm, th, dup=dup)
    # --- weightings
    wts = [
        ('npC(1)', lambda: NumpyTensorSpaceConstWeighting(1.0), True),
        ('npC(2)', lambda: NumpyTensorSpaceConstWeighting(2.0), True),
        ('npC(2,e1)', lambda: NumpyTensorSpaceConstWeighting(2.0, exponent=1.0), False),
        ('npC(2,einf)', lambda: NumpyTensorSpaceConstWeighting(2.0, exponent=float('inf')), True),
        ('npC(1,e1.5)', lambda: NumpyTensorSpaceConstWeighting(1.0, exponent=1.5), False),
        ('psC(1)', lambda: ProductSpaceConstWeighting(1.0), True),
        ('psC(2)', lambda: ProductSpaceConstWeighting(2.0), False),
        ('psC(2,e1)', lambda: ProductSpaceConstWeighting(2.0, exponent=1.0), False),
        ('npA(W3)', lambda: NumpyTensorSpaceArrayWeighting(W3), True),
        ('npA(W3copy)', lambda: NumpyTensorSpaceArrayWeighting(W3_COPY), False),
        ('npA(W3other)', lambda: NumpyTensorSpaceArrayWeighting(W3_OTHER), False),
        ('npA(W3,e1)', lambda: NumpyTensorSpaceArrayWeighting(W3, exponent=1.0), False),
        ('psA(W3)', lambda: ProductSpaceArrayWeighting(W3), True),
        ('psA(PW2)', lambda: ProductSpaceArrayWeighting(PW2), False),
        ('psA(PW2,e1)', lambda: ProductSpaceArrayWeighting(PW2, exponent=1.0), False),
        ('npI(f)', lambda: NumpyTensorSpaceCustomInner(_f_inner), True),
        ('npI(g)', lambda: NumpyTensorSpaceCustomInner(_g_inner), False),
        ('npN(f)', lambda: NumpyTensorSpaceCustomNorm(_f_norm), True),
        ('npN(g)', lambda: NumpyTensorSpaceCustomNorm(_g_norm), False),
        ('npD(f)', lambda: NumpyTensorSpaceCustomDist(_f_dist), True),
        ('npN(f_inner)', lambda: NumpyTensorSpaceCustomNorm(_f_inner), False),
        ('psI(f)', lambda: ProductSpaceCustomInner(_pf_inner), True),
        ('psI(npf)', lambda: ProductSpaceCustomInner(_f_inner), False),
        ('psN(f)', lambda: ProductSpaceCustomNorm(_pf_norm), False),
        ('psD(f)', lambda: ProductSpaceCustomDist(_f_dist), False),
    ]
    for nm, th, dup in wts:
        add('Weighting:' + nm, th, dup=dup)
    # --- tensor spaces
    tss = [
        ('rn(3)', lambda: odl.rn(3), True),
        ('rn(3,e=2)', lambda: odl.rn(3, exponent=2), False),
        ('rn(3,w=1)', lambda: odl.rn(3, weighting=1.0), False),
        ('rn(4)', lambda: odl.rn(4), False),
        ('rn((3,1))', lambda: odl.rn((3, 1)), False),
        ('rn((1,3))', lambda: odl.rn((1, 3)), False),
        ('rn((2,3))', lambda: odl.rn((2, 3)), True),
        ('rn((3,2))', lambda: odl.rn((3, 2)), False),
        ('rn(0)', lambda: odl.rn(0), False),
        ('rn(())', lambda: odl.rn(()), False),
        ('rn(3,f32)', lambda: odl.rn(3, dtype='float32'), True),
        ('rn(3,f16)', lambda: odl.rn(3, dtype='float16'), False),
        ('cn(3)', lambda: odl.cn(3), True),
        ('cn(3,c64)', lambda: odl.cn(3, dtype='complex64'), False),
        ('ts(3,int64)', lambda: odl.tensor_space(3, dtype='int64'), True),
        ('ts(3,int32)', lambda: odl.tensor_space(3, dtype='int32'), False),
        ('ts(3,uint8)', lambda: odl.tensor_space(3, dtype='uint8'), False),
        ('ts(3,bool)', lambda: odl.tensor_space(3, dtype=bool), True),
        ('ts(3,U2)', lambda: odl.tensor_space(3, dtype='U2'), False),
        ('rn(3,e=1)', lambda: odl.rn(3, exponent=1), True),
        ('rn(3,e=inf)', lambda: odl.rn(3, exponent=float('inf')), False),
        ('rn(3,e=1.5)', lambda: odl.rn(3, exponent=1.5), False),
        ('rn(3,w=2)', lambda: odl.rn(3, weighting=2.0), True),
        ('rn(3,w=2,e=1)', lambda: odl.rn(3, weighting=2.0, exponent=1), False),
        ('rn(3,w=0.5)', lambda: odl.rn(3, weighting=0.5), False),
        ('rn(3,w=W3)', lambda: odl.rn(3, weighting=W3), True),
        ('rn(3,w=W3copy)', lambda: odl.rn(3, weighting=W3_COPY), False),
        ('rn(3,w=W3other)', lambda: odl.rn(3, weighting=W3_OTHER), False),
        ('rn(3,w=W3,e=1)', lambda: odl.rn(3, weighting=W3, exponent=1), False),
        ('rn(3,w=list)', lambda: odl.rn(3, weighting=[1.0, 2.0, 3.0]), False),
        ('cn(3,w=W3)', lambda: odl.cn(3, weighting=W3), False),
        ('rn((2,3),w=W23)', lambda: odl.rn((2, 3), weighting=W23), True),
        ('rn(3,inner=f)', lambda: odl.rn(3, inner=_f_inner), True),
        ('rn(3,inner=g)', lambda: odl.rn(3, inner=_g_inner), False),
        ('rn(3,norm=f)', lambda: odl.rn(3, norm=_f_norm), True),
        ('rn(3,norm=g)', lambda: odl.rn(3, norm=_g_norm), False),
        ('rn(3,dist=f)', lambda: odl.rn(3, dist=_f_dist), True),
        ('cn(3,inner=f)', lambda: odl.cn(3, inner=_f_inner), False),
        ('rn(3,w=psC(2))', lambda: odl.rn(3, weighting=ProductSpaceConstWeighting(2.0)), False),
        ('rn(3,w=npC(2)obj)', lambda: odl.rn(3, weighting=NumpyTensorSpaceConstWeighting(2.0)),
         False),
    ]
    for nm, th, dup in tss:
        add('NumpyTensorSpace:' + nm, th, dup=dup)
    # --- discretized spaces
    dss = [
        ('ud(0,1,3)', lambda: odl.uniform_discr(0, 1, 3), True),
        ('ud(0,1,3,labels)', lambda: odl.uniform_discr(0, 1, 3, axis_labels=['t']), False),
        ('ud(0,1,4)', lambda: odl.uniform_discr(0, 1, 4), False),
        ('ud(0,2,3)', lambda: odl.uniform_discr(0, 2, 3), False),
        ('ud(-1,1,3)', lambda: odl.uniform_discr(-1, 1, 3), False),
        ('ud(0,1,3,f32)', lambda: odl.uniform_discr(0, 1, 3, dtype='float32'), False),
        ('ud(0,1,3,c128)', lambda: odl.uniform_discr(0, 1, 3, dtype='complex128'), True),
        ('ud(0,1,3,int)', lambda: odl.uniform_discr(0, 1, 3, dtype='int64'), False),
        ('ud(0,1,3,nodes)', lambda: odl.uniform_discr(0, 1, 3, nodes_on_bdry=True), False),
        ('ud(0,1,3,e1)', lambda: odl.uniform_discr(0, 1, 3, exponent=1.0), True),
        ('ud(0,1,3,w=2)', lambda: odl.uniform_discr(0, 1, 3, weighting=2.0), False),
        ('ud(0,1,3,w=1/3)', lambda: odl.uniform_discr(0, 1, 3, weighting=1.0 / 3.0), False),
        ('ud(0,1,3,w=W3)', lambda: odl.uniform_discr(0, 1, 3, weighting=W3), True),
        ('ud(0,1,3,w=W3copy)', lambda: odl.uniform_discr(0, 1, 3, weighting=W3_COPY), False),
        ('ds(0,1,3,inner)', lambda: odl.DiscretizedSpace(odl.uniform_partition(0, 1, 3),
                                                         odl.rn(3, inner=_f_inner)), True),
        ('ud(-1,1,3,nodes)', lambda: odl.uniform_discr(-1, 1, 3, nodes_on_bdry=True), False),
        ('ds(-1,1;[-1,-0,1])', lambda: odl.DiscretizedSpace(
            odl.RectPartition(odl.IntervalProd(-1, 1), odl.RectGrid([-1.0, -0.0, 1.0])),
            odl.rn(3, weighting=1.0)), False),
        ('ds(-1,1;[-1,0,1])', lambda: odl.DiscretizedSpace(
            odl.RectPartition(odl.IntervalProd(-1, 1), odl.RectGrid([-1.0, 0.0, 1.0])),
            odl.rn(3, weighting=1.0)), False),
        ('ud2((0,0),(1,1),(2,3))', lambda: odl.uniform_discr([0, 0], [1, 1], (2, 3)), True),
        ('ud2((0,0),(1,1),(3,2))', lambda: odl.uniform_discr([0, 0], [1, 1], (3, 2)), False),
        ('ud2((0,0),(1,2),(2,3))', lambda: odl.uniform_discr([0, 0], [1, 2], (2, 3)), False),
        ('ud2(nodes01)', lambda: odl.uniform_discr([0, 0], [1, 1], (2, 3),
                                                   nodes_on_bdry=[True, (False, True)]), False),
        ('ud3', lambda: odl.uniform_discr([0, 0, 0], [1, 1, 1], (2, 2, 2)), False),
        ('nud([0,2,3])', lambda: odl.DiscretizedSpace(odl.nonuniform_partition([0, 2, 3]),
                                                      odl.rn(3)), True),
        ('nud([0,2,3],min=-1)', lambda: odl.DiscretizedSpace(
            odl.nonuniform_partition([0, 2, 3], min_pt=-1), odl.rn(3)), False),
        ('nud([0,2,3],w=2)', lambda: odl.DiscretizedSpace(odl.nonuniform_partition([0, 2, 3]),
                                                          odl.rn(3, weighting=2.0)), False),
    ]
    for nm, th, dup in dss:
        add('DiscretizedSpace:' + nm, th, dup=dup)
    # --- product spaces
    r2, r3, c2 = odl.rn(2), odl.rn(3), odl.cn(2)
    pss = [
        ('P(r2,r3)', lambda: odl.ProductSpace(odl.rn(2), odl.rn(3)), True),
        ('P(r3,r2)', lambda: odl.ProductSpace(r3, r2), False),
        ('P(r2,2)', lambda: odl.ProductSpace(r2, 2), True),
        ('P(r2,r2)', lambda: odl.ProductSpace(r2, odl.rn(2)), False),
        ('P(r2,3)', lambda: odl.ProductSpace(r2, 3), False),
        ('P(r2)', lambda: odl.ProductSpace(r2), False),
        ('P(r2,1)', lambda: odl.ProductSpace(r2, 1), False),
        ('P(r2,0)', lambda: odl.ProductSpace(r2, 0), False),
        ('P(field=R)', lambda: odl.ProductSpace(field=odl.RealNumbers()), True),
        ('P(field=C)', lambda: odl.ProductSpace(field=odl.ComplexNumbers()), False),
        ('P(c2,2)', lambda: odl.ProductSpace(c2, 2), False),
        ('P(r2,r3,e1)', lambda: odl.ProductSpace(r2, r3, exponent=1.0), True),
        ('P(r2,r3,einf)', lambda: odl.ProductSpace(r2, r3, exponent=float('inf')), False),
        ('P(r2,r3,w=2)', lambda: odl.ProductSpace(r2, r3, weighting=2.0), True),
        ('P(r2,r3,w=1)', lambda: odl.ProductSpace(r2, r3, weighting=1.0), False),
        ('P(r2,r3,w=2,e1)', lambda: odl.ProductSpace(r2, r3, weighting=2.0, exponent=1.0), False),
        ('P(r2,r3,w=PW2)', lambda: odl.ProductSpace(r2, r3, weighting=PW2), True),
        ('P(r2,r3,w=PW2copy)', lambda: odl.ProductSpace(r2, r3, weighting=PW2_COPY), False),
        ('P(r2,r3,w=list)', lambda: odl.ProductSpace(r2, r3, weighting=[1.0, 2.0]), False),
        ('P(r2,r3,inner)', lambda: odl.ProductSpace(r2, r3, inner=_pf_inner), True),
        ('P(r2,r3,norm)', lambda: odl.ProductSpace(r2, r3, norm=_pf_norm), False),
        ('P(r2,r3,w=npC(2))', lambda: odl.ProductSpace(
            r2, r3, weighting=NumpyTensorSpaceConstWeighting(2.0)), False),
        ('P(r2w,r3)', lambda: odl.ProductSpace(odl.rn(2, weighting=2.0), r3), False),
        ('P(r2e1,r3)', lambda: odl.ProductSpace(odl.rn(2, exponent=1.0), r3), False),
        ('P(P(r2,2),r3)', lambda: odl.ProductSpace(odl.ProductSpace(r2, 2), r3), True),
        ('P(P(r2,2,w=2),r3)', lambda: odl.ProductSpace(odl.ProductSpace(r2, 2, weighting=2.0),
                                                       r3), False),
        ('P(P(r2,2),2)', lambda: odl.ProductSpace(odl.ProductSpace(r2, 2), 2), True),
        ('P(P(P(r2,2),2),w=3)', lambda: odl.ProductSpace(
            odl.ProductSpace(odl.ProductSpace(r2, 2), 2), odl.ProductSpace(r2, 2),
            weighting=3.0), False),
        ('P(ud,2)', lambda: odl.ProductSpace(odl.uniform_discr(0, 1, 3), 2), True),
        ('P(ud,rn3)', lambda: odl.ProductSpace(odl.uniform_discr(0, 1, 3), r3), False),
        ('P(ud,3,w=PW3)', lambda: odl.ProductSpace(odl.uniform_discr(0, 1, 3), 3,
                                                   weighting=PW3), False),
        ('P(r3w3,2)', lambda: odl.ProductSpace(odl.rn(3, weighting=W3), 2), False),
        ('P(r3w3,r3w3copy)', lambda: odl.ProductSpace(odl.rn(3, weighting=W3),
                                                      odl.rn(3, weighting=W3_COPY)), False),
    ]
    for nm, th, dup in pss:
        add('ProductSpace:' + nm, th, dup=dup)
    # --- composite sets over non-composite members
    ip1, ip2, ip3 = odl.IntervalProd(0, 1), odl.IntervalProd([0, 0], [1, 1]), \
        odl.IntervalProd([0, 0, 0], [1, 1, 1])
    RN, CN, ZN = odl.RealNumbers(), odl.ComplexNumbers(), odl.Integers()
    members = {
        'R': RN, 'C': CN, 'Z': ZN, 'S2': odl.Strings(2), 'E': odl.EmptySet(),
        'ip1': ip1, 'ip2': ip2, 'ip3': ip3, 'ip1b': odl.IntervalProd(0, 2),
        'r3': r3, 'r3w': odl.rn(3, weighting=2.0), 'r3W': odl.rn(3, weighting=W3),
        'r3Wc': odl.rn(3, weighting=W3_COPY), 'ud': odl.uniform_discr(0, 1, 3),
        'P': odl.ProductSpace(r2, r3), 'g': odl.RectGrid([0.0, 1.0]),
        'gz': odl.RectGrid([-0.0, 1.0]),
    }
    combos = [('R',), ('R', 'C'), ('C', 'R'), ('R', 'C', 'Z'), ('Z', 'R', 'C'), ('R', 'R'),
              ('R', 'C', 'R'), (), ('r3',), ('r3', 'r3w'), ('r3w', 'r3'), ('r3W', 'r3Wc'),
              ('r3W',), ('r3Wc',), ('ip1',), ('ip1b',), ('ip2',), ('ip3',), ('ip1', 'R'),
              ('ip2', 'R'), ('R', 'ip2'), ('R', 'ip3'), ('ip2', 'ip3'), ('ud', 'P'), ('P', 'ud'),
              ('S2', 'E'), ('g',), ('gz',), ('ip1', 'ip2'), ('R', 'ip1')]
    for kind, cls in [('CartesianProduct', odl.CartesianProduct), ('SetUnion', odl.SetUnion),
                      ('SetIntersection', odl.SetIntersection)]:
        for cb in combos:
            add('{}{}'.format(kind, cb),
                lambda cls=cls, cb=cb: cls(*[members[k] for k in cb]),
                dup=(cb in (('R', 'C'), ('r3W',))))
    # random extra composites
    keys = sorted(members)
    for _ in range(4 if ctx.quick else 30):
        cb = tuple(rng.choice(keys) for _ in range(rng.randint(1, 3)))
        cls_name, cls = rng.choice([('CartesianProduct', odl.CartesianProduct),
                                    ('SetUnion', odl.SetUnion),
                                    ('SetIntersection', odl.SetIntersection)])
        add('{}{}'.format(cls_name, cb), lambda cls=cls, cb=cb: cls(*[members[k] for k in cb]),
            dup=False)
    return R


def instantiate(ctx, recipes):
    """Evaluate the recipes; a raising constructor is an oracle violation of its own."""
    zoo = []
    for name, thunk, k in recipes:
        try:
            obj = thunk()
        except Exception as e:  # noqa
            ctx.violation('constructor-raises ' + name.split(':')[0].split('(')[0],
                          '{} raised {}: {}'.format(name, type(e).__name__, str(e)[:200]),
                          {'kind': 'construct', 'recipe': name})
            continue
        zoo.append((name, k, obj))
    return zoo


# ---------------------------------------------------------------------------
# diagnosis of the input class of a failing pair (used in violation keys)

def _intervals(o, acc):
    import odl
    if isinstance(o, odl.IntervalProd):
        acc.append(o)
    elif isinstance(o, odl.RectPartition):
        acc.append(o.set)
    elif isinstance(o, (odl.CartesianProduct, odl.SetUnion, odl.SetIntersection)):
        for m in o.sets:
            _intervals(m, acc)


def _grids(o, acc):
    import odl
    if isinstance(o, odl.RectGrid):
        acc.append(o)
    elif isinstance(o, odl.RectPartition):
        acc.append(o.grid)
    elif isinstance(o, odl.DiscretizedSpace):
        acc.append(o.partition.grid)
    elif isinstance(o, odl.ProductSpace):
        for m in o.spaces:
            _grids(m, acc)
    elif isinstance(o, (odl.CartesianProduct, odl.SetUnion, odl.SetIntersection)):
        for m in o.sets:
            _grids(m, acc)


def _foreign_weightings(o):
    """number of spaces inside `o` that hold a weighting of the other class family"""
    import odl
    n = 0
    if isinstance(o, odl.ProductSpace):
        n += not type(o.weighting).__name__.startswith('ProductSpace')
        for m in o.spaces:
            n += _foreign_weightings(m)
    elif isinstance(o, odl.DiscretizedSpace):
        n += not type(o.tspace.weighting).__name__.startswith('NumpyTensorSpace')
    elif hasattr(o, 'weighting') and hasattr(o, 'shape'):
        n += not type(o.weighting).__name__.startswith('NumpyTensorSpace')
    elif isinstance(o, (odl.CartesianProduct, odl.SetUnion, odl.SetIntersection)):
        for m in o.sets:
            n += _foreign_weightings(m)
    return n


def cause_of(a, b, hashing=False):
    """Words describing what is special about the pair (computed from the live objects,
    independent of the model).  Only `intervalprod-ndim-mismatch` can explain a raising /
    asymmetric / intransitive `==`; the other two concern hashes only."""
    from odl.space.weighting import Weighting
    ia, ib, ga, gb = [], [], [], []
    _intervals(a, ia)
    _intervals(b, ib)
    causes = []
    nds = sorted({i.ndim for i in ia} | {i.ndim for i in ib})
    if len(nds) > 1:
        causes.append('intervalprod-ndim-mismatch')
    if hashing:
        _grids(a, ga)
        _grids(b, gb)
        zero_signs = set()
        for g in ga + gb:
            for cv in g.coord_vectors:
                for v in cv:
                    if v == 0:
                        zero_signs.add(bool(np.signbit(v)))
        if len(zero_signs) > 1:
            causes.append('signed-zero-grid')
        if isinstance(a, Weighting) and isinstance(b, Weighting):
            if type(a).__name__[:5] != type(b).__name__[:5]:
                causes.append('weighting-family-mix')
        elif _foreign_weightings(a) + _foreign_weightings(b) > 0:
            causes.append('weighting-family-mix')
    return '+'.join(causes) if causes else 'none'


def cls(o):
    return type(o).__name__


def viol(ctx, key, what, replay):
    """ctx.violation with at most 3 witnesses per key (the key names the input class)"""
    cnt = ctx.extra.setdefault('oracle_failures_by_key', {})
    cnt[key] = cnt.get(key, 0) + 1
    if cnt[key] <= 3:
        ctx.violation(key, what, replay)


# ---------------------------------------------------------------------------
# pairs: implementation matrices, oracle, correspondence

def impl_matrices(zoo):
    n = len(zoo)
    E = np.zeros((n, n), dtype=np.int8)     # 1 True, 0 False, 2 raises, 3 non-bool
    exc = {}
    H = []
    for i, (_, _, a) in enumerate(zoo):
        try:
            H.append(('ok', hash(a)))
        except Exception as e:  # noqa
            H.append(('err', type(e).__name__ + ': ' + str(e)[:80]))
        for j, (_, _, b) in enumerate(zoo):
            try:
                r = (a == b)
                if r is True or r is False or isinstance(r, (bool, np.bool_)):
                    E[i, j] = 1 if r else 0
                else:
                    E[i, j] = 3
                ne = (a != b)
                if bool(ne) == bool(r):
                    E[i, j] = 3
            except Exception as e:  # noqa
                E[i, j] = 2
                exc[(i, j)] = type(e).__name__ + ': ' + str(e)[:80]
    return E, exc, H


def oracle_pairs(ctx, zoo, E, exc, H):
    n = len(zoo)
    names = [z[0] for z in zoo]

    def rep(i, j=None, k=None):
        d = {'kind': 'pair', 'a': names[i]}
        if j is not None:
            d['b'] = names[j]
        if k is not None:
            d['c'] = names[k]
        return d
    for i in range(n):
        a = zoo[i][2]
        if H[i][0] != 'ok':
            viol(ctx, 'hash-raises {}'.format(cls(a)),
                          'hash({}) raised {}'.format(names[i], H[i][1]), rep(i))
        if E[i, i] != 1:
            viol(ctx, 'eq-not-reflexive {} cause={}'.format(cls(a), cause_of(a, a)),
                          '{} == itself gives {}'.format(names[i], _outcome(E, exc, i, i)), rep(i))
    for i in range(n):
        for j in range(n):
            a, b = zoo[i][2], zoo[j][2]
            if E[i, j] == 2:
                viol(ctx, 'eq-raises {} vs {} cause={}'.format(cls(a), cls(b), cause_of(a, b)),
                              '({}) == ({}) raised {}'.format(names[i], names[j], exc[(i, j)]),
                              rep(i, j))
            elif E[i, j] == 3:
                viol(ctx, 'eq-not-boolean-or-ne-inconsistent {} vs {}'.format(cls(a), cls(b)),
                              '({}) ==/!= ({})'.format(names[i], names[j]), rep(i, j))
            if i < j and E[i, j] != E[j, i]:
                viol(ctx, 'eq-not-symmetric {} vs {} cause={}'.format(
                    cls(a), cls(b), cause_of(a, b)),
                    '({}) == ({}) is {} but the converse is {}'.format(
                        names[i], names[j], _outcome(E, exc, i, j), _outcome(E, exc, j, i)),
                    rep(i, j))
            if i < j and E[i, j] == 1 and H[i][0] == 'ok' and H[j][0] == 'ok' \
                    and H[i][1] != H[j][1]:
                viol(ctx, 'equal-but-hash-differs {} vs {} cause={}'.format(
                    cls(a), cls(b), cause_of(a, b, hashing=True)),
                    '({}) == ({}) is True but their hashes differ'.format(names[i], names[j]),
                    rep(i, j))
            # equal-by-construction duplicates
            if i < j and names[i] == names[j] and E[i, j] != 1:
                viol(ctx, 'duplicates-unequal {}'.format(cls(a)),
                              'two objects built by the recipe {} compare {}'.format(
                                  names[i], _outcome(E, exc, i, j)), rep(i, j))
    # transitivity over ALL triples: T = E*E has T[i,k] > 0 iff some j links them
    T = (E == 1).astype(np.int64)
    TT = T @ T
    bad = np.argwhere((TT > 0) & (E != 1))
    seen = set()
    for i, k in bad.tolist():
        js = np.nonzero(T[i, :] & T[:, k])[0].tolist()
        j = js[0]
        a, b, c = zoo[i][2], zoo[j][2], zoo[k][2]
        key = 'eq-not-transitive {},{},{} cause={}'.format(
            cls(a), cls(b), cls(c), '+'.join(sorted(set(
                (cause_of(a, b) + '+' + cause_of(b, c) + '+' + cause_of(a, c)).split('+'))
                - {'none'})) or 'none')
        if (key, names[i], names[k]) in seen:
            continue
        seen.add((key, names[i], names[k]))
        viol(ctx, key, '({}) == ({}) and ({}) == ({}) but ({}) == ({}) is {}'.format(
            names[i], names[j], names[j], names[k], names[i], names[k],
            _outcome(E, exc, i, k)), rep(i, j, k))


def _outcome(E, exc, i, j):
    v = int(E[i, j])
    return {1: 'True', 0: 'False', 3: 'non-boolean'}.get(v) or ('raises ' + exc.get((i, j), ''))


def correspond_pairs(ctx, zoo, E, exc, H):
    reg = Reg()
    descs = []
    kept = []
    for idx, (name, k, o) in enumerate(zoo):
        try:
            descs.append(describe(o, reg))
            kept.append(idx)
        except Exception as e:  # noqa  (object outside the model: oracle only)
            ctx.notes.append('not modelled: {} ({})'.format(name, e))
    if not descs:
        return
    ans = core.run_driver('C20', ['eqall objs=' + L(descs)])[0]
    if not ans.startswith('ok '):
        ctx.disagree({'kind': 'eqall'}, 'descriptors', ans[:300])
        return
    f = dict(t.split('=', 1) for t in ans.split()[1:])
    m = len(kept)
    if int(f['n']) != m or len(f['eq']) != m * m or len(f['hash']) != m * m:
        ctx.disagree({'kind': 'eqall'}, 'n={}'.format(m), ans[:100])
        return
    code = {'t': 1, 'f': 0, 'e': 2}
    coarse = 0
    for p in range(m):
        i = kept[p]
        for q in range(m):
            j = kept[q]
            me = code[f['eq'][p * m + q]]
            mh = f['hash'][p * m + q] == '1'
            a, b = zoo[i][2], zoo[j][2]
            same_cls = type(a) is type(b)
            ie = int(E[i, j])
            sig = None
            if same_cls:
                sig = ('pair', cls(a), ie, cause_of(a, b, hashing=True),
                       zoo[i][0].split('(')[0] == zoo[j][0].split('(')[0])
            ctx.case(sig, sample=({'a': zoo[i][0], 'b': zoo[j][0], 'impl_eq': _outcome(E, exc, i, j),
                                   'model_eq': f['eq'][p * m + q], 'model_hash_equal': mh}
                                  if same_cls and i != j and len(ctx.samples) < 8 and
                                  ctx.rng.random() < 0.01 else None))
            if same_cls:
                ctx.hit('eq/{}/{}'.format(cls(a), 'tfe'[ie] if ie < 3 else 'x'))
            if me != ie:
                ctx.disagree({'kind': 'pair', 'a': zoo[i][0], 'b': zoo[j][0], 'what': '=='},
                             _outcome(E, exc, i, j), 'model: ' + f['eq'][p * m + q])
            if H[i][0] == 'ok' and H[j][0] == 'ok':
                ih = H[i][1] == H[j][1]
                if mh and not ih:
                    ctx.disagree({'kind': 'pair', 'a': zoo[i][0], 'b': zoo[j][0], 'what': 'hash'},
                                 'hashes differ', 'model: hash keys equal')
                elif ih and not mh:
                    coarse += 1
            elif i == j:
                ctx.disagree({'kind': 'hash', 'a': zoo[i][0]}, 'hash raises: ' + H[i][1],
                             'model: hashable')
    ctx.extra['pairs_where_impl_hash_equal_but_model_keys_differ'] = coarse
    ctx.extra['zoo_size'] = len(zoo)
    ctx.extra['zoo_modelled'] = m


def run_pairs(ctx):
    zoo = instantiate(ctx, build_zoo(ctx))
    E, exc, H = impl_matrices(zoo)
    oracle_pairs(ctx, zoo, E, exc, H)
    correspond_pairs(ctx, zoo, E, exc, H)
    return zoo


def run(ctx):
    run_pairs(ctx)


def search(ctx, broken):
    """An obligation or the correspondence broke without an oracle failure in `run`: run the
    thorough zoo through the oracle on the real code."""
    saved = ctx.tier
    ctx.tier = 'thorough'
    try:
        zoo = instantiate(ctx, build_zoo(ctx))
        E, exc, H = impl_matrices(zoo)
        oracle_pairs(ctx, zoo, E, exc, H)
    finally:
        ctx.tier = saved


def replay(ctx, case):
    """Re-run one recorded case on the real code."""
    if case.get('kind') in ('pair', 'construct'):
        saved = ctx.tier
        ctx.tier = 'thorough'
        try:
            recipes = build_zoo(ctx)
        finally:
            ctx.tier = saved
        want = {case.get('a'), case.get('b'), case.get('c'), case.get('recipe')} - {None}
        sub = [r for r in recipes if r[0] in want]
        sub_ctx = core.Ctx(ctx.pid, 'quick', ctx.seed)
        zoo = instantiate(sub_ctx, sub)
        E, exc, H = impl_matrices(zoo)
        oracle_pairs(sub_ctx, zoo, E, exc, H)
        if sub_ctx.violations:
            return '; '.join(v['key'] + ' :: ' + v['what'] for v in sub_ctx.violations[:3])
        return None
    return None
