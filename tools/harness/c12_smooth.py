"""C12, round 5 — strata for the smooth solvers and line-search classes that no stream entered before
(tools/covmap.py): newtons_method (both ways of solving the Newton system), bfgs_method / _bfgs_direction
(full and limited memory, with and without `hessinv_estimate`), broydens_method / _broydens_direction
(`impl` first and second), conjugate_gradient_nonlinear (all four beta rules, with resets), adam,
gauss_newton / exp_zero_seq, ConstantLineSearch, LineSearchFromIterNum, BacktrackingLineSearch with its
default `max_num_iter`.

ORACLES (real code only; the Lean model covers steepest descent + backtracking, not these loops):
  * with BacktrackingLineSearch(f) EVERY accepted step strictly decreases f by construction of the line
    search (exit test + `assert fval < fx`, C12.armijo_descent), whatever the search direction: the objective
    along [x0] + callback iterates never increases, for every one of these solvers, on convex quadratics
    and on the Rosenbrock functional.  An exception (line search exhausted / assert at float convergence)
    is an outcome, not a violation.
  * Newton with the exact step 1 on a strictly convex quadratic is exact after one iteration.
  * adam, gauss_newton (linear operator, explicit zero sequence), steepest_descent with
    LineSearchFromIterNum / a float step: the documented iteration recomputed with numpy.
  * gauss_newton with its DEFAULT zero sequence: the result of a call must not depend on earlier calls.
"""
from fractions import Fraction  # noqa

import numpy as np

from harness import solverlib as sl
from harness import c11
from harness.solverlib import flat, unflat, Recorder, guarded

desc_of = c11.desc_of
viol = c11.viol
err_kind = c11.err_kind


def spd(r, d):
    B = sl.small_int_matrix(r, d, d)
    return B.T.dot(B) + np.eye(d) * r.choice([1.0, 0.5, 2.0])


def make_functional(r):
    """(kind, functional, numpy value, numpy gradient, dimension)"""
    import odl
    S = odl.solvers
    k = r.choice(['quadratic', 'quadratic', 'rosenbrock', 'lsq'])
    if k == 'rosenbrock':
        d = r.choice([2, 2, 3])
        sc = r.choice([1.0, 2.0, 10.0])
        f = S.RosenbrockFunctional(odl.rn(d), scale=sc)

        def val(v):
            return float(sum(sc * (v[i + 1] - v[i] ** 2) ** 2 + (v[i] - 1) ** 2 for i in range(d - 1)))
        return 'rosenbrock', f, val, None, d
    d = r.randint(1, 4)
    if k == 'quadratic':
        A = spd(r, d)
        b = sl.dy_vec(r, d, 16, 8)
        f = S.QuadraticForm(operator=odl.MatrixOperator(A), vector=unflat(odl.rn(d), b), constant=0.5)
        return 'quadratic', f, (lambda v: float(v.dot(A.dot(v)) + b.dot(v) + 0.5)), \
            (lambda v: 2 * A.dot(v) + b), d
    m = r.randint(d, 4)
    M = sl.small_int_matrix(r, m, d)
    b = sl.dy_vec(r, m, 16, 8)
    Mop = odl.MatrixOperator(M)
    f = S.L2NormSquared(Mop.range).translated(unflat(Mop.range, b)) * Mop
    return 'lsq', f, (lambda v: float(np.sum((M.dot(v) - b) ** 2))), \
        (lambda v: 2 * M.T.dot(M.dot(v) - b)), d


def family_smooth_descent(ctx, r, exact, n, opaque=False):
    import odl
    S = odl.solvers
    kind, f, val, gradv, d = make_functional(r)
    sname = r.choice(['newton', 'bfgs', 'bfgs', 'broyden', 'broyden', 'cgnl', 'cgnl', 'steepest'])
    while sname == 'newton' and kind == 'lsq':
        # the Hessian of a composition has no usable `.inverse` (LinAlgError, not this property)
        kind, f, val, gradv, d = make_functional(r)
    dom = f.domain
    x0 = sl.dy_vec(r, d, 16, 8)
    if kind == 'rosenbrock':
        x0 = np.clip(x0, -1.5, 1.5)
    default_ls = r.random() < 0.5
    if default_ls:
        ls, lsk = S.BacktrackingLineSearch(f), 'backtracking(default max_num_iter)'
    else:
        ls = S.BacktrackingLineSearch(f, tau=r.choice([0.5, 0.25, 0.75]), discount=r.choice([0.01, 0.1, 0.3]),
                                      max_num_iter=r.choice([20, 40]))
        lsk = 'backtracking(tau, discount, max_num_iter)'
    maxiter = r.randint(2, 25)
    opt = ''
    kw = {}
    if sname == 'newton':
        fn = S.newtons_method
        if r.random() < 0.5:
            kw['cg_iter'] = r.choice([1, 2, d + 1])
            opt = 'cg_iter'
        opt += '/hessian.inverse' if kind == 'rosenbrock' else '/cg'
    elif sname == 'bfgs':
        fn = S.bfgs_method
        if r.random() < 0.5:
            kw['num_store'] = r.choice([1, 2, 3])
            opt = 'num_store'
        if r.random() < 0.4:
            kw['hessinv_estimate'] = odl.ScalingOperator(dom, r.choice([0.5, 0.25, 1.0]))
            opt += '+hessinv_estimate'
    elif sname == 'broyden':
        fn = S.broydens_method
        kw['impl'] = r.choice(['first', 'second'])
        opt = kw['impl']
        if r.random() < 0.4:
            kw['hessinv_estimate'] = odl.ScalingOperator(dom, r.choice([0.5, 0.25, 1.0]))
            opt += '+hessinv_estimate'
    elif sname == 'cgnl':
        fn = S.conjugate_gradient_nonlinear
        kw['beta_method'] = r.choice(['FR', 'PR', 'HS', 'DY'])
        kw['nreset'] = r.choice([0, 0, 1, 2])
        opt = '{}/nreset={}'.format(kw['beta_method'], 'pos' if kw['nreset'] else 0)
    else:
        fn = S.steepest_descent
    p = dict(solver='smooth_descent', opkind='{}:{}'.format(sname, kind), x0=x0, fk=opt or '-', gk=lsk,
             cseed=r.cseed)
    x = unflat(dom, x0)
    rec = Recorder()
    st, _ = guarded(fn, f, x, line_search=ls, maxiter=maxiter, callback=rec, **kw)
    seq = [x0] + rec.iterates
    # (cgnl moves x without a callback at the start of every reset cycle: the final x is judged too)
    seq = seq + [flat(x).copy()]
    # objective through the REAL functional and through numpy (independent of f's implementation)
    fv = [float(f(unflat(dom, v))) for v in seq]
    nv = [val(np.asarray(v, dtype=float)) for v in seq]
    for a_, b_ in zip(fv, nv):
        if not abs(a_ - b_) <= 1e-9 * (1 + abs(b_)):
            viol(ctx, 'functional value differs from its formula f=' + kind, '{} vs numpy {}'.format(a_, b_),
                 p, n=maxiter)
            break
    scale = max([abs(v) for v in nv] + [1e-300])
    for k in range(len(nv) - 1):
        if not (np.isfinite(nv[k + 1]) and nv[k + 1] <= nv[k] + 1e-12 * scale):
            viol(ctx, '{} with BacktrackingLineSearch increases the objective f={} options={}'.format(
                sname, kind, opt or '-'),
                'f(x_{})={!r} > f(x_{})={!r} ({}; outcome of the call: {})'.format(
                    k + 1, nv[k + 1], k, nv[k], lsk, st if st == 'ok' else err_kind(st)), p, n=maxiter)
            break
    if st != 'ok':
        ctx.err(err_kind(st))
        ctx.hit('oracle/smooth_descent/raised(outcome, objective still monotone)')
    ctx.hit('oracle/smooth_descent/' + sname)
    ctx.hit('oracle/smooth_descent/f=' + kind)
    ctx.hit('oracle/smooth_descent/' + lsk)
    if opt:
        for o in opt.replace('+', '/').split('/'):
            if o:
                ctx.hit('oracle/smooth_descent/{}/{}'.format(sname, o))
    ctx.case(('oracle', 'smooth_descent', sname, kind, opt, default_ls) if len(rec.iterates) else None)
    return []


def family_newton_exact(ctx, r, exact, n, opaque=False):
    """Newton with the full step (float `line_search` -> ConstantLineSearch) on a strictly convex quadratic:
    the first iterate is the minimiser (cg_iter = dimension solves the Newton system, C12.cg_exact_after_dim);
    with fewer CG iterations or a damped step the objective still decreases (f convex quadratic, SPD Hessian,
    step in (0, 1])."""
    import odl
    S = odl.solvers
    d = r.randint(1, 4)
    A = spd(r, d)
    b = sl.dy_vec(r, d, 16, 8)
    f = S.QuadraticForm(operator=odl.MatrixOperator(A), vector=unflat(odl.rn(d), b), constant=0.0)
    x0 = sl.dy_vec(r, d, 16, 8)
    step = r.choice([1.0, 1.0, 0.5, 0.25])
    cg_iter = r.choice([None, None, 1, d])
    p = dict(solver='newton_exact', opkind='spd{}'.format(d), x0=x0, fk='step={}'.format(step),
             gk='cg_iter={}'.format(cg_iter), cseed=r.cseed)
    x = unflat(odl.rn(d), x0)
    rec = Recorder()
    maxiter = r.randint(1, 5)
    st, _ = guarded(S.newtons_method, f, x, line_search=step, maxiter=maxiter, cg_iter=cg_iter, callback=rec)
    xs = np.linalg.solve(2 * A, -b)

    def val(v):
        return float(v.dot(A.dot(v)) + b.dot(v))
    if st != 'ok':
        viol(ctx, 'newtons_method raises on a strictly convex quadratic ' + p['gk'], st, p, n=maxiter,
             A=A.tolist(), b=b.tolist())
    else:
        seq = [x0] + rec.iterates
        nv = [val(np.asarray(v)) for v in seq]
        scale = max(abs(v) for v in nv) + 1e-300
        for k in range(len(nv) - 1):
            if not nv[k + 1] <= nv[k] + 1e-12 * scale:
                viol(ctx, 'newtons_method (step in (0,1]) increases a strictly convex quadratic ' + p['gk'],
                     'f(x_{})={!r} > f(x_{})={!r} step={}'.format(k + 1, nv[k + 1], k, nv[k], step), p,
                     n=maxiter, A=A.tolist(), b=b.tolist())
                break
        if step == 1.0 and cg_iter in (None, d) and np.linalg.cond(A) < 1e4 and rec.iterates:
            if np.linalg.norm(rec.iterates[0] - xs) > 1e-7 * (1 + np.linalg.norm(xs) + np.linalg.norm(x0)):
                viol(ctx, 'newtons_method with the full step is not exact after one iteration on a quadratic',
                     'x_1 = {} but the minimiser is {}'.format(rec.iterates[0], xs), p, n=maxiter,
                     A=A.tolist(), b=b.tolist())
            ctx.hit('oracle/newton_exact/full-step-exact')
    ctx.hit('oracle/newton_exact/' + ('constant-step<1' if step != 1.0 else 'constant-step=1'))
    ctx.case(('oracle', 'newton_exact', d, step, cg_iter) if st == 'ok' and rec.iterates else None)
    return []


def seq_mismatch(impl, ref, rtol=1e-9):
    if len(impl) != len(ref):
        return '{} callback iterates, the documented iteration gives {}'.format(len(impl), len(ref))
    for k, (a, b) in enumerate(zip(impl, ref)):
        a, b = np.asarray(a, dtype=float), np.asarray(b, dtype=float)
        if a.shape != b.shape or not np.all(np.abs(a - b) <= rtol * (1 + np.abs(b))):
            return 'iterate {}: {} vs documented {}'.format(k, a, b)
    return None


def family_ref_adam(ctx, r, exact, n, opaque=False):
    import odl
    S = odl.solvers
    kind, f, val, gradv, d = make_functional(r)
    while gradv is None:
        kind, f, val, gradv, d = make_functional(r)
    x0 = sl.dy_vec(r, d, 16, 8)
    lr = r.choice([1e-3, 0.01, 0.125])
    b1, b2 = r.choice([0.9, 0.5]), r.choice([0.999, 0.75])
    eps = r.choice([1e-8, 1e-3])
    maxiter = r.randint(1, 12)
    p = dict(solver='ref_adam', opkind=kind, x0=x0, fk='lr={}'.format(lr), gk='b1={} b2={}'.format(b1, b2),
             cseed=r.cseed)
    x = unflat(f.domain, x0)
    rec = Recorder()
    st, _ = guarded(S.adam, f, x, learning_rate=lr, beta1=b1, beta2=b2, eps=eps, maxiter=maxiter,
                    callback=rec)
    ref, v_ = [], np.array(x0, dtype=float)
    m, v = np.zeros(d), np.zeros(d)
    for _ in range(maxiter):
        g = gradv(v_)
        if np.linalg.norm(g) < 1e-16:
            break
        m = b1 * m + (1 - b1) * g
        v = b2 * v + (1 - b2) * g ** 2
        v_ = v_ - lr * np.sqrt(1 - b2) / (1 - b1) * m / (np.sqrt(v) + eps)
        ref.append(v_.copy())
    if st != 'ok':
        viol(ctx, 'adam raises f=' + kind, st, p, n=maxiter)
    else:
        d_ = seq_mismatch(rec.iterates, ref)
        if d_:
            viol(ctx, 'adam differs from the documented iteration f=' + kind, d_, p, n=maxiter)
    ctx.hit('reference/adam')
    ctx.case(('reference', 'adam', kind, lr, b1, b2) if st == 'ok' and ref else None)
    return []


def zero_seq(base):
    t = 1.0
    while True:
        t /= base
        yield t


def family_ref_gauss_newton(ctx, r, exact, n, opaque=False):
    """linear operator, domain dimension <= 3 (the 3 inner CG iterations solve the regularised normal
    equations exactly, C12.cg_exact_after_dim): x_k = x0 + (A^T A + t_k)^{-1} A^T (b - A x0)."""
    import odl
    from odl.solvers import gauss_newton
    d = r.randint(1, 3)
    m = r.randint(1, 4)
    A = sl.small_int_matrix(r, m, d)
    b = sl.dy_vec(r, m, 16, 8)
    x0 = sl.dy_vec(r, d, 16, 8)
    niter = r.randint(1, 5)
    default = r.random() < 0.35
    base = 2.0 if default else r.choice([2.0, 4.0, 1.5])
    op = odl.MatrixOperator(A)
    p = dict(solver='ref_gauss_newton', opkind='{}x{}'.format(m, d), x0=x0, fk='-',
             gk='zero_seq=' + ('default' if default else 'exp({})'.format(base)), cseed=r.cseed)

    def call(**kw):
        x = unflat(op.domain, x0)
        rec = Recorder()
        st, _ = guarded(gauss_newton, op, x, unflat(op.range, b), niter, callback=rec, **kw)
        return st, rec.iterates
    if default:
        # HISTORY stratum: two identical calls with the default zero sequence
        st, it1 = call()
        st2, it2 = call()
        st3, it3 = call(zero_seq=zero_seq(2.0))
        if st == 'ok' and st2 == 'ok' and st3 == 'ok':
            d12 = seq_mismatch(it1, it2)
            d23 = seq_mismatch(it2, it3)
            if d12 or d23:
                viol(ctx, 'gauss_newton default zero_seq depends on the call history',
                     'two identical calls with the default `zero_seq`, then one with a fresh exp_zero_seq(2.0): '
                     'first vs second: {}; second vs fresh: {}'.format(d12, d23)[:600], p, n=niter,
                     A=A.tolist(), b=b.tolist())
        else:
            viol(ctx, 'gauss_newton raises matrix=' + p['opkind'], str((st, st2, st3))[:300], p, n=niter)
        ctx.hit('history/gauss_newton-default-zero_seq')
        ctx.case(('history', 'gauss_newton', p['opkind'], niter))
        return []
    st, its = call(zero_seq=zero_seq(base))
    if st != 'ok':
        viol(ctx, 'gauss_newton raises matrix=' + p['opkind'], st, p, n=niter)
    else:
        ref, t = [], 1.0
        for _ in range(niter):
            t /= base
            ref.append(x0 + np.linalg.solve(A.T.dot(A) + t * np.eye(d), A.T.dot(b - A.dot(x0))))
        d_ = seq_mismatch(its, ref, rtol=1e-6)
        if d_:
            viol(ctx, 'gauss_newton differs from the Tikhonov-regularised Newton step matrix=' + p['opkind'],
                 d_, p, n=niter, A=A.tolist(), b=b.tolist())
        res = [float(np.linalg.norm(A.dot(v) - b)) for v in its]
        for k in range(len(res) - 1):
            if not res[k + 1] <= res[k] * (1 + 1e-9) + 1e-12:
                viol(ctx, 'gauss_newton residual increases as the regularisation decreases matrix=' + p['opkind'],
                     '|Ax_{}-b|={} > |Ax_{}-b|={}'.format(k + 1, res[k + 1], k, res[k]), p, n=niter,
                     A=A.tolist(), b=b.tolist())
                break
    ctx.hit('reference/gauss_newton')
    ctx.case(('reference', 'gauss_newton', p['opkind'], base, niter) if st == 'ok' else None)
    return []


def family_ref_iternum(ctx, r, exact, n, opaque=False):
    """steepest_descent with LineSearchFromIterNum / a float step (ConstantLineSearch) / an explicit
    ConstantLineSearch: x_{k+1} = x_k - step_k grad f(x_k)."""
    import odl
    S = odl.solvers
    kind, f, val, gradv, d = make_functional(r)
    while gradv is None:
        kind, f, val, gradv, d = make_functional(r)
    x0 = sl.dy_vec(r, d, 16, 8)
    which = r.choice(['iternum', 'iternum', 'float', 'constant'])
    c = r.choice([0.125, 0.0625, 0.03125])
    if which == 'iternum':
        rule = r.choice(['c/(k+1)', 'c if k < 2 else c/4'])
        stepf = (lambda k: c / (k + 1)) if rule == 'c/(k+1)' else (lambda k: c if k < 2 else c / 4)
        ls = S.LineSearchFromIterNum(stepf)
    else:
        rule, stepf = 'constant', (lambda k: c)
        ls = c if which == 'float' else S.ConstantLineSearch(c)
    maxiter = r.randint(1, 8)
    p = dict(solver='ref_iternum', opkind=kind, x0=x0, fk=which, gk=rule, cseed=r.cseed)
    x = unflat(f.domain, x0)
    rec = Recorder()
    st, _ = guarded(S.steepest_descent, f, x, line_search=ls, maxiter=maxiter, tol=1e-30, callback=rec)
    ref, v = [], np.array(x0, dtype=float)
    for k in range(maxiter):
        g = gradv(v)
        if np.linalg.norm(g) ** 2 < 1e-30:
            break
        v = v - stepf(k) * g
        ref.append(v.copy())
    if st != 'ok':
        viol(ctx, 'steepest_descent raises with line search ' + which, st, p, n=maxiter)
    else:
        d_ = seq_mismatch(rec.iterates, ref)
        if d_:
            viol(ctx, 'steepest_descent with {} differs from x - step_k grad f(x)'.format(
                'LineSearchFromIterNum' if which == 'iternum' else 'a constant step'), d_, p, n=maxiter)
        if which == 'iternum' and ls.iter_count != len(ref):
            viol(ctx, 'LineSearchFromIterNum iteration count', '{} calls counted, {} steps taken'.format(
                ls.iter_count, len(ref)), p, n=maxiter)
    st_t, _ = guarded(S.LineSearchFromIterNum, 1.0)
    if 'TypeError' not in str(st_t):
        viol(ctx, 'LineSearchFromIterNum accepts a non-callable', str(st_t), p)
    ctx.hit('reference/line_search/' + which)
    ctx.case(('reference', 'iternum', kind, which, rule) if st == 'ok' and ref else None)
    return []


def family_ref_quasi_newton(ctx, r, exact, n, opaque=False):
    """bfgs_method / broydens_method / conjugate_gradient_nonlinear with a CONSTANT step against the
    TEXTBOOK formulas on DENSE matrices (independent of the two-loop recursions of _bfgs_direction /
    _broydens_direction): BFGS inverse update H+ = (I - s y^T/y^T s) H (I - y s^T/y^T s) + s s^T/y^T s,
    good Broyden H+ = H + (dx - H dg) dx^T H / (dx^T H dg), bad Broyden H+ = H + (dx - H dg) dg^T / dg^T dg,
    nonlinear CG with beta_FR/PR/HS/DY clipped at 0.  The backtracking oracle cannot see a wrong search
    DIRECTION (the line search flips and shortens any direction); this one does."""
    import odl
    S = odl.solvers
    kind, f, val, gradv, d = make_functional(r)
    while gradv is None:
        kind, f, val, gradv, d = make_functional(r)
    x0 = sl.dy_vec(r, d, 16, 8)
    # a step that keeps the first iterations bounded: c / (largest curvature)
    H2 = np.array([gradv(e) - gradv(np.zeros(d)) for e in np.eye(d)])
    lip = max(float(np.linalg.norm(H2, 2)), 1e-3)
    step = r.choice([1.0, 0.5, 0.25]) / lip
    sname = r.choice(['bfgs', 'bfgs', 'broyden-first', 'broyden-second', 'cgnl'])
    maxiter = r.randint(1, 6)
    h0 = r.choice([None, None, 0.5, 2.0])
    kw, ref = {}, []
    x = np.array(x0, dtype=float)
    if sname == 'cgnl':
        fn, beta_m = S.conjugate_gradient_nonlinear, r.choice(['FR', 'PR', 'HS', 'DY'])
        kw, opt = dict(beta_method=beta_m), beta_m
        dx = -gradv(x)
        if abs(dx.dot(dx)) >= 1e-16:
            x = x + step * dx
            sdir = dx.copy()
            for _ in range(maxiter):
                dx, dxo = -gradv(x), dx
                dg = dx - dxo
                with np.errstate(all='ignore'):
                    beta = {'FR': dx.dot(dx) / dxo.dot(dxo), 'PR': dx.dot(dg) / dxo.dot(dxo),
                            'HS': -dx.dot(dg) / sdir.dot(dg), 'DY': -dx.dot(dx) / sdir.dot(dg)}[beta_m]
                beta = max(0, beta)
                sdir = dx + beta * sdir
                if abs(-dx.dot(sdir)) <= 1e-16:
                    break
                x = x + step * sdir
                ref.append(x.copy())
    else:
        impl = sname.split('-')[1] if '-' in sname else None
        fn = S.bfgs_method if impl is None else S.broydens_method
        if impl:
            kw['impl'] = impl
        if h0 is not None:
            kw['hessinv_estimate'] = odl.ScalingOperator(f.domain, h0)
        opt = '{} H0={}'.format(impl or 'bfgs', h0)
        H = np.eye(d) * (1.0 if h0 is None else h0)
        g = gradv(x)
        for _ in range(maxiter):
            sd = -H.dot(g)
            if sd.dot(g) == 0:
                break
            dxv = step * sd
            x = x + dxv
            g, go = gradv(x), g
            dg = g - go
            if impl is None:
                ys = dg.dot(dxv)
                if abs(ys) < 1e-15:
                    break                       # (the reset branch: not part of this reference)
                I = np.eye(d)
                H = (I - np.outer(dxv, dg) / ys).dot(H).dot(I - np.outer(dg, dxv) / ys) + np.outer(dxv, dxv) / ys
            elif impl == 'first':
                v = H.dot(dg)
                if abs(dxv.dot(v)) < 1e-15:
                    break
                H = H + np.outer(dxv - v, dxv.dot(H)) / dxv.dot(v)
            else:
                if abs(dg.dot(dg)) < 1e-15:
                    break
                H = H + np.outer(dxv - H.dot(dg), dg) / dg.dot(dg)
            ref.append(x.copy())
    p = dict(solver='ref_quasi_newton', opkind='{}:{}'.format(sname, kind), x0=x0, fk=opt,
             gk='step={:.4g}'.format(step), cseed=r.cseed)
    xe = unflat(f.domain, x0)
    rec = Recorder()
    st, _ = guarded(fn, f, xe, line_search=step, maxiter=maxiter, callback=rec, **kw)
    if st != 'ok':
        viol(ctx, '{} raises with a constant step f={}'.format(sname, kind), st, p, n=maxiter)
    elif len(ref) == maxiter or sname == 'cgnl':
        # (when the reference stopped at a reset / convergence test the tail is not compared)
        scale = 1 + max([float(np.max(np.abs(v))) for v in ref] + [0.0])
        k = min(len(ref), len(rec.iterates))
        d_ = seq_mismatch([np.asarray(v) / scale for v in rec.iterates[:k]], [v / scale for v in ref[:k]],
                          rtol=1e-7)
        if d_ is None and len(rec.iterates) != len(ref):
            d_ = '{} callback iterates, the textbook iteration gives {}'.format(len(rec.iterates), len(ref))
        if d_:
            viol(ctx, '{} differs from the textbook update f={} options={}'.format(sname, kind, opt),
                 d_ + ' (scaled by 1/{:.3g})'.format(scale), p, n=maxiter)
        ctx.hit('reference/quasi_newton/' + sname)
        if h0 is not None and sname != 'cgnl':
            ctx.hit('reference/quasi_newton/hessinv_estimate')
    ctx.case(('reference', 'quasi_newton', sname, kind, opt) if st == 'ok' and ref else None)
    return []


def family_smooth_edges(ctx, r, exact, n, opaque=False):
    """'a solution is a fixed point' for the smooth solvers (started AT the minimiser a of |x - a|^2, where
    the gradient is exactly 0, every one of them returns x = a without raising) and their validation
    branches (x from another space -> TypeError; unknown `beta_method` / `impl` -> ValueError)."""
    import odl
    S = odl.solvers
    d = r.randint(1, 3)
    sp = odl.rn(d)
    a = sl.dy_vec(r, d, 16, 8)
    f = S.L2NormSquared(sp).translated(unflat(sp, a))
    p = dict(solver='smooth_edges', opkind='rn{}'.format(d), x0=a, fk='l2sq_t', gk='-', cseed=r.cseed)
    ls = r.choice([0.5, 'bt'])
    solvers = [('steepest_descent', S.steepest_descent, {}), ('adam', S.adam, {}),
               ('newtons_method', S.newtons_method, {}), ('bfgs_method', S.bfgs_method, {}),
               ('broydens_method', S.broydens_method, {'impl': r.choice(['first', 'second'])}),
               ('conjugate_gradient_nonlinear', S.conjugate_gradient_nonlinear,
                {'beta_method': r.choice(['FR', 'PR', 'HS', 'DY'])})]
    for name, fn, kw in solvers:
        x = unflat(sp, a)
        kws = dict(kw)
        if name != 'adam':
            kws['line_search'] = S.BacktrackingLineSearch(f) if ls == 'bt' else ls
        st, _ = guarded(fn, f, x, maxiter=3, **kws)
        if st != 'ok' or np.any(flat(x) != a):
            viol(ctx, '{} started at the minimiser (gradient exactly 0) moves away or raises'.format(name),
                 '{}; x = {} instead of {}'.format(st if st == 'ok' else err_kind(st), flat(x), a), p)
        other = odl.rn(d + 1).zero()
        st, _ = guarded(fn, f, other, maxiter=1, **kws)
        if 'TypeError' not in str(st):
            viol(ctx, '{} accepts a start point from another space'.format(name), str(st)[:200], p)
    st, _ = guarded(S.conjugate_gradient_nonlinear, f, unflat(sp, a), beta_method='XX')
    if 'ValueError' not in str(st):
        viol(ctx, 'conjugate_gradient_nonlinear accepts an unknown beta_method', str(st)[:200], p)
    st, _ = guarded(S.broydens_method, f, unflat(sp, a), impl='third')
    if 'ValueError' not in str(st):
        viol(ctx, 'broydens_method accepts an unknown impl', str(st)[:200], p)
    ctx.hit('test/smooth solvers: start at the minimiser, validation')
    ctx.case(('test', 'smooth_edges', d, ls))
    return []


def family_linesearch_direct(ctx, r, exact, n, opaque=False):
    """BacktrackingLineSearch called directly: `dir_derivative` omitted (taken from function.gradient),
    `estimate_step=True` (the next call starts from the stored step), and the refusals (no gradient and no
    dir_derivative; dir_derivative == 0; non-finite value at the start; NaN at a trial point).  Oracle
    (C12.armijo_descent): a returned step satisfies the sufficient-decrease test and strictly decreases f;
    with estimate_step every later step is the stored one times a power of tau."""
    import odl
    S = odl.solvers
    kind, f, val, gradv, d = make_functional(r)
    while gradv is None:
        kind, f, val, gradv, d = make_functional(r)
    x0 = sl.dy_vec(r, d, 16, 8)
    tau, disc = r.choice([0.5, 0.25]), r.choice([0.01, 0.1])
    est = r.random() < 0.6
    a0 = r.choice([1.0, 4.0, 0.5])
    ls = S.BacktrackingLineSearch(f, tau=tau, discount=disc, alpha=a0, estimate_step=est)
    p = dict(solver='zz_linesearch_direct', opkind=kind, x0=x0, fk='estimate_step={}'.format(est),
             gk='tau={} discount={}'.format(tau, disc), cseed=r.cseed)
    x = np.array(x0, dtype=float)
    prev = a0 if est else None
    for it in range(r.randint(1, 4)):
        g = gradv(x)
        ascent = r.random() < 0.3
        dvec = g.copy() if ascent else -g
        if r.random() < 0.4:
            dvec = dvec + 0.25 * sl.dy_vec(r, d, 8, 8)
        dd = float(g.dot(dvec))
        if dd == 0:
            break
        st, a = guarded(ls, unflat(f.domain, x), unflat(f.domain, dvec))
        if st != 'ok':
            ctx.err(err_kind(st))
            ctx.hit('oracle/linesearch_direct/raised')
            break
        a = float(a)
        fx, fn_ = val(x), val(x + a * dvec)
        if not (fn_ <= fx - abs(a * dd * disc) * (1 - 1e-9) + 1e-12 * (1 + abs(fx)) and fn_ < fx):
            viol(ctx, 'BacktrackingLineSearch returns a step without sufficient decrease f={} {}'.format(
                kind, p['fk']), 'step {}: f(x + a d) = {!r}, f(x) = {!r}, |a dd discount| = {!r}'.format(
                    a, fn_, fx, abs(a * dd * disc)), p, n=it)
            break
        if (a > 0) != (dd < 0):
            viol(ctx, 'BacktrackingLineSearch step has the wrong sign f=' + kind,
                 'step {} for directional derivative {}'.format(a, dd), p, n=it)
            break
        if est:
            k_ = np.log(abs(a) / prev) / np.log(tau)
            if not (abs(k_ - round(k_)) < 1e-9 and round(k_) >= 0):
                viol(ctx, 'BacktrackingLineSearch(estimate_step=True) does not start from the stored step',
                     'step {} after stored {} (tau={})'.format(a, prev, tau), p, n=it)
                break
            prev = abs(a)
            ctx.hit('oracle/linesearch_direct/estimate_step')
        else:
            k_ = np.log(abs(a)) / np.log(tau)
            if not (abs(k_ - round(k_)) < 1e-9 and round(k_) >= 0):
                viol(ctx, 'BacktrackingLineSearch step is not a power of tau', 'step {} tau {}'.format(a, tau),
                     p, n=it)
                break
        x = x + a * dvec
        ctx.hit('oracle/linesearch_direct/' + ('ascent-direction' if ascent else 'descent-direction'))
    # refusals
    xe = unflat(f.domain, x0)
    plain = S.BacktrackingLineSearch(lambda v: float(f(v)))
    for name, fn in [('no gradient and no dir_derivative', lambda: plain(xe, xe)),
                     ('dir_derivative == 0', lambda: ls(xe, xe, dir_derivative=0.0)),
                     ('non-finite start value', lambda: S.BacktrackingLineSearch(lambda v: float('inf'))(
                         xe, xe, dir_derivative=-1.0)),
                     ('NaN at the trial point', lambda: S.BacktrackingLineSearch(
                         lambda v: 0.0 if np.all(flat(v) == x0) else float('nan'))(xe, xe + 1.0,
                                                                                    dir_derivative=-1.0))]:
        st, _ = guarded(fn)
        if 'ValueError' not in str(st):
            viol(ctx, 'BacktrackingLineSearch does not refuse: ' + name, str(st)[:200], p)
    ctx.hit('oracle/linesearch_direct/refusals')
    ctx.case(('oracle', 'linesearch_direct', kind, est, tau, disc))
    return []


FAMILIES = {
    'smooth_descent': family_smooth_descent, 'newton_exact': family_newton_exact,
    'ref_adam': family_ref_adam, 'ref_gauss_newton': family_ref_gauss_newton,
    'ref_iternum': family_ref_iternum, 'ref_quasi_newton': family_ref_quasi_newton,
    'smooth_edges': family_smooth_edges, 'zz_linesearch_direct': family_linesearch_direct,
}
EXPECTED_BRANCHES = [
    'oracle/smooth_descent/newton', 'oracle/smooth_descent/bfgs', 'oracle/smooth_descent/broyden',
    'oracle/smooth_descent/cgnl', 'oracle/smooth_descent/steepest',
    'oracle/smooth_descent/f=quadratic', 'oracle/smooth_descent/f=rosenbrock', 'oracle/smooth_descent/f=lsq',
    'oracle/smooth_descent/backtracking(default max_num_iter)',
    'oracle/smooth_descent/backtracking(tau, discount, max_num_iter)',
    'oracle/smooth_descent/newton/hessian.inverse', 'oracle/smooth_descent/newton/cg',
    'oracle/smooth_descent/bfgs/num_store', 'oracle/smooth_descent/bfgs/hessinv_estimate',
    'oracle/smooth_descent/broyden/first', 'oracle/smooth_descent/broyden/second',
    'oracle/smooth_descent/cgnl/FR', 'oracle/smooth_descent/cgnl/PR', 'oracle/smooth_descent/cgnl/HS',
    'oracle/smooth_descent/cgnl/DY', 'oracle/smooth_descent/cgnl/nreset=pos',
    'oracle/newton_exact/full-step-exact', 'oracle/newton_exact/constant-step<1',
    'reference/adam', 'reference/gauss_newton', 'history/gauss_newton-default-zero_seq',
    'reference/line_search/iternum', 'reference/line_search/float', 'reference/line_search/constant',
    'reference/quasi_newton/bfgs', 'reference/quasi_newton/broyden-first',
    'reference/quasi_newton/broyden-second', 'reference/quasi_newton/cgnl',
    'reference/quasi_newton/hessinv_estimate', 'test/smooth solvers: start at the minimiser, validation',
    'oracle/linesearch_direct/estimate_step', 'oracle/linesearch_direct/ascent-direction',
    'oracle/linesearch_direct/descent-direction', 'oracle/linesearch_direct/refusals',
]
