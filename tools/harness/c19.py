"""C19 — acquisition geometries are rigid-motion consistent for all parameters.

Tie to /repo (correspondence, general stream):
  every evaluation method of every geometry class (rotation_matrix, det_refpoint,
  src_position, det_point_position, det_to_src, det_axis/det_axes) is run on the real object
  and on the Lean model (Drivers/C19.lean, exact rationals: the model receives the exact
  values of the floats the object stores and of cos/sin of the angles) and compared with
  1e-12 on unit-scale data; the shape logic of vectorised calls, the position bookkeeping of
  the constructors / frommatrix / __getitem__, the vectors the constructors derive through
  transform_system (default frame carried along) and the detector extents of the factories
  are compared with their model functions as well.  Round 4: rotation_matrix_from_to and
  transform_system are also called directly (streams fromto, tsys) against the model of the
  functions as coded, with all branches; stream helix checks the pitch period on the real code.
Oracle (independent of the model, evaluated on the real code): the relations of the
property themselves.
"""
import math
from fractions import Fraction

import numpy as np

from vf import core
from vf.core import fs, fl

RULE = ('one case = one evaluation point (geometry, motion parameter, detector parameter) or one '
        'vectorised call / slicing / frommatrix / factory relation. Geometries are drawn from '
        'ODL\'s own constructors with generic (non axis-aligned) axes, initial vectors, '
        'translations, radii, pitches, shift functions and rigid/scaled init matrices. A case is '
        'non-trivial when the geometry is not the default-configured one or the parameters are '
        'non-zero; distinct = distinct (class, construction, detector kind, option flags, '
        'relation / call shape class) signatures.')
TRUSTED = ['NumPy cos/sin/einsum/broadcasting (the model receives the float cos/sin values and is '
           'polynomial in them); the driver executes the model\'s own normalisation v/sqrt(v.v) with a '
           '100-bit Newton square root',
           'read-out of the stored attributes of the real geometry object (axis, det_pos_init, '
           'src_to_det_init, detector.axes, radii, translation) as the model\'s inputs']
ASSUMPTIONS = ['floating-point rounding is outside the model: agreement is required to '
               '1e-12*(1+scale) (general stream); theorems are exact over any commutative ring/field',
               'cos^2+sin^2=1, unit-length stored axes and sqrt(s)^2 = s are hypotheses of the theorems; the '
               'real code / the executed square root satisfy them up to rounding (checked to 1e-12)',
               'transform_system treats a given principal vector within np.allclose (atol 1e-8) of the default '
               'as the default: for such inputs the derived frame is compared with tolerance 4*angle instead '
               'of 1e-12; principal vectors opposite or within 0.045 rad of opposite to the default are outside '
               'the frame model (ill-conditioned 1/(1+<u,v>)) and checked by the frame oracle only',
               'partition slicing itself (which angles a slice keeps) is C14; here it is only '
               'checked on the real code that slice.angles == angles[slice]',
               'Fan/Cone __getitem__, frommatrix det_point_position/det_to_src, vectorised VALUES (the shape has a '
               'theorem), factory corner coverage and the helical Tam-Danielsson window are oracle-only',
               'round 4: rotation_matrix_from_to (stream fromto) and transform_system (stream tsys) are called '
               'directly and compared with rotFromToCode2/3 and tsMatrix2/3 (zero tests, np.allclose snap, collinear / '
               'opposite / generic branches) at 4e-12, exactly on axis-aligned power-of-two inputs; near-opposite '
               'inputs (angle th from opposite, th >= 1e-7) at 4e-12 + 8e-16/th because the code normalises a cross '
               'product of length th computed in floats; the band edges |u x v| = 1e-10 and |p_perp| = 1e-8 themselves '
               'are avoided by the generator (model tests squared norms exactly, the code rounded norms); the snap '
               '(decided on the normalised vectors since b998548) is accepted up to 4e-8 rad',
               'round 5: strata axis_rotation (model), astra-vecs (pure-NumPy geom_to_vec converters of astra_setup.py '
               'against single-parameter evaluation; the other astra_* functions need the astra module, which is not '
               'installed), validation (refused inputs with the documented exception type, check_bounds), accessors, '
               'getitem-fan-model (fanCtor / fanGetitem). Not reached on purpose: __repr__/__str__, and '
               'is_rotation_matrix / angles_from_matrix / to_lab_sys / to_local_sys of utility.py (not exported, no '
               'caller anywhere in odl; is_rotation_matrix uses an elementwise product for ndarrays and '
               'angles_from_matrix calls np.atan2, absent in this NumPy)']

TOL = 1e-12
PI2 = 2 * np.pi


# ---------------------------------------------------------------------------
# random generic data

def gen_scalar(rng, lo=-3.0, hi=3.0):
    return round(rng.uniform(lo, hi), 3)


def gen_vec(rng, n, generic=True):
    while True:
        v = [round(rng.uniform(-2, 2), 2) for _ in range(n)]
        if generic and any(abs(x) < 0.15 for x in v):
            continue
        if sum(x * x for x in v) > 0.3:
            return v


def cayley(rng, n):
    """Random rational rotation matrix (exact orthogonal in Fractions, then floats)."""
    if n == 2:
        t = Fraction(rng.randint(-12, 12), rng.randint(3, 9))
        c, s = (1 - t * t) / (1 + t * t), 2 * t / (1 + t * t)
        return [[float(c), float(-s)], [float(s), float(c)]]
    a, b, c = [Fraction(rng.randint(-9, 9), rng.randint(2, 7)) for _ in range(3)]
    # Rodrigues / Cayley: Q = (I - A)^-1 (I + A), A skew(a,b,c)
    d = 1 + a * a + b * b + c * c
    Q = [[1 + a * a - b * b - c * c, 2 * (a * b - c), 2 * (a * c + b)],
         [2 * (a * b + c), 1 - a * a + b * b - c * c, 2 * (b * c - a)],
         [2 * (a * c - b), 2 * (b * c + a), 1 - a * a - b * b + c * c]]
    return [[float(x / d) for x in row] for row in Q]


def _perms3():
    import itertools
    out = []
    for p in itertools.permutations(range(3)):
        for sg in itertools.product([1.0, -1.0], repeat=3):
            M = [[0.0] * 3 for _ in range(3)]
            for i in range(3):
                M[i][p[i]] = sg[i]
            if abs(np.linalg.det(np.array(M)) - 1) < 1e-9:
                out.append(M)
    return out


PERMS3 = _perms3()


def orth_pair(rng):
    """two perpendicular generic 3-vectors with exactly zero float dot product is not
    achievable in general; use columns of a small-integer orthogonal frame scaled."""
    frames = [((1, 2, 2), (2, 1, -2), (2, -2, 1)), ((2, 3, 6), (3, -6, 2), (6, 2, -3)),
              ((1, 4, 8), (4, 7, -4), (8, -4, 1)), ((1, 0, 0), (0, 1, 0), (0, 0, 1)),
              ((0, 0, 1), (1, 0, 0), (0, 1, 0))]
    f = rng.choice(frames)
    i, j = rng.sample(range(3), 2)
    s1, s2 = rng.choice([1, -1]), rng.choice([1, -1])
    k1, k2 = rng.choice([1, 2, 0.5]), rng.choice([1, 3])
    return [s1 * k1 * x for x in f[i]], [s2 * k2 * x for x in f[j]]


# ---------------------------------------------------------------------------
# geometry specs (JSON-able) and builders

def shift_func(coef, ndim):
    """smooth shift function of the angle; returns shape (n, ndim) for angle shape (n,)"""
    if coef is None:
        return None
    co = [float(c) for c in coef]

    def f(angle):
        angle = np.array(angle, dtype=float, ndmin=1)
        cols = [co[0] * np.sin(angle), co[1] * np.cos(angle) + co[2]]
        if ndim == 3:
            cols.append(co[3] * np.sin(2 * angle))
        return np.stack(cols, axis=-1)
    return f


def gen_spec(rng, cls, how, variant):
    """variant: dict of option flags chosen by the caller"""
    s = {'cls': cls, 'how': how}
    s.update(variant)
    ndim = 2 if cls in ('par2', 'fan') else 3
    nang = rng.choice([5, 7, 9])
    s['nang'] = nang
    if cls == 'par3e':
        s['neul'] = variant.get('neul', 2)
    turns = 1
    if cls == 'cone' and variant.get('pitch'):
        turns = 2
    s['amin'] = variant.get('amin', 0.0)
    s['amax'] = {'par2': math.pi, 'par3a': math.pi, 'par3e': math.pi}.get(cls, PI2 * turns)
    if variant.get('negrange'):
        s['amin'] = -1.5
    if variant.get('translation'):
        s['t'] = gen_vec(rng, ndim)
    if how == 'frommatrix':
        Q = cayley(rng, ndim)
        if variant.get('perm'):
            Q = rng.choice(PERMS3)
        if variant.get('scaled'):
            k = rng.choice([2.0, 0.5, 3.0])
            Q = [[k * x for x in row] for row in Q]
        s['Q'] = Q
    else:
        if cls in ('par2',):
            if variant.get('pos'):
                s['pos'] = gen_vec(rng, 2)
            if variant.get('axes'):
                s['axis_init'] = gen_vec(rng, 2)
        if cls == 'par3a':
            if variant.get('axis'):
                s['axis'] = gen_vec(rng, 3)
            if variant.get('pos'):
                s['pos'] = gen_vec(rng, 3)
            if variant.get('axes'):
                s['axes_init'] = [gen_vec(rng, 3), gen_vec(rng, 3)]
        if cls == 'par3e':
            if variant.get('pos'):
                s['pos'] = gen_vec(rng, 3)
            if variant.get('axes'):
                s['axes_init'] = [gen_vec(rng, 3), gen_vec(rng, 3)]
        if cls == 'fan':
            if variant.get('pos'):
                s['s2d'] = gen_vec(rng, 2)
            if variant.get('axes'):
                s['axis_init'] = gen_vec(rng, 2)
        if cls == 'cone':
            if variant.get('axis'):
                s['axis'] = gen_vec(rng, 3)
            if variant.get('pos'):
                s['s2d'] = gen_vec(rng, 3)
            if variant.get('axes'):
                if variant.get('det', 'flat') == 'flat':
                    s['axes_init'] = [gen_vec(rng, 3), gen_vec(rng, 3)]
                else:
                    a, b = orth_pair(rng)
                    s['axes_init'] = [a, b]
    sp = variant.get('special')
    if variant.get('cb0'):
        s['cb0'] = 1
    if sp == 'parallel_d':
        # source and detector on the rotation axis: the constructor must refuse
        ax = s.get('axis', [0.0, 0.0, 1.0])
        k = rng.choice([1.0, -2.0, 0.5])
        s['s2d'] = [k * x for x in ax]
        s['expect_reject'] = 1
        sp = None
    if sp in ('near', 'nearneg') and how == 'ctor':
        # principal vector at a tiny angle delta from the default / from its negative: the band
        # between the collinear branch and the generic one
        delta = variant['delta']
        sg = 1.0 if sp == 'near' else -1.0
        s['delta'] = delta
        if cls == 'par2':
            s['pos'] = [delta, sg]
        elif cls == 'fan':
            s['s2d'] = [-delta, sg * 2.0]
        elif cls == 'par3e':
            s['pos'] = [delta, sg, -2 * delta]
        else:
            s['axis'] = [0.0, delta, sg] if rng.random() < 0.5 else [delta, -delta, sg * 1.5]
        sp = None
    if sp and how == 'ctor':
        # collinear branches of transform_system / rotation_matrix_from_to: the principal vector
        # is a positive multiple of the default ("dilation only") or opposite to it
        k = {'neg': -1.5, 'scaled': 2.5}[sp]
        if cls == 'par2':
            s['pos'] = [0.0, k]
        elif cls == 'fan':
            s['s2d'] = [0.0, k]
        elif cls == 'par3e':
            s['pos'] = [0.0, k, 0.0]
        else:
            s['axis'] = [0.0, 0.0, k]
    if cls in ('fan', 'cone'):
        s['rs'] = round(rng.uniform(0.5, 9), 2)
        s['rd'] = round(rng.uniform(0.0, 7), 2)
        if variant.get('shifts'):
            s['ssh'] = [gen_scalar(rng, -1, 1) for _ in range(4)]
            s['dsh'] = [gen_scalar(rng, -1, 1) for _ in range(4)]
        det = variant.get('det', 'flat')
        s['det'] = det
        if det != 'flat':
            s['cr'] = round(rng.uniform(2, 9), 2)
    if cls == 'cone':
        if variant.get('pitch'):
            s['pitch'] = gen_scalar(rng, -4, 4)
            s['off'] = gen_scalar(rng, -2, 2)
    # detector partition
    if s.get('det', 'flat') == 'flat':
        lo, hi = -round(rng.uniform(0.5, 3), 2), round(rng.uniform(0.5, 3), 2)
    else:
        lo, hi = -round(rng.uniform(0.3, 1.2), 2), round(rng.uniform(0.3, 1.2), 2)
    s['dlo'], s['dhi'] = lo, hi
    s['vlo'], s['vhi'] = -round(rng.uniform(0.5, 2), 2), round(rng.uniform(0.5, 2), 2)
    if s.get('det') == 'sph':
        s['vlo'], s['vhi'] = -0.7, 0.9
    return s


WRAPPED = []   # (array handed to the last constructor call, copy taken before the call)


def caller_arrays_changed():
    return [(b.tolist(), a.tolist()) for a, b in WRAPPED if not np.array_equal(a, b)]


def build(s):
    """Construct the real geometry from a spec."""
    import odl
    del WRAPPED[:]
    cls = s['cls']
    ndim = 2 if cls in ('par2', 'fan') else 3
    if cls == 'par3e':
        ne = s['neul']
        apart = odl.uniform_partition([s['amin']] * ne, [s['amax']] * ne, [s['nang']] * ne)
    else:
        apart = odl.uniform_partition(s['amin'], s['amax'], s['nang'])
    if ndim == 2:
        dpart = odl.uniform_partition(s['dlo'], s['dhi'], 6)
    else:
        dpart = odl.uniform_partition([s['dlo'], s['vlo']], [s['dhi'], s['vhi']], (6, 4))
    kw = {}
    T = odl.tomo
    klass = {'par2': T.Parallel2dGeometry, 'par3a': T.Parallel3dAxisGeometry,
             'par3e': T.Parallel3dEulerGeometry, 'fan': T.FanBeamGeometry,
             'cone': T.ConeBeamGeometry}[cls]
    if cls in ('fan', 'cone'):
        kw['src_shift_func'] = shift_func(s.get('ssh'), ndim)
        kw['det_shift_func'] = shift_func(s.get('dsh'), ndim)
        if s.get('det', 'flat') != 'flat':
            if cls == 'fan':
                kw['det_curvature_radius'] = s['cr']
            else:
                kw['det_curvature_radius'] = (s['cr'], None) if s['det'] == 'cyl' \
                    else (s['cr'], s['cr'])
    if cls == 'cone':
        if 'pitch' in s:
            kw['pitch'] = s['pitch']
            kw['offset_along_axis'] = s['off']
    if s.get('cb0'):
        kw['check_bounds'] = False
    if s['how'] == 'frommatrix':
        M = np.array(s['Q'], dtype=float)
        if 't' in s:
            M = np.hstack([M, np.array(s['t'], dtype=float)[:, None]])
        WRAPPED.append((M, M.copy()))
        if cls in ('fan', 'cone'):
            return klass.frommatrix(apart, dpart, s['rs'], s['rd'], M, **kw)
        return klass.frommatrix(apart, dpart, M, **kw)

    def wrap(v):
        if not s.get('ndarray_args'):
            return tuple(v)
        a = np.array(v, dtype=float)
        WRAPPED.append((a, a.copy()))
        return a
    if 't' in s:
        kw['translation'] = wrap(s['t']) if s.get('ndarray_args') else list(s['t'])
    if cls == 'par2':
        if 'axis_init' in s:
            kw['det_axis_init'] = wrap(s['axis_init'])
        if 'pos' in s:
            return klass(apart, dpart, det_pos_init=wrap(s['pos']), **kw)
        return klass(apart, dpart, **kw)
    if cls == 'par3e':
        if 'axes_init' in s:
            kw['det_axes_init'] = [wrap(a) for a in s['axes_init']]
        if 'pos' in s:
            return klass(apart, dpart, det_pos_init=wrap(s['pos']), **kw)
        return klass(apart, dpart, **kw)
    if cls == 'par3a':
        if 'axes_init' in s:
            kw['det_axes_init'] = [wrap(a) for a in s['axes_init']]
        if 'pos' in s:
            kw['det_pos_init'] = wrap(s['pos'])
        if 'axis' in s:
            kw['axis'] = wrap(s['axis'])
        return klass(apart, dpart, **kw)
    if cls == 'fan':
        if 'axis_init' in s:
            kw['det_axis_init'] = wrap(s['axis_init'])
        if 's2d' in s:
            kw['src_to_det_init'] = wrap(s['s2d'])
        return klass(apart, dpart, s['rs'], s['rd'], **kw)
    if cls == 'cone':
        if 'axes_init' in s:
            kw['det_axes_init'] = [wrap(a) for a in s['axes_init']]
        if 's2d' in s:
            kw['src_to_det_init'] = wrap(s['s2d'])
        if 'axis' in s:
            kw['axis'] = wrap(s['axis'])
        return klass(apart, dpart, s['rs'], s['rd'], **kw)
    raise KeyError(cls)


def all_variants(cls, quick):
    """option-flag combinations per class"""
    out = []
    base = [dict(), dict(translation=1), dict(pos=1), dict(pos=1, translation=1),
            dict(axes=1), dict(pos=1, axes=1, translation=1, negrange=1)]
    if cls in ('par3a', 'cone'):
        base += [dict(axis=1), dict(axis=1, translation=1), dict(axis=1, pos=1, axes=1,
                                                                 translation=1)]
    for b in base:
        out.append(('ctor', dict(b)))
    out.append(('ctor', dict(pos=1, translation=1, ndarray_args=1)))
    out.append(('ctor', dict(special='neg', translation=1)))
    out.append(('ctor', dict(special='scaled')))
    for dl in (1e-9, 3e-8, 1e-7, 1e-5):
        out.append(('ctor', dict(special='near', translation=1, delta=dl)))
    for dl in (3e-8, 1e-6):
        out.append(('ctor', dict(special='nearneg', delta=dl)))
    out.append(('ctor', dict(cb0=1, pos=1, translation=1)))
    out.append(('frommatrix', dict(cb0=1, translation=1)))
    for fm in [dict(), dict(translation=1), dict(scaled=1, translation=1)]:
        out.append(('frommatrix', dict(fm)))
    if cls == 'par3e':
        out = [(h, dict(v, neul=ne)) for h, v in out for ne in (2, 3)]
    if cls == 'fan':
        ext = []
        for h, v in out:
            ext.append((h, v))
        ext += [('ctor', dict(det='circ', cb0=1)),
                ('ctor', dict(det='circ')), ('ctor', dict(det='circ', pos=1, axes=1,
                                                           translation=1)),
                ('ctor', dict(shifts=1)), ('ctor', dict(shifts=1, pos=1, translation=1,
                                                        det='circ')),
                ('frommatrix', dict(det='circ', translation=1)),
                ('frommatrix', dict(shifts=1, translation=1))]
        out = ext
    if cls == 'cone':
        ext = list(out)
        for det in ('cyl', 'sph'):
            ext += [('ctor', dict(det=det)), ('ctor', dict(det=det, axis=1, translation=1)),
                    ('ctor', dict(det=det, axes=1, pos=1)),
                    ('ctor', dict(det=det, axes=1, pos=1, axis=1, translation=1)),
                    ('frommatrix', dict(det=det, translation=1)),
                    ('frommatrix', dict(det=det, perm=1, translation=1))]
        ext += [('ctor', dict(special='parallel_d')), ('ctor', dict(special='parallel_d', axis=1)),
                ('ctor', dict(det='cyl', cb0=1, translation=1)),
                ('ctor', dict(det='cyl', special='neg', pitch=1)),
                ('ctor', dict(pitch=1)), ('ctor', dict(pitch=1, axis=1, translation=1)),
                ('ctor', dict(shifts=1)), ('ctor', dict(shifts=1, pitch=1, axis=1, pos=1,
                                                        translation=1)),
                ('ctor', dict(shifts=1, pitch=1, det='cyl', translation=1)),
                ('frommatrix', dict(pitch=1, translation=1)),
                ('frommatrix', dict(shifts=1, pitch=1, scaled=1, translation=1))]
        out = ext
    return out


def variant_sig(cls, how, v):
    return (cls, how) + tuple(sorted(k for k in v if v[k])) + (v.get('delta', 0), v.get('det', 'flat'),
                                                                  v.get('neul', 0))


# ---------------------------------------------------------------------------
# model lines

def vec(a):
    return fl(np.asarray(a, dtype=float).ravel().tolist())


def cs(x):
    x = np.float64(x)
    return float(np.cos(x)), float(np.sin(x))


def geom_fields(s, g):
    """read the stored attributes of the real object -> protocol fields"""
    cls = s['cls']
    f = []
    if cls in ('par2', 'par3a', 'par3e'):
        f.append('pos=' + vec(g.det_pos_init))
    else:
        f.append('d=' + vec(g.src_to_det_init))
        f.append('rs=' + fs(g.src_radius))
        f.append('rd=' + fs(g.det_radius))
    f.append('t=' + vec(g.translation))
    det = s.get('det', 'flat')
    f.append('det=' + det)
    if det != 'flat':
        f.append('cr=' + fs(g.detector.radius))
    if cls in ('par2', 'fan'):
        f.append('a0=' + vec(g.detector.axis))
    else:
        f.append('a0=' + vec(g.detector.axes[0]))
        f.append('a1=' + vec(g.detector.axes[1]))
    if cls in ('par3a', 'cone'):
        f.append('rk=axis')
        f.append('ax=' + vec(g.axis))
    if cls == 'par3e':
        f.append('rk=euler')
    if cls == 'cone':
        f.append('pitch=' + fs(g.pitch))
        f.append('off=' + fs(g.offset_along_axis))
        cr = np.cross(g.src_to_det_init, g.axis)
        n = float(np.linalg.norm(cr))
        f.append('kt=' + fs(1.0 / n if n > 0 else 0.0))
    return f


def point_line(s, g, gf, ang, dp):
    cls = s['cls']
    kind = {'par2': 'par2', 'par3a': 'par3', 'par3e': 'par3', 'fan': 'fan', 'cone': 'cone'}[cls]
    f = ['pt', 'kind=' + kind] + gf
    if cls == 'par3e':
        a3 = list(ang) + [0.0] * (3 - len(ang))
        nums = []
        for a in a3:
            nums += list(cs(a))
        f.append('ang=' + fl(nums))
    else:
        f.append('ang=' + fl(cs(ang)))
    if cls in ('par2', 'fan'):
        c, si = cs(dp)
        f.append('dp=' + fl([dp, c, si]))
    else:
        c0, s0 = cs(dp[0])
        c1, s1 = cs(dp[1])
        f.append('dp=' + fl([dp[0], dp[1], c0, s0, c1, s1]))
    if cls in ('fan', 'cone'):
        ssh = np.asarray(g.src_shift_func(np.array([ang], dtype=float)), dtype=float).reshape(-1)
        dsh = np.asarray(g.det_shift_func(np.array([ang], dtype=float)), dtype=float).reshape(-1)
        f.append('ssh=' + vec(ssh))
        f.append('dsh=' + vec(dsh))
    if cls == 'cone':
        f.append('turns=' + fs(float(np.float64(ang) / (2 * np.pi))))
    return ' '.join(f)


def parse_ans(ans):
    if not ans.startswith('ok'):
        return None
    out = {}
    for tok in ans.split()[1:]:
        k, v = tok.split('=', 1)
        if ';' in v:
            out[k] = [float(x) for x in sum(core.pfmat(v), [])]
        else:
            out[k] = [float(x) for x in core.pfl(v)]
    return out


# ---------------------------------------------------------------------------
# evaluation of the real code (every call guarded)

def guarded(f):
    try:
        return 'ok', f()
    except Exception as e:  # noqa
        return 'err:{}:{}'.format(type(e).__name__, str(e)[:400]), None


def scale_of(s, g, ang):
    vals = [1.0]
    vals += [abs(x) for x in np.asarray(g.translation).ravel()]
    if s['cls'] in ('fan', 'cone'):
        vals += [g.src_radius, g.det_radius]
        if s.get('ssh'):
            vals.append(3.0)
    else:
        vals += [abs(x) for x in np.asarray(g.det_pos_init).ravel()]
    if s['cls'] == 'cone':
        vals.append(abs(g.pitch * float(ang) / PI2) + abs(g.offset_along_axis))
    if s.get('det', 'flat') != 'flat':
        vals.append(g.detector.radius)
    vals += [abs(s['dlo']), abs(s['dhi']), abs(s['vlo']), abs(s['vhi'])]
    return max(vals)


def impl_point(s, g, ang, dp):
    """all scalar evaluations at one point; returns dict name -> (status, array)"""
    cls = s['cls']
    r = {}
    r['rot'] = guarded(lambda: g.rotation_matrix(ang))
    r['ref'] = guarded(lambda: g.det_refpoint(ang))
    r['pos'] = guarded(lambda: g.det_point_position(ang, dp))
    if cls in ('fan', 'cone'):
        r['src'] = guarded(lambda: g.src_position(ang))
        r['d2s'] = guarded(lambda: g.det_to_src(ang, dp, normalized=False))
        r['d2sn'] = guarded(lambda: g.det_to_src(ang, dp, normalized=True))
    else:
        r['d2sn'] = guarded(lambda: g.det_to_src(ang, dp))
    if cls in ('par2', 'fan'):
        r['axes'] = guarded(lambda: g.det_axis(ang))
    else:
        r['axes'] = guarded(lambda: g.det_axes(ang))
    r['surf'] = guarded(lambda: g.detector.surface(dp))
    r['drv'] = guarded(lambda: g.detector.surface_deriv(dp))
    r['nrm'] = guarded(lambda: g.detector.surface_normal(dp))
    r['meas'] = guarded(lambda: g.detector.surface_measure(dp))
    return r


def close(a, b, tol):
    a = np.asarray(a, dtype=float).ravel()
    b = np.asarray(b, dtype=float).ravel()
    if a.shape != b.shape:
        return False
    if not (np.all(np.isfinite(a)) and np.all(np.isfinite(b))):
        return False
    return bool(np.all(np.abs(a - b) <= tol))


def oracle_point(s, g, ang, dp, r, tol):
    """The relations of the property, on the real code's own outputs. Returns list of
    (relation name, message)."""
    bad = []
    cls = s['cls']
    ndim = 2 if cls in ('par2', 'fan') else 3
    for k, (st, v) in r.items():
        if st != 'ok':
            bad.append(('call', '{} raised {}'.format(k, st)))
    if bad:
        return bad
    R = np.asarray(r['rot'][1], dtype=float)
    if R.shape != (ndim, ndim):
        return [('shape', 'rotation_matrix shape {}'.format(R.shape))]
    if not close(R.T.dot(R), np.eye(ndim), 1e-12):
        bad.append(('rot_orthonormal', 'R^T R - I = {}'.format(np.abs(R.T.dot(R) - np.eye(ndim)).max())))
    if abs(np.linalg.det(R) - 1) > 1e-12:
        bad.append(('rot_det_one', 'det R = {!r}'.format(np.linalg.det(R))))
    # convention: counter-clockwise by `angle` (2d), right-handed about `axis` (Rodrigues),
    # Rz(phi) Rx(theta) Rz(psi) (Euler ZXZ)
    if cls in ('par2', 'fan'):
        c, si = math.cos(ang), math.sin(ang)
        Rexp = np.array([[c, -si], [si, c]])
    elif cls == 'par3e':
        def rz(a):
            return np.array([[math.cos(a), -math.sin(a), 0], [math.sin(a), math.cos(a), 0], [0, 0, 1]])

        def rx(a):
            return np.array([[1, 0, 0], [0, math.cos(a), -math.sin(a)], [0, math.sin(a), math.cos(a)]])
        a3 = list(ang) + [0.0] * (3 - len(ang))
        Rexp = rz(a3[0]).dot(rx(a3[1])).dot(rz(a3[2]))
    else:
        axv = np.asarray(g.axis, dtype=float)
        w = np.cross(axv, [1.0, 0.3, -0.2])
        w = w / np.linalg.norm(w)
        w2 = np.cross(axv, w)
        Rexp = None
        if not close(R.dot(axv), axv, 1e-12) or \
                not close(R.dot(w), math.cos(ang) * w + math.sin(ang) * w2, 1e-12):
            bad.append(('rot_convention', 'rotation_matrix({}) is not the right-handed rotation by the '
                        'angle about axis {}'.format(ang, axv.tolist())))
    if Rexp is not None and not close(R, Rexp, 1e-12):
        bad.append(('rot_convention', 'rotation_matrix({}) = {} expected {}'.format(
            ang, R.tolist(), Rexp.tolist())))
    ref, pos, surf = r['ref'][1], r['pos'][1], r['surf'][1]
    for nm, v in (('ref', ref), ('pos', pos), ('surf', surf), ('d2sn', r['d2sn'][1])):
        if np.shape(v) != (ndim,):
            bad.append(('shape', '{} has shape {} for scalar parameters'.format(nm, np.shape(v))))
    if bad:
        return bad
    if not close(pos, ref + R.dot(surf), tol):
        bad.append(('det_point_decomp', 'det_point_position - (refpoint + R surface) = {}'.format(
            np.abs(pos - ref - R.dot(surf)).max())))
    n = np.asarray(r['d2sn'][1], dtype=float)
    if abs(np.linalg.norm(n) - 1) > 1e-12:
        bad.append(('unit_length', '|det_to_src| = {!r}'.format(np.linalg.norm(n))))
    axes = np.asarray(r['axes'][1], dtype=float).reshape(-1, ndim)
    if cls in ('fan', 'cone'):
        src, d = r['src'][1], r['d2s'][1]
        if not close(d, src - pos, tol):
            bad.append(('src_det_consistent', 'det_to_src - (src - det_point) = {}'.format(
                np.abs(d - (src - pos)).max())))
        nd = np.linalg.norm(d)
        if nd > 1e-6 and not close(n * nd, d, tol * 10):
            bad.append(('src_det_consistent', 'normalised det_to_src is not d/|d|'))
        if not s.get('ssh'):
            # circle radii about the (translated, pitch-shifted) centre
            centre = np.asarray(g.translation, dtype=float)
            if cls == 'cone':
                centre = centre + (g.offset_along_axis + g.pitch * float(ang) / PI2) * g.axis
            if abs(np.linalg.norm(src - centre) - g.src_radius) > tol:
                bad.append(('fan_cone_radii', '|src - centre| = {!r} != src_radius {!r}'.format(
                    np.linalg.norm(src - centre), g.src_radius)))
            if abs(np.linalg.norm(ref - centre) - g.det_radius) > tol:
                bad.append(('fan_cone_radii', '|refpoint - centre| = {!r} != det_radius {!r}'.format(
                    np.linalg.norm(ref - centre), g.det_radius)))
            # source, centre, refpoint collinear with the centre in between
            if not close((src - centre) * g.det_radius, -(ref - centre) * g.src_radius, tol * 10):
                bad.append(('fan_cone_radii', 'source and detector not opposite w.r.t. centre'))
    else:
        # parallel: direction orthogonal to the detector axes, the same for all det params
        for ax in axes:
            if abs(np.dot(n, ax)) > 1e-12:
                bad.append(('parallel_dir_orth_axes', '<det_to_src, det_axis> = {!r}'.format(
                    float(np.dot(n, ax)))))
        # default detector orientation (axes not given): the rays come from the far side of the
        # origin, det_to_src = -R * (det_pos_init - translation) / |.|
        if s['how'] == 'ctor' and 'axis_init' not in s and 'axes_init' not in s and \
                not (cls == 'par3a' and 'pos' in s):
            pv = np.asarray(g.det_pos_init, dtype=float) - np.asarray(g.translation, dtype=float)
            ptol = 1e-12 + (4 * s['delta'] if s.get('delta', 1.0) <= 2e-8 else 0.0)
            if not close(n, -R.dot(pv / np.linalg.norm(pv)), ptol):
                bad.append(('parallel_dir_sign', 'det_to_src = {} but -R*(det_pos_init - translation)/|.| = {}'.format(
                    n.tolist(), (-R.dot(pv / np.linalg.norm(pv))).tolist())))
        mid = g.det_params.mid_pt
        other = float(mid[0]) if ndim == 2 else tuple(float(x) for x in mid)
        st, n2 = guarded(lambda: g.det_to_src(ang, other))
        if st != 'ok' or not close(n, n2, 1e-12):
            bad.append(('parallel_dir_const', 'det_to_src differs between detector points'))
    # surface_measure = |surface_deriv| (1d) resp. |deriv_0 x deriv_1| (2d); surface_normal is the
    # unit vector orthogonal to the derivative(s)
    dv = np.asarray(r['drv'][1], dtype=float).reshape(-1, ndim)
    mexp = np.linalg.norm(dv[0]) if ndim == 2 else np.linalg.norm(np.cross(dv[0], dv[1]))
    if np.shape(r['meas'][1]) != () or abs(float(r['meas'][1]) - mexp) > 1e-12 * (1 + mexp):
        bad.append(('surface_measure', 'surface_measure({}) = {!r} but the derivative gives {!r}'.format(
            dp, r['meas'][1], mexp)))
    nv = np.asarray(r['nrm'][1], dtype=float)
    if np.shape(nv) != (ndim,) or abs(np.linalg.norm(nv) - 1) > 1e-12 or \
            any(abs(np.dot(nv, d)) > 1e-12 * (1 + np.linalg.norm(d)) for d in dv):
        bad.append(('surface_normal', 'surface_normal({}) = {} is not a unit vector orthogonal to the '
                    'surface derivative'.format(dp, np.asarray(nv).tolist())))
    # flat detectors: surface(u) = sum u_i * axes_i
    if s.get('det', 'flat') == 'flat':
        ia = np.asarray(g.detector.axis if ndim == 2 else g.detector.axes, dtype=float).reshape(-1, ndim)
        us = [dp] if ndim == 2 else list(dp)
        if not close(surf, sum(u * a for u, a in zip(us, ia)), 1e-12 * (1 + max(abs(u) for u in us))):
            bad.append(('flat_surface', 'surface({}) = {} != sum u_i axes_i'.format(dp, np.asarray(surf).tolist())))
    else:
        # curved detectors: surface_deriv is the derivative of surface (central differences),
        # which together with the alignment at parameter 0 pins the parametrisation down
        h = 1e-5
        det = g.detector
        lo = np.asarray(det.params.min_pt, dtype=float)
        hi = np.asarray(det.params.max_pt, dtype=float)
        p0 = np.clip(np.atleast_1d(np.asarray(dp, dtype=float)), lo + h, hi - h)
        conv = (lambda v: float(v[0])) if ndim == 2 else (lambda v: tuple(float(x) for x in v))
        std, dv = guarded(lambda: np.asarray(det.surface_deriv(conv(p0)), dtype=float).reshape(-1, ndim))
        if std != 'ok':
            bad.append(('call', 'surface_deriv raised ' + std))
        else:
            for i in range(len(p0)):
                e = np.zeros(len(p0))
                e[i] = h
                stq, fd = guarded(lambda: (np.asarray(det.surface(conv(p0 + e)), dtype=float)
                                           - np.asarray(det.surface(conv(p0 - e)), dtype=float)) / (2 * h))
                if stq != 'ok' or not close(fd, dv[i], 1e-7 * (1 + det.radius)):
                    bad.append(('surface_deriv', 'surface_deriv({})[{}] = {} but central difference of '
                                'surface gives {}'.format(conv(p0), i, dv[i].tolist(),
                                                          fd.tolist() if stq == 'ok' else stq)))
    # shift functions: "d" = along R*src_to_det_init (away from the centre), "t" = direction of
    # motion of the unshifted point under increasing angle (axis x radius vector), "r" = axis
    if cls in ('fan', 'cone') and s.get('ssh'):
        s0 = dict(s)
        s0.pop('ssh'), s0.pop('dsh')
        st0, g0 = guarded(lambda: build(s0))
        if st0 == 'ok':
            drot = R.dot(np.asarray(g.src_to_det_init, dtype=float))
            ssh = np.asarray(g.src_shift_func(np.array([ang], dtype=float)), dtype=float).reshape(-1)
            dsh = np.asarray(g.det_shift_func(np.array([ang], dtype=float)), dtype=float).reshape(-1)
            if ndim == 2:
                tdet = np.array([-drot[1], drot[0]])
                axv = np.zeros(2)
                ssh, dsh = np.append(ssh, 0.0), np.append(dsh, 0.0)
            else:
                axv = np.asarray(g.axis, dtype=float)
                tdet = np.cross(axv, drot)
                tdet = tdet / np.linalg.norm(tdet)
            exp_ref = g0.det_refpoint(ang) + dsh[0] * drot + dsh[1] * tdet + dsh[2] * axv
            exp_src = g0.src_position(ang) + ssh[0] * (-drot) + ssh[1] * (-tdet) + ssh[2] * axv
            if not close(ref, exp_ref, tol):
                bad.append(('shift_functions', 'det_refpoint {} expected unshifted + shift_d*d + shift_t*tangent '
                            '+ shift_r*axis = {}'.format(np.asarray(ref).tolist(), exp_ref.tolist())))
            if not close(r['src'][1], exp_src, tol):
                bad.append(('shift_functions', 'src_position {} expected {}'.format(
                    np.asarray(r['src'][1]).tolist(), exp_src.tolist())))
    # rotated detector axes: unit, and R * initial axes
    init_axes = np.asarray(g.detector.axis if ndim == 2 else g.detector.axes,
                           dtype=float).reshape(-1, ndim)
    for ax, ax0 in zip(axes, init_axes):
        if abs(np.linalg.norm(ax) - 1) > 1e-12:
            bad.append(('det_axes', '|det_axis| = {!r}'.format(np.linalg.norm(ax))))
        if not close(ax, R.dot(ax0), 1e-12):
            bad.append(('det_axes', 'det_axes(angle) != R * det_axes_init'))
    return bad


def compare_point(s, g, ang, dp, r, m, tol):
    """model vs code; returns list of field names that disagree"""
    dis = []
    if m is None:
        return ['model-answer']
    for k in ('rot', 'ref', 'pos', 'axes'):
        if r[k][0] != 'ok' or not close(r[k][1], m[k], tol):
            dis.append(k)
    if 'src' in r:
        if r['src'][0] != 'ok' or not close(r['src'][1], m['src'], tol):
            dis.append('src')
        if r['d2s'][0] != 'ok' or not close(r['d2s'][1], m['d2s'], tol):
            dis.append('d2s')
    # normalised vectors: the driver executes the model's own normalisation (v / sqrt(v.v))
    for k in ('d2sn', 'nrm'):
        if r[k][0] != 'ok' or not close(r[k][1], m[k], 4 * TOL):
            dis.append(k)
    if r['drv'][0] != 'ok' or not close(r['drv'][1], m['drv'], tol):
        dis.append('drv')
    return dis


def sample_params(rng, s, g, k):
    """k (angle, dparam) pairs inside the parameter ranges, including the end points"""
    cls = s['cls']
    out = []
    for i in range(k):
        if cls == 'par3e':
            ang = tuple(round(rng.uniform(s['amin'], s['amax']), 4) for _ in range(s['neul']))
            if i == 0:
                ang = tuple(float(x) for x in g.motion_params.max_pt)
        else:
            ang = round(rng.uniform(s['amin'], s['amax']), 4)
            if i == 0:
                ang = float(g.motion_params.max_pt[0])
            if i == 1:
                ang = float(g.motion_grid.coord_vectors[0][1])
        if cls in ('par2', 'fan'):
            dp = round(rng.uniform(s['dlo'], s['dhi']), 4)
            if i == 0:
                dp = float(s['dlo'])
        else:
            dp = (round(rng.uniform(s['dlo'], s['dhi']), 4), round(rng.uniform(s['vlo'], s['vhi']), 4))
            if i == 0:
                dp = (float(s['dhi']), float(s['vlo']))
        out.append((ang, dp))
    return out


def jsonable_spec(s):
    return {k: v for k, v in s.items()}


def construct_key(s, st):
    flags = '+'.join(sorted(k for k in s['variant'] if s['variant'][k]))
    if 'not perpendicular' in st and s.get('det', 'flat') in ('cyl', 'sph'):
        return ('construct {} curved-detector generic orientation: exact perpendicularity test '
                'fails by rounding how={}'.format(s['cls'], s['how']))
    return 'construct {} how={} det={} flags={}'.format(s['cls'], s['how'], s.get('det', 'flat'), flags)


def curved_alignment(det):
    """Oracle for curved detectors: the surface passes through 0 at param 0 with tangents
    radius*axis (angular parameters) resp. axis (height parameter) -- 'aligned with the
    given axes' like the flat detectors. Returns (ok, message, collinear_opposite)."""
    from odl.tomo.geometry import detector as D
    if isinstance(det, D.CircularDetector):
        s0 = det.surface(0.0)
        d0 = det.surface_deriv(0.0)
        ok = close(s0, [0, 0], 1e-12 * det.radius) and close(d0, det.radius * det.axis, 1e-12 * det.radius)
        return ok, 'surface(0)={} deriv(0)/R={} axis={}'.format(s0, d0 / det.radius, det.axis), False
    if isinstance(det, (D.CylindricalDetector, D.SphericalDetector)):
        s0 = det.surface((0.0, 0.0))
        d0 = det.surface_deriv((0.0, 0.0))
        exp0 = det.radius * det.axes[0]
        exp1 = det.axes[1] if isinstance(det, D.CylindricalDetector) else det.radius * det.axes[1]
        ok = (close(s0, [0, 0, 0], 1e-12 * det.radius) and close(d0[0], exp0, 1e-12 * det.radius)
              and close(d0[1], exp1, 1e-12 * det.radius))
        # which branch did the second rotation_matrix_from_to take?
        from odl.tomo.util.utility import rotation_matrix_from_to
        r1 = rotation_matrix_from_to(np.array([0., -1, 0]), det.axes[0])
        opp = bool(np.linalg.norm(r1.dot([0., 0, 1]) + det.axes[1]) < 1e-8)
        return ok, 'deriv(0,0)={} expected rows {} {}'.format(d0.tolist(), exp0, exp1), opp
    return True, '', False


class Dedup:
    """forward at most `n` violations per key (the relations are evaluated at thousands of
    points; one replay per failing class is enough and keeps every class visible)"""

    def __init__(self, ctx, n=2):
        self.ctx, self.n, self.seen = ctx, n, {}

    def __getattr__(self, name):
        return getattr(self.ctx, name)

    def violation(self, key, what, replay):
        k = self.seen.get(key, 0)
        self.seen[key] = k + 1
        if k < self.n:
            self.ctx.violation(key, what, replay)


def oracle_frame(s, g):
    """Constructor relations: stored vectors are normalised, and the vectors that were NOT given
    are the default frame carried along by a ROTATION taking the default principal vector to the
    given one (documented in the Notes of each class): orthogonality and handedness of the
    default frame are preserved, the principal vector is hit."""
    bad = []
    cls = s['cls']
    ndim = 2 if cls in ('par2', 'fan') else 3
    ia = np.asarray(g.detector.axis if ndim == 2 else g.detector.axes, dtype=float).reshape(-1, ndim)
    for a in ia:
        if abs(np.linalg.norm(a) - 1) > 1e-12:
            bad.append('detector axis not normalised: {}'.format(a.tolist()))
    if cls in ('par3a', 'cone') and abs(np.linalg.norm(g.axis) - 1) > 1e-12:
        bad.append('axis not normalised')
    if cls in ('fan', 'cone') and abs(np.linalg.norm(g.src_to_det_init) - 1) > 1e-12:
        bad.append('src_to_det_init not normalised')
    if s['how'] != 'ctor':
        return bad
    t = np.asarray(g.translation, dtype=float)
    tl = 1e-12
    if s.get('delta', 1.0) <= 2e-8:
        # transform_system treats a principal vector within np.allclose (atol 1e-8) of the default
        # as the default ("dilation only"): the derived frame is then off by that angle
        tl = 1e-12 + 4 * s['delta']
    if cls in ('par2', 'fan'):
        prin = (np.asarray(g.det_pos_init, dtype=float) - t) if cls == 'par2' else np.asarray(g.src_to_det_init, dtype=float)
        given = s.get('pos') if cls == 'par2' else s.get('s2d')
        if given is not None and not close(prin / np.linalg.norm(prin), np.asarray(given) / np.linalg.norm(given), tl):
            bad.append('principal vector {} is not the given one {}'.format(prin.tolist(), given))
        if given is None and not close(prin, [0, 1], tl):
            bad.append('default principal vector changed: {}'.format(prin.tolist()))
        if 'axis_init' not in s:
            # default frame: axis = principal rotated by -90 degrees
            pn = prin / np.linalg.norm(prin)
            if not close(ia[0], [pn[1], -pn[0]], tl):
                bad.append('derived det_axis_init {} is not the default (1,0) carried along with {}'.format(
                    ia[0].tolist(), pn.tolist()))
        else:
            gv = np.asarray(s['axis_init'], dtype=float)
            if not close(ia[0], gv / np.linalg.norm(gv), tl):
                bad.append('det_axis_init is not the given one')
    elif cls == 'par3e':
        prin = np.asarray(g.det_pos_init, dtype=float) - t
        given = s.get('pos')
        if given is not None and not close(prin, given, tl * 10):
            bad.append('det_pos_init - translation {} is not the given one {}'.format(prin.tolist(), given))
        if 'axes_init' not in s:
            pn = prin / np.linalg.norm(prin)
            # default frame (e_x, e_z) with pos e_y: a0 x a1 = -pos direction, all orthogonal
            if abs(np.dot(ia[0], ia[1])) > tl or abs(np.dot(ia[0], pn)) > tl or abs(np.dot(ia[1], pn)) > tl \
                    or not close(np.cross(ia[0], ia[1]), -pn, tl):
                bad.append('derived det_axes_init {} are not the default frame carried along with {}'.format(
                    ia.tolist(), pn.tolist()))
    else:
        ax = np.asarray(g.axis, dtype=float)
        given = s.get('axis')
        if given is not None and not close(ax, np.asarray(given) / np.linalg.norm(given), tl):
            bad.append('axis {} is not the given one normalised'.format(ax.tolist()))
        if given is None and not close(ax, [0, 0, 1], tl):
            bad.append('default axis changed')
        prin = (np.asarray(g.det_pos_init, dtype=float) - t) if cls == 'par3a' else np.asarray(g.src_to_det_init, dtype=float)
        gp = s.get('pos') if cls == 'par3a' else s.get('s2d')
        if gp is None:
            if abs(np.dot(prin, ax)) > tl or abs(np.linalg.norm(prin) - 1) > tl:
                bad.append('derived initial position/direction {} not a unit vector orthogonal to the axis'.format(prin.tolist()))
        else:
            k = 1.0 if cls == 'par3a' else np.linalg.norm(gp)
            if not close(prin, np.asarray(gp) / k, tl * 10):
                bad.append('initial position/direction {} is not the given one {}'.format(prin.tolist(), gp))
        if 'axes_init' not in s:
            if not close(ia[1], ax, tl):
                bad.append('derived det_axes_init[1] {} is not the axis'.format(ia[1].tolist()))
            if gp is None and not close(ia[0], np.cross(prin, ax), tl):
                bad.append('derived det_axes_init[0] {} is not (derived position) x axis'.format(ia[0].tolist()))
            if abs(np.dot(ia[0], ax)) > tl:
                bad.append('derived det_axes_init[0] not orthogonal to the axis')
        else:
            for a, gv in zip(ia, s['axes_init']):
                if not close(a, np.asarray(gv) / np.linalg.norm(gv), tl):
                    bad.append('det_axes_init are not the given ones normalised')
    return bad


def frame_case(s, g):
    """protocol line for the derived default frame and the real object's derived vectors
    (None when nothing was derived)"""
    cls = s['cls']
    if s['how'] != 'ctor':
        return None
    t = np.asarray(g.translation, dtype=float)
    if cls in ('par2', 'fan'):
        if 'axis_init' in s:
            return None
        prin = (np.asarray(g.det_pos_init, dtype=float) - t) if cls == 'par2' else \
            np.asarray(g.src_to_det_init, dtype=float)
        pn = prin / np.linalg.norm(prin)
        return 'frame kind=2d v=' + vec(pn), {'prin': pn, 'a0': np.asarray(g.detector.axis, dtype=float)}
    if cls == 'par3e':
        if 'axes_init' in s:
            return None
        prin = np.asarray(g.det_pos_init, dtype=float) - t
        pn = prin / np.linalg.norm(prin)
        ax = np.asarray(g.detector.axes, dtype=float)
        return 'frame kind=euler v=' + vec(pn), {'prin': pn, 'a0': ax[0], 'a1': ax[1]}
    exp = {'prin': np.asarray(g.axis, dtype=float)}
    if ('pos' if cls == 'par3a' else 's2d') not in s:
        exp['pos'] = (np.asarray(g.det_pos_init, dtype=float) - t) if cls == 'par3a' else \
            np.asarray(g.src_to_det_init, dtype=float)
    if 'axes_init' not in s:
        ax = np.asarray(g.detector.axes, dtype=float)
        exp['a0'], exp['a1'] = ax[0], ax[1]
    if len(exp) == 1:
        return None
    return 'frame kind=axis v=' + vec(g.axis), exp


def run_frames(ctx, built):
    """derived constructor vectors: model (rotFromTo of the default frame) vs the real object"""
    cases, lines = [], []
    for s, g in built:
        st, fc = guarded(lambda: frame_case(s, g))
        if st != 'ok':
            ctx.violation('constructor frame {} attributes'.format(s['cls']), st,
                          {'kind': 'construct', 'spec': jsonable_spec(s)})
            continue
        if fc is None:
            continue
        cases.append((s, fc[1]))
        lines.append(fc[0])
    outs = core.run_driver('C19', lines)
    opposite = []
    for (s, exp), ans in zip(cases, outs):
        desc = {'kind': 'construct', 'spec': jsonable_spec(s)}
        if ans == 'err:opposite':
            # exactly opposite or within 0.045 rad of it: the model's division by 1 + <u, v> is
            # ill-conditioned there; these inputs are checked by the frame oracle only
            ctx.hit('frame/opposite(oracle only)')
            if 'delta' in s:
                ctx.hit('frame/near-opposite')
            ctx.case((s['cls'], 'frame', 'opposite'))
            opposite.append((s, exp, desc))
            continue
        ctx.hit('frame/' + s['cls'])
        if 'delta' in s:
            ctx.hit('frame/near-default')
        ctx.case((s['cls'], 'frame') + tuple(sorted(exp)))
        m = parse_ans(ans)
        ftol = 4e-12 + (4 * s['delta'] if s.get('delta', 1.0) <= 2e-8 else 0.0)
        if m is None or any(not close(m[k], v, ftol) for k, v in exp.items()):
            ctx.disagree(desc, {k: np.asarray(v).tolist() for k, v in exp.items()}, ans, stream='frame')
    frames_opposite(ctx, opposite)


def frames_opposite(ctx, opposite):
    """round 4: constructor frames for principal vectors opposite / nearly opposite to the default
    (outside the generic-branch frame model) against the model of transform_system as coded
    (tsMatrix3: collinear branch of rotation_matrix_from_to resp. ill-conditioned generic branch)"""
    cpi, spi = float(np.cos(np.pi)), float(np.sin(np.pi))
    lines = []
    for s, exp, desc in opposite:
        if s['cls'] == 'par3e':
            d, given = [0.0, 1.0, 0.0], s['pos']
        else:
            d, given = [0.0, 0.0, 1.0], s['axis']
        lines.append('tsys dim=3 d={} p={} pi={}'.format(vec(d), vec(given), fl([cpi, spi])))
    for (s, exp, desc), ans in zip(opposite, core.run_driver('C19', lines)):
        ctx.hit('frame/opposite/tsys-model/' + s['cls'])
        m = parse_ans('ok ' + ans.split()[2]) if ans.startswith('ok') else None
        if m is None:
            ctx.disagree(desc, {k: np.asarray(v).tolist() for k, v in exp.items()}, ans, stream='frame-opposite')
            continue
        M = np.asarray(m['m'], dtype=float).reshape(3, 3)
        dflt = {'pos': [0.0, 1.0, 0.0], 'a0': [1.0, 0.0, 0.0], 'a1': [0.0, 0.0, 1.0]}
        given = np.asarray(s['pos'] if s['cls'] == 'par3e' else s['axis'], dtype=float)
        th = float(np.linalg.norm(np.cross(_unit(given), [0.0, 1.0, 0.0] if s['cls'] == 'par3e' else [0.0, 0.0, 1.0])))
        tol = 4e-12 + (8e-16 / th if th >= 1e-10 else 0.0)
        bad = [k for k, v in exp.items() if k in dflt and not close(M.dot(dflt[k]), v, tol)]
        if bad:
            ctx.disagree(desc, {k: np.asarray(exp[k]).tolist() for k in bad}, ans, stream='frame-opposite:' + ','.join(bad))


def run_points(ctx, specs, npts):
    """pointwise correspondence + oracle"""
    cases, lines = [], []
    built = []
    rejects = []
    for s in specs:
        st, g = guarded(lambda: build(s))
        sig = variant_sig(s['cls'], s['how'], s['variant'])
        if s.get('expect_reject'):
            # degenerate input the constructor must refuse (model: Cone.ctorRejects)
            ctx.case(sig + ('reject',))
            ctx.hit('construct/cone/rejects-parallel-src_to_det')
            if not st.startswith('err:ValueError'):
                ctx.violation('construct cone src_to_det_init parallel to axis is accepted',
                              'ConeBeamGeometry(src_to_det_init={}, axis={}) -> {}; det_refpoint(0.3) = {}'.format(
                                  s['s2d'], s.get('axis', [0, 0, 1]), st,
                                  guarded(lambda: g.det_refpoint(0.3))[1] if st == 'ok' else None),
                              {'kind': 'construct', 'spec': jsonable_spec(s)})
            d = np.asarray(s['s2d'], dtype=float)
            a = np.asarray(s.get('axis', [0.0, 0.0, 1.0]), dtype=float)
            rejects.append((s, st, 'conector d={} ax={}'.format(vec(d / np.linalg.norm(d)), vec(a / np.linalg.norm(a)))))
            continue
        if st != 'ok':
            ctx.case(None)
            ctx.violation(construct_key(s, st), 'constructor raised ' + st,
                          {'kind': 'construct', 'spec': jsonable_spec(s)})
            continue
        ch = caller_arrays_changed()
        if ch:
            ctx.violation('construct {} modifies the caller\'s arrays how={}'.format(s['cls'], s['how']),
                          'arrays handed to the constructor changed: before/after {}'.format(ch),
                          {'kind': 'construct', 'spec': jsonable_spec(s)})
        stf, gf = guarded(lambda: geom_fields(s, g))
        if stf != 'ok':
            ctx.violation('attributes {}'.format(s['cls']), stf, {'kind': 'construct', 'spec': jsonable_spec(s)})
            continue
        stfr, fr = guarded(lambda: oracle_frame(s, g))
        for msg in ([stfr] if stfr != 'ok' else fr):
            ctx.violation('constructor frame {} how={} flags={}'.format(
                s['cls'], s['how'], '+'.join(sorted(k for k in s['variant'] if s['variant'][k]))),
                msg, {'kind': 'construct', 'spec': jsonable_spec(s)})
        built.append((s, g))
        aligned = True
        if s.get('det', 'flat') != 'flat':
            sta, al = guarded(lambda: curved_alignment(g.detector))
            if sta != 'ok':
                ctx.violation('curved-detector {} raises'.format(s['det']), sta,
                              {'kind': 'construct', 'spec': jsonable_spec(s)})
                continue
            aligned = al[0]
            if not aligned:
                ctx.violation('curved-detector alignment {} {}'.format(
                    s['det'], 'second rotation collinear-opposite' if al[2] else 'generic'),
                    'axes={} : {}'.format(np.asarray(getattr(g.detector, 'axes', getattr(
                        g.detector, 'axis', None))).tolist(), al[1]),
                    {'kind': 'construct', 'spec': jsonable_spec(s)})
        for ang, dp in sample_params(ctx.rng, s, g, npts):
            r = impl_point(s, g, ang, dp)
            stl, line = guarded(lambda: point_line(s, g, gf, ang, dp))
            if stl != 'ok':
                ctx.violation('shift functions {}'.format(s['cls']), stl,
                              {'kind': 'point', 'spec': jsonable_spec(s), 'ang': ang, 'dp': dp})
                continue
            cases.append((s, g, ang, dp, r, sig, aligned))
            lines.append(line)
    run_frames(ctx, built)
    for (s, st, _), ans in zip(rejects, core.run_driver('C19', [x[2] for x in rejects])):
        if (ans == 'err:value') != st.startswith('err:ValueError'):
            ctx.disagree({'kind': 'construct', 'spec': jsonable_spec(s)}, st, ans, stream='cone-ctor')
    outs = core.run_driver('C19', lines)
    for (s, g, ang, dp, r, sig, aligned), ans in zip(cases, outs):
        tol = TOL * (1 + scale_of(s, g, ang if not isinstance(ang, tuple) else 0.0)) * 4
        desc = {'kind': 'point', 'spec': jsonable_spec(s), 'ang': ang, 'dp': dp}
        ctx.case(sig + ('point',), sample={'case': desc, 'model': ans[:160]}
                 if len(ctx.samples) < 4 else None)
        ctx.hit('point/{}/{}/{}'.format(s['cls'], s['how'], s.get('det', 'flat')))
        ctx.hit({'par2': 'model/rot/euler2', 'fan': 'model/rot/euler2', 'par3a': 'model/rot/axis',
                 'cone': 'model/rot/axis'}.get(s['cls'], 'model/rot/euler3({} angles)'.format(s.get('neul'))))
        if s.get('ssh'):
            ctx.hit('model/shifts/' + s['cls'])
        if s.get('pitch'):
            ctx.hit('model/pitch')
        for rel, msg in oracle_point(s, g, ang, dp, r, tol):
            ctx.violation('{} {} how={} det={} flags={}'.format(
                rel, s['cls'], s['how'], s.get('det', 'flat'), '+'.join(sorted(s['variant']))),
                '{} at angle={} dparam={}'.format(msg, ang, dp), desc)
        dis = compare_point(s, g, ang, dp, r, parse_ans(ans), tol)
        if not aligned:
            # the detector surface is the (reported) misaligned one: the model's closed form
            # of the detector rotation does not apply to the surface-dependent outputs
            dis = [k for k in dis if k not in ('pos', 'd2s', 'd2sn', 'drv', 'nrm')]
        if dis:
            ctx.disagree(desc, {k: (r[k][0], np.asarray(r[k][1]).tolist() if r[k][1] is not None
                                    else None) for k in dis if k in r}, ans[:1500],
                         stream='point:' + ','.join(dis))


def make_specs(ctx, reps, classes=('par2', 'par3a', 'par3e', 'fan', 'cone')):
    specs = []
    for cls in classes:
        for how, v in all_variants(cls, ctx.quick):
            for _ in range(reps):
                s = gen_spec(ctx.rng, cls, how, v)
                s['variant'] = {k: x for k, x in v.items()}
                specs.append(s)
    return specs


# ---------------------------------------------------------------------------
# vectorised / broadcast evaluation

def shp(sh):
    return ','.join(str(int(x)) for x in sh) if len(sh) else '-'


MSHAPES = [(), (3,), (1,), (3, 1), (2, 3)]
DSHAPES = [(), (3,), (1,), (1, 4), (2, 3), (3, 1)]


def rand_array(rng, lo, hi, shape):
    n = int(np.prod(shape)) if len(shape) else 1
    vals = np.clip(np.array([round(rng.uniform(lo, hi), 3) for _ in range(n)], dtype=float), lo, hi)
    return float(vals[0]) if shape == () else vals.reshape(shape)


def vector_case(rng, s, g, mshapes, dshapes):
    cls = s['cls']
    if cls == 'par3e':
        m = tuple(rand_array(rng, s['amin'], s['amax'], sh) for sh in mshapes)
    else:
        m = rand_array(rng, s['amin'], s['amax'], mshapes[0])
    if cls in ('par2', 'fan'):
        d = rand_array(rng, s['dlo'], s['dhi'], dshapes[0])
    else:
        d = (rand_array(rng, s['dlo'], s['dhi'], dshapes[0]),
             rand_array(rng, s['vlo'], s['vhi'], dshapes[1]))
    return m, d


def run_vector_case(s, g, m, d, mshapes, dshapes, method):
    """returns (status, shape, problems(list of (key-part, msg)))"""
    cls = s['cls']
    ndim = 2 if cls in ('par2', 'fan') else 3
    f = {'pos': lambda a, u: g.det_point_position(a, u),
         'd2s': lambda a, u: g.det_to_src(a, u),
         'd2sraw': lambda a, u: g.det_to_src(a, u, normalized=False)}[method]
    st, val = guarded(lambda: f(m, d))
    marrs = list(m) if isinstance(m, tuple) else [m]
    darrs = list(d) if isinstance(d, tuple) else [d]
    try:
        bc = np.broadcast(*(marrs + darrs))
        doc = tuple(bc.shape) + (ndim,)
    except ValueError:
        doc = None
    problems = []
    shape = None
    if st == 'ok':
        val = np.asarray(val)
        shape = tuple(val.shape)
        if doc is None:
            problems.append(('accepts', 'non-broadcastable parameters accepted'))
        elif shape != doc:
            problems.append(('shape', 'shape {} documented {}'.format(shape, doc)))
        else:
            barrs = np.broadcast_arrays(*(marrs + darrs))
            flat = [np.asarray(b, dtype=float).ravel() for b in barrs]
            out = val.reshape(-1, ndim)
            nm = len(marrs)
            tol = TOL * (1 + scale_of(s, g, s['amax'])) * 4
            for i in range(out.shape[0]):
                a = tuple(float(x[i]) for x in flat[:nm]) if nm > 1 else float(flat[0][i])
                u = tuple(float(x[i]) for x in flat[nm:]) if len(darrs) > 1 else float(flat[nm][i])
                st1, v1 = guarded(lambda: f(a, u))
                if st1 != 'ok' or not close(out[i], v1, tol):
                    problems.append(('entry', 'entry {} = {} but single-parameter evaluation at '
                                     'angle={} dparam={} gives {}'.format(i, out[i].tolist(), a, u,
                                                                          v1 if st1 != 'ok' or v1 is None else np.asarray(v1).tolist())))
                    break
    else:
        if doc is not None:
            problems.append(('raises', st))
    return st, shape, problems


def motion_only(ctx, s, g, nm, ndim):
    """rotation_matrix, det_refpoint, src_position, det_axis/det_axes with array angles: shape
    angle.shape + (trailing axes) and, entry by entry, the single-angle values"""
    cls = s['cls']
    meths = [('rotation_matrix', g.rotation_matrix, (ndim, ndim)), ('det_refpoint', g.det_refpoint, (ndim,))]
    if cls in ('fan', 'cone'):
        meths.append(('src_position', g.src_position, (ndim,)))
    if cls in ('par2', 'fan'):
        meths.append(('det_axis', g.det_axis, (ndim,)))
    else:
        meths.append(('det_axes', g.det_axes, (2, ndim)))
    shapes = [[(3,)] * nm, [(1,)] * nm, [(2, 3)] * nm] if not s.get('ssh') else [[(3,)] * nm, [(1,)] * nm]
    # sparse meshgrid (outer product) arguments for 2 and 3 motion parameters, also mixed with scalars
    if nm == 2:
        shapes += [[(3, 1), (1, 2)], [(3,), ()], [(2, 1, 1), (1, 3)]]
    if nm == 3:
        shapes += [[(4, 1, 1), (1, 3, 1), (1, 1, 2)], [(3, 1), (1, 2), ()], [(), (2,), ()],
                   [(2, 1), (2, 1), (1, 3)]]
    tol = TOL * (1 + scale_of(s, g, s['amax'])) * 4
    for shs in shapes:
        m = tuple(rand_array(ctx.rng, s['amin'], s['amax'], sh1) for sh1 in shs)
        sh = tuple(np.broadcast(*[np.empty(x) for x in shs]).shape)
        if len(set(shs)) > 1:
            ctx.hit('vector-m/outer-product/{}-angles'.format(nm))
        arg = m if nm > 1 else m[0]
        for name, f, trail in meths:
            desc = {'kind': 'vector-m', 'spec': jsonable_spec(s), 'method': name,
                    'm': [np.asarray(x).tolist() for x in m]}
            ctx.case((cls, 'vector-m', name, tuple(shs)))
            ctx.hit('vector-m/' + name)
            st, val = guarded(lambda: np.asarray(f(arg), dtype=float))
            key = 'vectorised {} {} det={}'.format(name, cls, s.get('det', 'flat'))
            if st != 'ok':
                ctx.violation(key + ' raises', '{}(angles of shapes {}) -> {}'.format(name, shs, st), desc)
                continue
            if val.shape != sh + trail:
                ctx.violation(key + ' shape', '{}(angles of shapes {}) has shape {} expected {}'.format(
                    name, shs, val.shape, sh + trail), desc)
                continue
            flat = [np.asarray(x, dtype=float).ravel() for x in np.broadcast_arrays(*m)]
            out = val.reshape((-1,) + trail)
            for i in range(out.shape[0]):
                a = tuple(float(x[i]) for x in flat) if nm > 1 else float(flat[0][i])
                st1, v1 = guarded(lambda: np.asarray(f(a), dtype=float))
                if st1 != 'ok' or v1.shape != trail or not close(out[i], v1, tol):
                    ctx.violation(key + ' entry', '{}(array)[{}] = {} but {}({}) = {}'.format(
                        name, i, out[i].tolist(), name, a, v1.tolist() if st1 == 'ok' else st1), desc)
                    break


def run_vector(ctx, specs):
    rng = ctx.rng
    cases, lines = [], []
    for s in specs:
        st, g = guarded(lambda: build(s))
        if st != 'ok':
            continue
        cls = s['cls']
        ndim = 2 if cls in ('par2', 'fan') else 3
        nm = s['neul'] if cls == 'par3e' else 1
        nd = 1 if ndim == 2 else 2
        motion_only(ctx, s, g, nm, ndim)
        combos = []
        for ms in MSHAPES:
            for ds in DSHAPES:
                combos.append(([ms] * nm, [ds] * nd))
        if nd == 2:
            combos += [([(3,)] * nm, [(3,), ()]), ([(3,)] * nm, [(), (3,)]),
                       ([(3, 1)] * nm, [(3, 1), (1, 2)]), ([()] * nm, [(3,), (1,)]),
                       ([(2, 1)] * nm, [(1, 3), (2, 3)])]
        if nm == 3:
            combos += [([(4, 1, 1), (1, 3, 1), (1, 1, 2)], [(1, 1, 1)] * nd),
                       ([(2, 1, 1, 1), (1, 3, 1, 1), (1, 1, 2, 1)], [(1, 1, 1, 2)] * nd),
                       ([(2, 1, 1), (1, 3, 1), (1, 1, 2)], [()] * nd)]
        if nm == 2:
            combos += [([(2, 1, 1, 1), (1, 3, 1, 1)], [(1, 1, 2, 1), (1, 1, 1, 2)]),
                       ([(3, 1), (1, 2)], [()] * nd), ([(3, 1), (1, 2)], [(1, 1)] * nd)]
        outer = [c for c in combos if len(set(c[0])) > 1]
        if nm > 1:
            combos += [([(3, 1), (1, 2)] + [()] * (nm - 2), [(3, 2)] * nd),
                       ([(3,), ()] + [(3,)] * (nm - 2), [(3,)] * nd)]
        if s.get('ssh'):
            combos = [c for c in combos if all(len(x) <= 1 for x in c[0])]
        if ctx.quick:
            rng.shuffle(combos)
            combos = combos[:12] + [c for c in outer if c not in combos[:12]]
        for mshapes, dshapes in combos:
            m, d = vector_case(rng, s, g, mshapes, dshapes)
            for method in (['pos', 'd2s'] + (['d2sraw'] if cls in ('fan', 'cone') else [])):
                stv, shape, problems = run_vector_case(s, g, m, d, mshapes, dshapes, method)
                lines.append('shape m={} d={} ndim={}'.format(
                    ';'.join(shp(x) for x in mshapes), ';'.join(shp(x) for x in dshapes), ndim))
                cases.append((s, mshapes, dshapes, method, stv, shape, problems, m, d))
    outs = core.run_driver('C19', lines)
    for (s, mshapes, dshapes, method, stv, shape, problems, m, d), ans in zip(cases, outs):
        desc = {'kind': 'vector', 'spec': jsonable_spec(s), 'method': method,
                'mshapes': [list(x) for x in mshapes], 'dshapes': [list(x) for x in dshapes],
                'm': np.asarray(m, dtype=object).tolist() if not isinstance(m, tuple) else [np.asarray(x).tolist() for x in m],
                'd': np.asarray(d, dtype=object).tolist() if not isinstance(d, tuple) else [np.asarray(x).tolist() for x in d]}
        klass = 'scalar' if all(len(x) == 0 for x in mshapes + dshapes) else 'array'
        ctx.case((s['cls'], s.get('det', 'flat'), 'vector', method, tuple(mshapes), tuple(dshapes)))
        ctx.hit('vector/{}/{}'.format(s['cls'], 'ok' if stv == 'ok' else 'raises'))
        for part, msg in problems:
            ctx.violation('vectorised {} {} det={}'.format(part, s['cls'], s.get('det', 'flat')),
                          '{}: {} for mparam shapes {} dparam shapes {}'.format(
                              {'pos': 'det_point_position', 'd2s': 'det_to_src',
                               'd2sraw': 'det_to_src(normalized=False)'}[method], msg, mshapes, dshapes), desc)
        # model of the shape logic
        ctx.hit('shape/ok' if ans.startswith('ok') else 'shape/err')
        if klass == 'scalar':
            ctx.hit('shape/scalar-squeeze')
        if ans.startswith('ok shape='):
            msh = tuple(int(x) for x in ans.split()[1][len('shape='):].split(',') if x != '-')
            if stv != 'ok' or shape != msh:
                ctx.disagree(desc, (stv, shape), ans, stream='shape')
        elif ans.startswith('err'):
            if stv == 'ok':
                ctx.disagree(desc, (stv, shape), ans, stream='shape')
        else:
            ctx.disagree(desc, (stv, shape), ans, stream='shape')


# ---------------------------------------------------------------------------
# __getitem__

def snapshot(s, g, angles, dp):
    cls = s['cls']
    out = []
    for a in angles:
        a = float(a)
        row = [np.asarray(g.det_refpoint(a), dtype=float), np.asarray(g.det_point_position(a, dp), dtype=float),
               np.asarray(g.det_to_src(a, dp), dtype=float), np.asarray(g.rotation_matrix(a), dtype=float).ravel()]
        if cls in ('fan', 'cone'):
            row.append(np.asarray(g.src_position(a), dtype=float))
        if cls in ('par2', 'fan'):
            row.append(np.asarray(g.det_axis(a), dtype=float))
        else:
            row.append(np.asarray(g.det_axes(a), dtype=float).ravel())
        out.append(np.concatenate(row))
    return np.array(out)


SLICES = [('1:4', slice(1, 4)), ('::2', slice(None, None, 2)), ('2:', slice(2, None)),
          ('1:5:2', slice(1, 5, 2))]


def pos_kind(s):
    if s['how'] == 'frommatrix':
        return 'frommatrix'
    if 'pos' not in s and 's2d' not in s:
        return 'default'
    return 'ndarray' if s.get('ndarray_args') else 'tuple'


def run_getitem_case(s, slname, sl):
    """returns list of (key-part, message); also the model line and impl positions"""
    problems = []
    st, g = guarded(lambda: build(s))
    if st != 'ok':
        return [], None, None  # reported by the point stream
    cls = s['cls']
    ndim = 2 if cls in ('par2', 'fan') else 3
    dp = round((s['dlo'] + s['dhi']) / 3, 3) if ndim == 2 else \
        (round((s['dlo'] + s['dhi']) / 3, 3), round((s['vlo'] + s['vhi']) / 3, 3))
    tol = TOL * (1 + scale_of(s, g, s['amax'])) * 4
    st, before = guarded(lambda: snapshot(s, g, g.angles, dp))
    if st != 'ok':
        return [('evaluate', st)], None, None
    angles = np.array(g.angles, dtype=float)
    poslog = {}
    if cls in ('par2', 'par3a'):
        poslog['before'] = np.append(np.array(g.det_pos_init, dtype=float), float(g.check_bounds))
    slices = []
    for k in (1, 2):
        st, sg = guarded(lambda: g[sl])
        if st != 'ok':
            problems.append(('slice#{} raises'.format(k), st))
            break
        slices.append(sg)
        if cls in ('par2', 'par3a'):
            poslog['after{}'.format(k)] = np.append(np.array(g.det_pos_init, dtype=float), float(g.check_bounds))
            poslog['slice{}'.format(k)] = np.append(np.array(sg.det_pos_init, dtype=float), float(sg.check_bounds))
        st, after = guarded(lambda: snapshot(s, g, angles, dp))
        if st != 'ok' or not close(after, before, tol):
            problems.append(('slice#{} mutates receiver'.format(k),
                             'geom[{}] changed the geometry it was taken from: det_refpoint(angles[0]) '
                             'before {} after {}'.format(slname, before[0][:ndim].tolist(),
                                                         after[0][:ndim].tolist() if st == 'ok' else st)))
        exp_angles = angles[sl]
        st, sa = guarded(lambda: np.array(sg.angles, dtype=float))
        if st != 'ok' or sa.shape != exp_angles.shape or not close(sa, exp_angles, 1e-12 * (1 + abs(s['amax']))):
            problems.append(('slice#{} angles'.format(k), 'geom[{}].angles = {} expected {}'.format(
                slname, sa if st != 'ok' else sa.tolist(), exp_angles.tolist())))
            continue
        st, sv = guarded(lambda: snapshot(s, sg, exp_angles, dp))
        if st != 'ok' or not close(sv, before[sl], tol):
            j = 0
            msg = st
            if st == 'ok':
                j = int(np.argmax(np.abs(sv - before[sl]).max(axis=1)))
                msg = 'geom[{}] at its angle #{} ({}): (refpoint, det point, …) = {} but the ' \
                      'original gives {}'.format(slname, j, exp_angles[j], sv[j][:2 * ndim].tolist(),
                                                 before[sl][j][:2 * ndim].tolist())
            problems.append(('slice#{} evaluation'.format(k), msg))
        if not g.check_bounds:
            # a geometry without bounds checks evaluates outside its angle range; so must its slice
            aout = float(g.motion_params.max_pt[0]) + 0.7
            st1, v1 = guarded(lambda: g.det_refpoint(aout))
            st2, v2 = guarded(lambda: sg.det_refpoint(aout))
            if st1 == 'ok' and (st2 != 'ok' or not close(v1, v2, tol)):
                problems.append(('slice#{} check_bounds'.format(k), 'geom.det_refpoint({}) = {} but '
                                 'geom[{}].det_refpoint gives {}'.format(aout, np.asarray(v1).tolist(), slname,
                                                                         st2 if st2 != 'ok' else np.asarray(v2).tolist())))
        ch = caller_arrays_changed()
        if ch:
            problems.append(('slice#{} modifies the caller\'s arrays'.format(k), str(ch)))
        for nm, attr in (('det_partition', lambda x: x.det_partition),
                         ('check_bounds', lambda x: (x.check_bounds, x.detector.check_bounds)),
                         ('class', lambda x: type(x).__name__)):
            if attr(sg) != attr(g):
                problems.append(('slice#{} {}'.format(k, nm), '{} differs'.format(nm)))
    if len(slices) == 2:
        # the first slice must not have been changed by taking the second
        exp_angles = angles[sl]
        st, sv = guarded(lambda: snapshot(s, slices[0], exp_angles, dp))
        st2, sv2 = guarded(lambda: snapshot(s, slices[1], exp_angles, dp))
        if st == 'ok' and st2 == 'ok' and close(sv2, before[sl], tol) and not close(sv, before[sl], tol):
            problems.append(('slice#2 mutates earlier slice', 'first slice changed'))
    # model line for the position bookkeeping
    line = None
    tvec = np.asarray(s.get('t', [0.0] * ndim), dtype=float)
    cbf = 0 if s.get('cb0') else 1
    if cls == 'par2':
        if s['how'] == 'frommatrix':
            line = 'getitem2 how=frommatrix m={} t={} cb={}'.format(vec(np.array(s['Q'])), vec(tvec), cbf)
        else:
            line = 'getitem2 how=ctor p={} t={} cb={}'.format(vec(s.get('pos', [0.0, 1.0])), vec(tvec), cbf)
    if cls == 'par3a':
        dflt = np.asarray(g.det_pos_init, dtype=float) - tvec if 'pos' not in s else np.array([0., 1, 0])
        if s['how'] == 'frommatrix':
            line = 'getitem3 how=frommatrix m={} dflt=0,1,0 t={} n=2 cb={}'.format(vec(np.array(s['Q'])), vec(tvec), cbf)
        elif 'pos' in s:
            line = 'getitem3 how=ctor p={} dflt=0,1,0 t={} n=2 cb={}'.format(vec(s['pos']), vec(tvec), cbf)
        else:
            line = 'getitem3 how=ctor p=none dflt={} t={} n=2 cb={}'.format(vec(poslog['before'][:3] - tvec), vec(tvec), cbf)
    return problems, line, poslog


def run_getitem(ctx, specs):
    cases, lines = [], []
    for s in specs:
        if s.get('expect_reject'):
            continue
        if s['cls'] == 'par3e':
            st, g = guarded(lambda: build(s))
            if st != 'ok':
                continue
            st2, _ = guarded(lambda: g[1:3])
            ctx.case(('par3e', 'getitem'))
            ctx.hit('getitem/par3e')
            if st2 != 'ok':
                ctx.violation('getitem par3e {}'.format('not subscriptable' if 'subscriptable' in st2 else 'raises'),
                              'Parallel3dEulerGeometry[1:3] -> ' + st2,
                              {'kind': 'getitem3e', 'spec': jsonable_spec(s)})
            continue
        sls = SLICES if not ctx.quick else [ctx.rng.choice(SLICES)]
        for slname, sl in sls:
            problems, line, poslog = run_getitem_case(s, slname, sl)
            tr = 'nz' if 't' in s else '0'
            desc = {'kind': 'getitem', 'spec': jsonable_spec(s), 'slice': slname}
            ctx.case((s['cls'], s['how'], s.get('det', 'flat'), 'getitem', tr, pos_kind(s)))
            ctx.hit('getitem/{}'.format(s['cls']))
            for part, msg in problems:
                ctx.violation('getitem {} det={} translation={} pos={} how={} : {}'.format(
                    s['cls'], s.get('det', 'flat'), tr, pos_kind(s), s['how'], part), msg, desc)
            if s.get('cb0'):
                ctx.hit('getitem/check_bounds=False')
            if line is not None and poslog:
                ctx.hit('getitem/model/{}/{}'.format(s['cls'], 'frommatrix' if s['how'] == 'frommatrix' else (
                    'ctor' if s['cls'] == 'par2' else ('ctor-given' if 'pos' in s else 'ctor-derived'))))
                cases.append((s, desc, poslog))
                lines.append(line)
    outs = core.run_driver('C19', lines)
    for (s, desc, poslog), ans in zip(cases, outs):
        ok = ans.startswith('ok')
        if ok:
            f = dict(t.split('=', 1) for t in ans.split()[1:])
            tol = 1e-12 * (1 + float(np.abs(poslog['before']).max()) * 4)
            def st8(tok):   # "x,y(,z)/true|false" -> position entries + check_bounds flag
                a, b = tok.rsplit('/', 1)
                return [float(x) for x in core.pfl(a)] + [1.0 if b == 'true' else 0.0]
            if s['cls'] == 'par2':
                got = [poslog.get('before'), poslog.get('after1'), poslog.get('slice1')]
                exp = [st8(f['before']), st8(f['after']), st8(f['slice'])]
            else:
                steps = f['steps'].split('|')
                exp = [st8(f['before'])]
                got = [poslog.get('before')]
                for k, stp in enumerate(steps, 1):
                    a, b = stp.split('&')
                    exp += [st8(a), st8(b)]
                    got += [poslog.get('after{}'.format(k)), poslog.get('slice{}'.format(k))]
            for gv, ev in zip(got, exp):
                if gv is None or not close(gv, ev, tol):
                    ok = False
        if not ok:
            ctx.disagree(desc, {k: v.tolist() for k, v in poslog.items()}, ans, stream='getitem-pos')


# ---------------------------------------------------------------------------
# frommatrix: the geometry is the default one moved by x -> Qx + b

def run_frommatrix(ctx, specs):
    for s in specs:
        if s['how'] != 'frommatrix':
            continue
        st, g = guarded(lambda: build(s))
        if st != 'ok':
            continue  # reported by the point stream
        cls = s['cls']
        ndim = 2 if cls in ('par2', 'fan') else 3
        s0 = dict(s)
        s0['how'] = 'ctor'
        s0.pop('Q', None)
        s0.pop('t', None)
        st, g0 = guarded(lambda: build(s0))
        desc = {'kind': 'frommatrix', 'spec': jsonable_spec(s)}
        ctx.case((cls, s.get('det', 'flat'), 'frommatrix', bool(s['variant'].get('scaled')), 't' in s))
        ctx.hit('frommatrix/' + cls)
        key = 'frommatrix {} det={} scaled={}'.format(cls, s.get('det', 'flat'), int(bool(s['variant'].get('scaled'))))
        if st != 'ok':
            ctx.violation(key, 'default geometry raised ' + st, desc)
            continue
        Q = np.array(s['Q'], dtype=float)
        b = np.array(s.get('t', [0.0] * ndim), dtype=float)
        k = abs(np.linalg.det(Q)) ** (1.0 / ndim)
        tol = TOL * (1 + scale_of(s, g, s['amax']) * max(1, k)) * 8

        def bad(msg):
            ctx.violation(key, msg, desc)
        try:
            if not close(g.translation, b, 0):
                bad('translation {} != last column {}'.format(g.translation, b))
            # initial vectors
            if cls in ('par2', 'par3a', 'par3e'):
                if not close(g.det_pos_init, Q.dot(g0.det_pos_init) + b, tol):
                    bad('det_pos_init {} != Q*default + b = {}'.format(g.det_pos_init, Q.dot(g0.det_pos_init) + b))
            else:
                if not close(g.src_to_det_init, Q.dot(g0.src_to_det_init) / k, tol):
                    bad('src_to_det_init {} is not Q*default normalised'.format(g.src_to_det_init))
            ax = np.asarray(g.detector.axis if ndim == 2 else g.detector.axes, dtype=float).reshape(-1, ndim)
            ax0 = np.asarray(g0.detector.axis if ndim == 2 else g0.detector.axes, dtype=float).reshape(-1, ndim)
            for a, a0 in zip(ax, ax0):
                if not close(a, Q.dot(a0) / k, 1e-12):
                    bad('detector axis {} is not Q*default axis normalised {}'.format(a, Q.dot(a0) / k))
            if cls in ('par3a', 'cone'):
                if not close(g.axis, Q.dot(g0.axis) / k, 1e-12):
                    bad('axis {} is not Q*default axis normalised'.format(g.axis))
            # rigid relation for every angle / detector point (unscaled, commuting cases)
            rigid = not s['variant'].get('scaled') and cls != 'par3e'
            surf_ok = True
            if s.get('det', 'flat') != 'flat':
                # a misaligned curved detector (reported by the point stream) is not the rigid
                # image of the default one
                surf_ok = curved_alignment(g.detector)[0] and curved_alignment(g0.detector)[0]
            if rigid:
                for ang, dp in sample_params(ctx.rng, s, g, 3):
                    pairs = [('det_refpoint', g.det_refpoint(ang), Q.dot(g0.det_refpoint(ang)) + b)]
                    if surf_ok:
                        pairs += [('det_point_position', g.det_point_position(ang, dp),
                                   Q.dot(g0.det_point_position(ang, dp)) + b),
                                  ('det_to_src', g.det_to_src(ang, dp), Q.dot(g0.det_to_src(ang, dp)))]
                    if cls in ('fan', 'cone'):
                        pairs.append(('src_position', g.src_position(ang), Q.dot(g0.src_position(ang)) + b))
                    for nm, x, y in pairs:
                        if not close(x, y, tol):
                            bad('{}(angle={}, dparam={}) = {} but Q*default + b = {}'.format(
                                nm, ang, dp, np.asarray(x).tolist(), np.asarray(y).tolist()))
        except Exception as e:  # noqa
            bad('evaluation raised {}: {}'.format(type(e).__name__, str(e)[:400]))


# ---------------------------------------------------------------------------
# factories

def project(geom, a, x):
    """detector coordinates at which the ray through x is seen at angle a (flat detector)"""
    ref = np.asarray(geom.det_refpoint(a), dtype=float)
    if geom.ndim == 2:
        axes = [np.asarray(geom.det_axis(a), dtype=float)]
    else:
        axes = [np.asarray(v, dtype=float) for v in geom.det_axes(a)]
    if hasattr(geom, 'src_position'):
        src = np.asarray(geom.src_position(a), dtype=float)
        A = np.column_stack([x - src] + [-v for v in axes])
        sol = np.linalg.solve(A, ref - src)
    else:
        mid = geom.det_params.mid_pt
        d = geom.det_to_src(a, float(mid[0]) if geom.ndim == 2 else tuple(float(v) for v in mid))
        A = np.column_stack([np.asarray(d, dtype=float)] + [-v for v in axes])
        sol = np.linalg.solve(A, ref - x)
    return sol[1:]


def gen_space(rng, ndim):
    import odl
    lo = [-round(rng.uniform(0.5, 3), 1) for _ in range(ndim)]
    hi = [round(rng.uniform(0.5, 3), 1) for _ in range(ndim)]
    if rng.random() < 0.3:  # off-centre volume
        hi[0] = round(lo[0] + rng.uniform(0.5, 1.5), 1) if rng.random() < 0.5 else hi[0]
        lo[1] = round(hi[1] - rng.uniform(0.3, 1.0), 1)
    shape = [rng.choice([6, 9, 12]) for _ in range(ndim)]
    return odl.uniform_discr(lo, hi, shape), lo, hi, shape


Z_PATTERNS = ['below>above', 'above>below', 'touch-from-below', 'touch-from-above',
              'entirely-below', 'entirely-above']


def helical_checks(ctx, g, space, lo, hi, rho, desc, key, lines, cases):
    """vertical detector extent of helical_geometry: model tie of h, and the Tam-Danielsson data
    sufficiency on the real code: every point of the volume near the axis stays inside the detector
    over an angular range of at least n_pi * pi around the angle where the source passes its height."""
    rs_, rd_ = float(g.src_radius), float(g.det_radius)
    n_pi = 1
    dmin = np.asarray(g.det_params.min_pt, dtype=float)
    dmax = np.asarray(g.det_params.max_pt, dtype=float)
    pt = float(g.pitch) / PI2
    ang = n_pi * math.pi / 2 + math.atan(rho / rs_)
    ctx.hit('factory/model/helh')
    lines.append('factory kind=helh pt={} rho={} rs={} rd={} ang={}'.format(fs(pt), fs(rho), fs(rs_), fs(rd_), fs(ang)))
    cases.append((desc, float(dmax[1]), float(-dmin[1]), 'helh', None))
    th = np.linspace(float(g.motion_params.min_pt[0]), float(g.motion_params.max_pt[0]),
                     int(360 * desc['num_turns']) + 1)
    src = np.asarray(g.src_position(th), dtype=float)
    ref = np.asarray(g.det_refpoint(th), dtype=float)
    axs = np.asarray(g.det_axes(th), dtype=float)
    nrm = np.cross(axs[:, 0], axs[:, 1])
    zmid = (lo[2] + hi[2]) / 2
    rc = 0.7 * rho * rs_ / math.hypot(rs_, rho)
    pts = [(0.0, 0.0, zmid)] + [(rc * math.cos(al), rc * math.sin(al), zmid + dz)
                               for al in (0.3, 1.9, 3.4, 5.0) for dz in (0.0, 0.1 * (hi[2] - lo[2]))]
    dth = th[1] - th[0]
    for q in pts:
        q = np.array(q)
        t = np.einsum('ij,ij->i', ref - src, nrm) / np.einsum('ij,ij->i', q - src, nrm)
        hit = src + t[:, None] * (q - src)
        u = np.einsum('ij,ij->i', hit - ref, axs[:, 0])
        v = np.einsum('ij,ij->i', hit - ref, axs[:, 1])
        inside = (u >= dmin[0]) & (u <= dmax[0]) & (v >= dmin[1]) & (v <= dmax[1])
        # angle at which the source is at the height of the point
        k0 = int(np.argmin(np.abs(src[:, 2] - q[2])))
        if not inside[k0]:
            seen = 0.0
        else:
            a = k0
            while a > 0 and inside[a - 1]:
                a -= 1
            b = k0
            while b < len(th) - 1 and inside[b + 1]:
                b += 1
            seen = (b - a) * dth
            if a == 0 or b == len(th) - 1:
                continue   # window cut off by the end of the scan: nothing to conclude
        if seen < n_pi * math.pi - 2 * dth:
            ctx.violation(key + ' Tam-Danielsson window', 'point {} is inside the detector {}..{} only over an '
                          'angular range of {:.4f} < n_pi*pi around the angle {:.4f} where the source passes its '
                          'height (pitch {}, src_radius {}, det_radius {})'.format(
                              q.tolist(), dmin.tolist(), dmax.tolist(), seen, th[k0], g.pitch, rs_, rd_), desc)
            break


def factory_case(ctx, which, ndim, lines, cases, far=None):
    """far = one of Z_PATTERNS: cone-beam 3d case with the source far from the volume
    (src_radius >= 4 rho) and a volume of height <= rho placed asymmetrically along the axis;
    there the detector the code builds does cover the neighbourhood of the rotation axis."""
    import odl
    rng = ctx.rng
    space, lo, hi, shape = gen_space(rng, ndim)
    if far is not None:
        rho0 = float(np.hypot(max(abs(lo[0]), abs(hi[0])), max(abs(lo[1]), abs(hi[1]))))
        a = round(rng.uniform(0.5, 1.0) * rho0, 1)
        b = round(rng.uniform(0.1, 0.4) * rho0, 1)
        lo[2], hi[2] = {'below>above': (-a, b), 'above>below': (-b, a),
                        'touch-from-below': (-a, 0.0), 'touch-from-above': (0.0, a),
                        'entirely-below': (-a, -b), 'entirely-above': (b, a)}[far]
        space = odl.uniform_discr(lo, hi, shape)
    corners = np.asarray(space.domain.corners(), dtype=float)
    rho = float(np.max(np.linalg.norm(corners[:, :2], axis=1)))
    desc = {'kind': 'factory', 'which': which, 'lo': lo, 'hi': hi, 'shape': shape}
    if far is not None:
        desc['zpattern'] = far
    if which == 'parallel':
        st, g = guarded(lambda: odl.tomo.parallel_beam_geometry(space))
    else:
        rs = round(rho * (rng.uniform(1.15, 4.0) if far is None else rng.uniform(4.0, 8.0)), 2)
        rd = round(rng.uniform(0.0, 5.0), 2)
        desc.update(rs=rs, rd=rd)
        if which == 'cone':
            short = rng.random() < 0.3
            desc['short_scan'] = short
            st, g = guarded(lambda: odl.tomo.cone_beam_geometry(space, rs, rd, short_scan=short))
        else:
            nt = rng.choice([1, 2, 3])
            desc['num_turns'] = nt
            st, g = guarded(lambda: odl.tomo.helical_geometry(space, rs, rd, num_turns=nt))
    name = {'parallel': 'parallel_beam_geometry', 'cone': 'cone_beam_geometry',
            'helical': 'helical_geometry'}[which]
    ctx.case((which, ndim, 'factory', far))
    ctx.hit('factory/{}/{}d{}'.format(which, ndim, '' if far is None else '/z-' + far))
    key = 'factory {} ndim={}'.format(name, ndim)
    if st != 'ok':
        ctx.violation(key + ' raises', st, desc)
        return
    try:
        dmin = np.asarray(g.det_params.min_pt, dtype=float)
        dmax = np.asarray(g.det_params.max_pt, dtype=float)
        ext = dmax - dmin
        angs = np.array(g.angles, dtype=float)
        pick = angs[np.unique(np.linspace(0, len(angs) - 1, 16).astype(int))]
        # --- coverage of the volume corners.  With the documented formulas (F19c) the part that
        # DOES hold is tested by itself, and the shortfall is measured against the largest one the
        # documented formulas can produce, so that anything worse is a new violation.
        worst = np.zeros(len(dmin))
        wcase = [None] * len(dmin)
        far_worst, far_case = 0.0, None
        for a in pick:
            if which != 'parallel':
                srcp = np.asarray(g.src_position(float(a)), dtype=float)
                refp = np.asarray(g.det_refpoint(float(a)), dtype=float)
                cdir = (refp - srcp)
                cdir[2:] = 0
                cdir = cdir / np.linalg.norm(cdir)
            for c in corners:
                u = project(g, float(a), c)
                over = np.maximum(u - dmax, dmin - u) / ext
                for i in range(len(dmin)):
                    if over[i] > worst[i]:
                        worst[i] = over[i]
                        wcase[i] = (float(a), c.tolist(), u.tolist())
                if which != 'parallel':
                    # corners behind the rotation axis as seen from the source (xc >= 0) are
                    # covered horizontally (C19.factory_covers_volume_fan_partial)
                    if np.dot(c[:2], cdir[:2]) >= 0 and over[0] > far_worst:
                        far_worst, far_case = over[0], (float(a), c.tolist(), u.tolist())
        if far_worst > 1e-9:
            ctx.violation(key + ' far-half coverage horizontal', 'volume corner {} behind the axis at angle {} '
                          'is seen at {} outside {}..{}'.format(far_case[1], far_case[0], far_case[2],
                                                                dmin.tolist(), dmax.tolist()), desc)
        if which == 'parallel':
            bound_h, bound_v = 0.0, 0.0
        else:
            rs_, rd_ = float(g.src_radius), float(g.det_radius)
            # largest relative overshoot the documented width 2 rho (rs+rd)/rs can have
            bound_h = (rs_ / math.sqrt(rs_ ** 2 - rho ** 2) - 1) / 2
            zmx = max(abs(lo[2]), abs(hi[2])) if ndim == 3 else 0.0
            # documented height: sin instead of tan of the half cone angle
            bound_v = (math.hypot(rs_ - rho, zmx) / (rs_ - rho) - 1) / 2 if ndim == 3 else 0.0
        if worst[0] > 1e-9:
            known = which != 'parallel' and worst[0] <= bound_h * (1 + 1e-6) + 1e-9
            ctx.violation(key + (' coverage horizontal' if known else ' coverage horizontal beyond the documented-formula shortfall'),
                          'volume corner {} at angle {} is seen at detector '
                          'coordinate {} outside {}..{} (by {:.3g} of the width; documented formula allows {:.3g})'.format(
                              wcase[0][1], wcase[0][0], wcase[0][2], dmin.tolist(), dmax.tolist(), worst[0], bound_h), desc)
        if len(dmin) > 1 and worst[1] > 1e-9 and which != 'helical':
            known = which == 'cone' and worst[1] <= bound_v * (1 + 1e-6) + 1e-9
            ctx.violation(key + (' coverage vertical' if known else ' coverage vertical beyond the documented-formula shortfall'),
                          'volume corner {} at angle {} is seen at detector '
                          'coordinate {} outside {}..{} (by {:.3g} of the height; documented formula allows {:.3g})'.format(
                              wcase[1][1], wcase[1][0], wcase[1][2], dmin.tolist(), dmax.tolist(), worst[1], bound_v), desc)
        if which == 'helical':
            helical_checks(ctx, g, space, lo, hi, rho, desc, key, lines, cases)
        # relations that hold for the code as it is (kept so that other defects stay visible)
        if which == 'parallel':
            hw = rho
            lines.append('factory kind=par rho={}'.format(fs(rho)))
            ctx.hit('factory/model/par')
        else:
            hw = rho * (g.src_radius + g.det_radius) / g.src_radius
            lines.append('factory kind=fan rho={} rs={} rd={}'.format(fs(rho), fs(g.src_radius), fs(g.det_radius)))
            ctx.hit('factory/model/fan')
            if abs(g.src_radius - desc['rs']) > 0 or abs(g.det_radius - desc['rd']) > 0:
                ctx.violation(key + ' radii', 'radii {} {} requested {} {}'.format(
                    g.src_radius, g.det_radius, desc['rs'], desc['rd']), desc)
            # the points at distance rho from the axis in the plane through the axis parallel
            # to the detector are seen exactly at the detector edge
            for a in pick[:4]:
                q = np.zeros(ndim)
                q[:2] = 0
                axv = np.asarray(g.det_axis(float(a)) if ndim == 2 else g.det_axes(float(a))[0], dtype=float)
                u = project(g, float(a), rho * axv)
                if abs(u[0]) > dmax[0] * (1 + 1e-9) or abs(abs(u[0]) - dmax[0]) > 1e-9 * (1 + dmax[0]):
                    ctx.violation(key + ' central magnification', 'point rho*det_axis is seen at {} '
                                  'detector edge {}'.format(u[0], dmax[0]), desc)
        cases.append((desc, float(dmax[0]), float(-dmin[0]), hw, None))
        if which == 'cone' and ndim == 3:
            # the detector is origin-centred and the scan symmetric under z -> -z: the mirrored
            # volume must get a detector of the same height (and pixel count)
            mlo, mhi = list(lo), list(hi)
            mlo[2], mhi[2] = -hi[2], -lo[2]
            stm, gm = guarded(lambda: odl.tomo.cone_beam_geometry(
                odl.uniform_discr(mlo, mhi, shape), desc['rs'], desc['rd'],
                short_scan=desc.get('short_scan', False)))
            if stm != 'ok':
                ctx.violation(key + ' mirror symmetry z', 'volume z in [{}, {}] works but the mirrored '
                              'volume raises {}'.format(lo[2], hi[2], stm), desc)
            else:
                m_min = np.asarray(gm.det_params.min_pt, dtype=float)
                m_max = np.asarray(gm.det_params.max_pt, dtype=float)
                if not (close(m_min, dmin, 1e-12 * (1 + dmax[1])) and close(m_max, dmax, 1e-12 * (1 + dmax[1]))
                        and gm.det_partition.shape == g.det_partition.shape):
                    ctx.violation(key + ' mirror symmetry z', 'volume z in [{}, {}]: detector {}..{} ({} px) '
                                  'but the volume mirrored in z gets {}..{} ({} px)'.format(
                                      lo[2], hi[2], dmin.tolist(), dmax.tolist(), g.det_partition.shape,
                                      m_min.tolist(), m_max.tolist(), gm.det_partition.shape), desc)
            if far is not None:
                # far source, flat volume: the rotation axis and the cylinder of radius rho/4
                # around it are covered vertically at the bottom and top faces, for every angle
                rc = rho / 4
                pts = []
                for z in (lo[2], hi[2]):
                    pts.append((0.0, 0.0, z))
                    for al in np.linspace(0, PI2, 8, endpoint=False):
                        pts.append((rc * math.cos(al), rc * math.sin(al), z))
                wv, wc = 0.0, None
                for a in pick:
                    for q in pts:
                        u = project(g, float(a), np.array(q))
                        over = max(u[1] - dmax[1], dmin[1] - u[1]) / ext[1]
                        if over > wv:
                            wv, wc = over, (float(a), q, u.tolist())
                if wv > 1e-9:
                    ctx.violation(key + ' central-cylinder vertical cover', 'z pattern {}: point {} of the '
                                  'volume (z in [{}, {}]) at angle {} is seen at detector coordinate {} '
                                  'outside {}..{} (by {:.3g} of the height)'.format(
                                      far, wc[1], lo[2], hi[2], wc[0], wc[2], dmin.tolist(), dmax.tolist(), wv), desc)
        if which == 'cone' and ndim == 3:
            # vertical extent as the code computes it: 2*sin(arctan(zmax/dist))*(rs+rd), rounded up
            # to a whole number of pixels of size min_mag*cell_side
            zmax = max(abs(lo[2]), abs(hi[2]))
            dist = g.src_radius - rho
            hyp = math.hypot(dist, zmax)
            delta = (g.src_radius + g.det_radius) / (g.src_radius + rho) * float(space.cell_sides[2])
            ctx.hit('factory/model/coneh')
            lines.append('factory kind=coneh zmax={} hyp={} rs={} rd={}'.format(
                fs(zmax), fs(hyp), fs(g.src_radius), fs(g.det_radius)))
            cases.append((desc, float(dmax[1]), float(-dmin[1]), None, delta))
        full = math.pi if which == 'parallel' else (PI2 * desc.get('num_turns', 1))
        if not desc.get('short_scan'):
            if abs(float(g.motion_params.max_pt[0]) - full) > 1e-12 * full or float(g.motion_params.min_pt[0]) != 0:
                ctx.violation(key + ' angular range', 'range {}'.format(g.motion_params), desc)
        if which == 'helical':
            if abs(g.pitch - (hi[2] - lo[2]) / desc['num_turns']) > 1e-12 or abs(g.offset_along_axis - lo[2]) > 1e-12:
                ctx.violation(key + ' pitch/offset', 'pitch {} offset {}'.format(g.pitch, g.offset_along_axis), desc)
        if which == 'parallel' and ndim == 3:
            if abs(dmin[1] - lo[2]) > 1e-12 or abs(dmax[1] - hi[2]) > 1e-12:
                ctx.violation(key + ' vertical extent', '{}..{} vs volume {}..{}'.format(dmin[1], dmax[1], lo[2], hi[2]), desc)
    except Exception as e:  # noqa
        ctx.violation(key + ' evaluation raises', '{}: {}'.format(type(e).__name__, str(e)[:120]), desc)


def run_factories(ctx):
    lines, cases = [], []
    n = 3 if ctx.quick else 12
    for which, ndim in (('parallel', 2), ('parallel', 3), ('cone', 2), ('cone', 3), ('helical', 3)):
        for _ in range(n):
            factory_case(ctx, which, ndim, lines, cases)
    # volumes placed asymmetrically along the rotation axis (every pattern in every run)
    for rep in range(1 if ctx.quick else 4):
        for pat in Z_PATTERNS:
            factory_case(ctx, 'cone', 3, lines, cases, far=pat)
    outs = core.run_driver('C19', lines)
    for (desc, hmax, hmin, hw, delta), ans in zip(cases, outs):
        if hw == 'helh':
            ok = ans.startswith('ok hh=')
            if ok:
                m = float(core.pfrac(ans[len('ok hh='):]))
                ok = abs(m - hmax) <= 1e-12 * (1 + m) and abs(m - hmin) <= 1e-12 * (1 + m)
            if not ok:
                ctx.disagree(desc, (hmin, hmax), ans, stream='factory-helical-halfheight')
        elif delta is None:
            ok = ans.startswith('ok hw=')
            if ok:
                m = float(core.pfrac(ans[len('ok hw='):]))
                ok = abs(m - hmax) <= 1e-12 * (1 + m) and abs(m - hmin) <= 1e-12 * (1 + m)
            if not ok:
                ctx.disagree(desc, (hmin, hmax), ans, stream='factory-halfwidth')
        else:
            ok = ans.startswith('ok hh=')
            if ok:
                raw = float(core.pfrac(ans[len('ok hh='):]))
                q = 2 * raw / delta
                cands = {math.ceil(q)}
                if abs(q - round(q)) < 1e-9:   # branch point of the ceil: either side
                    cands |= {round(q), round(q) + 1}
                ok = any(abs(n * delta / 2 - hmax) <= 1e-12 * (1 + hmax) and
                         abs(n * delta / 2 - hmin) <= 1e-12 * (1 + hmax) for n in cands)
            if not ok:
                ctx.disagree(desc, (hmin, hmax), ans + ' delta={}'.format(delta), stream='factory-halfheight')


# ---------------------------------------------------------------------------
# curved detectors on their own (all orthonormal axis pairs with small integer entries)

def run_detectors(ctx):
    import odl
    from odl.tomo.geometry import detector as D
    part2 = odl.uniform_partition([-1, -1], [1, 1], (4, 4))
    part1 = odl.uniform_partition(-1, 1, 4)
    pairs = []
    for M in PERMS3:
        M = np.array(M)
        pairs.append((M[:, 0].tolist(), M[:, 1].tolist()))
    for _ in range(6 if ctx.quick else 30):
        pairs.append(orth_pair(ctx.rng))
    for a, b in pairs:
        for nm, klass in (('cyl', D.CylindricalDetector), ('sph', D.SphericalDetector)):
            desc = {'kind': 'detector', 'det': nm, 'axes': [a, b]}
            ctx.case((nm, 'alignment', tuple(np.sign(a)), tuple(np.sign(b))))
            ctx.hit('detector/' + nm)
            st, det = guarded(lambda: klass(part2, axes=[a, b], radius=2.5))
            if st != 'ok':
                ctx.violation('curved-detector {} construct'.format(nm), st, desc)
                continue
            st, al = guarded(lambda: curved_alignment(det))
            if st != 'ok':
                ctx.violation('curved-detector {} raises'.format(nm), st, desc)
            elif not al[0]:
                ctx.violation('curved-detector alignment {} {}'.format(
                    nm, 'second rotation collinear-opposite' if al[2] else 'generic'),
                    'axes={} : {}'.format([a, b], al[1]), desc)
            else:
                R = np.asarray(det.rotation_matrix, dtype=float)
                if not close(R.T.dot(R), np.eye(3), 1e-12) or abs(np.linalg.det(R) - 1) > 1e-12:
                    ctx.violation('curved-detector {} rotation not orthonormal'.format(nm), str(R.tolist()), desc)
    for _ in range(8 if ctx.quick else 40):
        a = gen_vec(ctx.rng, 2, generic=ctx.rng.random() < 0.7)
        desc = {'kind': 'detector', 'det': 'circ', 'axes': [a]}
        ctx.case(('circ', 'alignment', tuple(np.sign(a))))
        ctx.hit('detector/circ')
        st, det = guarded(lambda: D.CircularDetector(part1, axis=a, radius=1.5))
        st2, al = guarded(lambda: curved_alignment(det)) if st == 'ok' else (st, None)
        if st2 != 'ok':
            ctx.violation('curved-detector circ raises', st2, desc)
        elif not al[0]:
            ctx.violation('curved-detector alignment circ', al[1], desc)


# ---------------------------------------------------------------------------
# round 4: rotation_matrix_from_to called directly, all branches (model: rotFromToCode2/3)

def _unit(v):
    v = np.asarray(v, dtype=float)
    return v / np.linalg.norm(v)


def fromto_cases(rng, quick):
    """(class name, u, v) with raw (un-normalised) vectors"""
    out = []
    n = 4 if quick else 16
    for _ in range(n):
        u, v = gen_vec(rng, 3), gen_vec(rng, 3)
        out.append(('3d/generic', u, v))
        k = rng.choice([1.0, 2.5, 0.5])
        out.append(('3d/same', u, [k * x for x in u]))
        out.append(('3d/opposite', u, [-k * x for x in u]))
        # a vector orthogonal to u, to tilt by a tiny angle
        w = np.cross(u, gen_vec(rng, 3))
        w = w / np.linalg.norm(w) * np.linalg.norm(u)
        for th, sg in ((1e-12, 1.0), (2e-11, -1.0), (2e-11, 1.0), (1e-12, -1.0)):
            out.append(('3d/in-band-' + ('same' if sg > 0 else 'opposite'), u,
                        (sg * (np.asarray(u) + th * w)).tolist()))
        for th in (1e-2, 1e-3, 1e-4, 1e-7):
            out.append(('3d/near-opposite', u, (-(np.asarray(u) + th * w)).tolist()))
        out.append(('3d/near-same', u, (np.asarray(u) + 1e-6 * w).tolist()))
        z = rng.choice([2.0, -0.5, 1.0])
        out.append(('3d/perp-ez-opposite', [0.0, 0.0, z], [0.0, 0.0, -3 * z]))
        out.append(('3d/perp-ez-same', [0.0, 0.0, z], [0.0, 0.0, 3 * z]))
        out.append(('3d/zero', [0.0, 0.0, 0.0] if rng.random() < 0.5 else [1e-11, 0.0, -2e-11], v))
        out.append(('3d/zero', u, [0.0, 3e-11, 0.0]))
        a, b = gen_vec(rng, 2), gen_vec(rng, 2)
        out.append(('2d/generic', a, b))
        out.append(('2d/same', a, [k * x for x in a]))
        out.append(('2d/opposite', a, [-k * x for x in a]))
        out.append(('2d/orthogonal', a, [-k * a[1], k * a[0]]))
        out.append(('2d/zero', [0.0, 1e-11], b))
    # axis-aligned vectors with power-of-two lengths: everything is exact in floats
    ax3 = [[sg * k if i == j else 0.0 for j in range(3)] for i in range(3) for sg, k in ((1, 2.0), (-1, 0.5))]
    for u in ax3:
        for v in ax3:
            out.append(('3d/axis-aligned', u, v))
    ax2 = [[sg * k if i == j else 0.0 for j in range(2)] for i in range(2) for sg, k in ((1, 4.0), (-1, 0.25))]
    for u in ax2:
        for v in ax2:
            out.append(('2d/axis-aligned', u, v))
    return out


def fromto_oracle(u, v, st, R):
    """rotation_matrix_from_to(u, v) on the real code: raises ValueError exactly for (nearly) zero
    vectors; otherwise R is a rotation with R u/|u| = v/|v| (up to the conditioning of the
    input).  Returns list of messages."""
    u, v = np.asarray(u, dtype=float), np.asarray(v, dtype=float)
    nu, nv = np.linalg.norm(u), np.linalg.norm(v)
    if min(nu, nv) < 1e-10:
        return [] if st.startswith('err:ValueError') else ['accepts a zero vector: ' + st]
    if st != 'ok':
        return ['raised ' + st]
    R = np.asarray(R, dtype=float)
    n = len(u)
    if R.shape != (n, n):
        return ['shape {}'.format(R.shape)]
    bad = []
    if not close(R.T.dot(R), np.eye(n), 1e-12):
        bad.append('not orthonormal: |R^T R - I| = {}'.format(np.abs(R.T.dot(R) - np.eye(n)).max()))
    if abs(np.linalg.det(R) - 1) > 1e-12:
        bad.append('det = {!r}'.format(float(np.linalg.det(R))))
    uh, vh = u / nu, v / nv
    th = abs(uh[0] * vh[1] - uh[1] * vh[0]) if n == 2 else float(np.linalg.norm(np.cross(uh, vh)))
    # collinear band of the 3-d code (|u x v| < 1e-10): R u = +-u, off by at most the angle;
    # outside: the normalised cross product has a relative rounding error of about eps/angle
    tol = 1e-12 + (2.5 * th if (n == 3 and th < 1e-10) else
                   4e-16 / max(th, 1e-300) if (th < 0.1 and uh.dot(vh) < 0) else 0.0)
    if not close(R.dot(uh), vh, tol):
        bad.append('R u/|u| - v/|v| = {} (tolerance {})'.format(np.abs(R.dot(uh) - vh).max(), tol))
    return bad


def run_fromto(ctx):
    from odl.tomo.util.utility import rotation_matrix_from_to
    cases = fromto_cases(ctx.rng, ctx.quick)
    cpi, spi = float(np.cos(np.pi)), float(np.sin(np.pi))
    lines, res = [], []
    for nm, u, v in cases:
        ua, va = np.array(u, dtype=float), np.array(v, dtype=float)
        st, R = guarded(lambda: rotation_matrix_from_to(ua.copy(), va.copy()))
        res.append((st, R))
        lines.append('fromto dim={} u={} v={} pi={}'.format(len(u), vec(ua), vec(va), fl([cpi, spi])))
    outs = core.run_driver('C19', lines)
    for (nm, u, v), (st, R), ans in zip(cases, res, outs):
        desc = {'kind': 'fromto', 'u': list(map(float, u)), 'v': list(map(float, v))}
        ctx.case(('fromto', nm), sample={'case': desc, 'model': ans[:160]} if nm == '3d/opposite' and
                 len(ctx.samples) < 6 else None)
        ctx.hit('fromto/' + nm)
        for msg in fromto_oracle(u, v, st, R):
            ctx.violation('rotation_matrix_from_to {}'.format(nm), 'u={} v={}: {}'.format(u, v, msg), desc)
        if ans == 'err:value' or not st == 'ok':
            ctx.hit('fromto/model/raises')
            if not (ans == 'err:value' and st.startswith('err:ValueError')):
                ctx.disagree(desc, st, ans, stream='fromto-raises')
            continue
        br = ans.split()[1].split('=')[1]
        ctx.hit('fromto/model/' + br)
        m = parse_ans('ok ' + ans.split()[2])
        Rf = np.asarray(R, dtype=float)
        if nm.endswith('axis-aligned') and br in ('same', 'opposite'):
            # exact stream: every operation of the code is exact on these inputs
            ctx.hit('fromto/exact')
            exact = [Fraction(x) for x in core.pfl(ans.split()[2].split('=')[1])]
            if [Fraction(float(x)) for x in Rf.ravel()] != exact:
                ctx.disagree(desc, Rf.tolist(), ans, stream='fromto-exact')
            continue
        tol = 4e-12
        if br == 'generic':
            uh, vh = _unit(u), _unit(v)
            th = float(np.linalg.norm(np.cross(uh, vh)))
            if th < 0.1 and uh.dot(vh) < 0:
                tol += 8e-16 / th
        expected_br = {'3d/same': 'same', '3d/opposite': 'opposite', '3d/in-band-same': 'same',
                       '3d/in-band-opposite': 'opposite', '3d/near-opposite': 'generic',
                       '3d/near-same': 'generic', '3d/generic': 'generic',
                       '3d/perp-ez-opposite': 'opposite', '3d/perp-ez-same': 'same'}.get(nm)
        if expected_br is not None and br != expected_br:
            ctx.disagree(desc, 'harness expects branch ' + expected_br, ans, stream='fromto-branch')
        if m is None or not close(Rf, m['m'], tol):
            ctx.disagree(desc, Rf.tolist(), ans, stream='fromto')


def run_helix(ctx, specs):
    """helical ConeBeamGeometry (oracle; model: C19.helical_pitch_period about the Cone.srcPos /
    refpoint / detPoint the point stream executes): one more turn moves source, detector
    reference point and detector points by pitch*axis and keeps det_to_src (2 pi periodic
    shift functions)."""
    for s in specs:
        if s['cls'] != 'cone' or 'pitch' not in s:
            continue
        st, g = guarded(lambda: build(s))
        if st != 'ok':
            continue
        step = np.asarray(g.pitch * np.asarray(g.axis, dtype=float))
        for i in range(3):
            ang = round(ctx.rng.uniform(max(s['amin'], 0.0), s['amax'] - PI2), 4)
            dp = (round(ctx.rng.uniform(s['dlo'], s['dhi']), 4), round(ctx.rng.uniform(s['vlo'], s['vhi']), 4))
            desc = {'kind': 'helix', 'spec': jsonable_spec(s), 'ang': ang, 'dp': list(dp)}
            ctx.case(variant_sig(s['cls'], s['how'], s['variant']) + ('helix',))
            ctx.hit('helix/period' + ('/shifts' if s.get('ssh') else ''))
            for msg in helix_oracle(s, g, ang, dp, step):
                ctx.violation('helical pitch period cone how={} det={} flags={}'.format(
                    s['how'], s.get('det', 'flat'), '+'.join(sorted(s['variant']))), msg, desc)


def helix_oracle(s, g, ang, dp, step):
    bad = []
    tol = TOL * (1 + scale_of(s, g, ang + PI2)) * 8
    for nm, f, shift in (('src_position', lambda a: g.src_position(a), step),
                         ('det_refpoint', lambda a: g.det_refpoint(a), step),
                         ('det_point_position', lambda a: g.det_point_position(a, dp), step),
                         ('det_to_src', lambda a: g.det_to_src(a, dp, normalized=False), 0 * step)):
        st, ab = guarded(lambda: (np.asarray(f(ang), dtype=float), np.asarray(f(ang + PI2), dtype=float)))
        if st != 'ok':
            bad.append('{} raised {}'.format(nm, st))
        elif not close(ab[1] - ab[0], shift, tol):
            bad.append('{}(a + 2 pi) - {}(a) = {} expected {} at a={}'.format(
                nm, nm, (ab[1] - ab[0]).tolist(), np.asarray(shift).tolist(), ang))
    return bad


# ---------------------------------------------------------------------------
# round 4: transform_system called directly (model: tsMatrix2/3 = snap + rotFromToCode)

TS_DEFAULTS = {2: [[0.0, 1.0], [1.0, 0.0]], 3: [[0.0, 0.0, 1.0], [0.0, 1.0, 0.0]]}


def tsys_cases(rng, quick):
    """(class, default, given)"""
    out = []
    for rep in range(2 if quick else 8):
        for n in (2, 3):
            for d in TS_DEFAULTS[n] + [gen_vec(rng, n)]:
                generic_default = d not in TS_DEFAULTS[n]
                da = np.asarray(d, dtype=float)
                out.append(('generic', d, gen_vec(rng, n)))
                k = rng.choice([2.5, 0.5, 1.0, 1e-11])
                out.append(('dilation', d, (k * da).tolist()))
                out.append(('opposite', d, (-rng.choice([1.0, 3.0]) * da).tolist()))
                # orthogonal direction of the same length as d
                if n == 2:
                    w = np.array([-da[1], da[0]])
                else:
                    w = np.cross(da, gen_vec(rng, 3))
                    w = w / np.linalg.norm(w) * np.linalg.norm(da)
                if generic_default:
                    deltas = [(1e-10, 'near-snapped'), (1e-3, 'near-rotated')]
                else:
                    deltas = [(1e-9, 'near-snapped'), (6e-9 / max(abs(w).max(), 1e-3) * abs(w).max(), 'near-snapped'),
                              (3e-8 / max(abs(w).max() / np.linalg.norm(w), 0.3), 'near-rotated'),
                              (1e-6, 'near-rotated'), (1e-4, 'near-rotated')]
                for dl, nm in deltas:
                    out.append((nm, d, (da + dl * w).tolist()))
                out.append(('long-near', d, (100.0 * (da + 1e-7 * w)).tolist()))
                # short given vectors: the direction, not the length, should decide
                out.append(('short-near', d, (1e-3 * (da + 1e-7 * w)).tolist()))
                out.append(('short-given', d, (rng.choice([1e-8, 3e-9]) * _unit(da + rng.choice([0.1, 0.7]) * w)
                                              / np.linalg.norm(da)).tolist()))
                out.append(('zero-given', d, [0.0] * n))
                out.append(('zero-default', [0.0] * n, gen_vec(rng, n)))
                out.append(('zero-both', [0.0] * n, [0.0] * n))
                out.append(('tiny-given', d, (1e-11 * np.asarray(gen_vec(rng, n))).tolist()))
    return out


def tsys_oracle(d, p, st, res):
    """transform_system(p, d, [e_1..e_n]) on the real code: the principal vector is passed through,
    the other vectors are transformed by a ROTATION M which takes d/|d| to p/|p| -- up to the
    snap accepted as an ASSUMPTION of this check: directions within 4e-8 rad of the default may be
    treated as the default (identity), whatever the length.  A larger deviation is a violation
    (former finding F19t, repaired by b998548)."""
    d, p = np.asarray(d, dtype=float), np.asarray(p, dtype=float)
    n = len(d)
    nd, npn = np.linalg.norm(d), np.linalg.norm(p)
    if (nd == 0) != (npn == 0):
        return [] if st.startswith('err:ValueError') else ['accepts exactly one zero vector: ' + st]
    if nd == 0:
        ok = st == 'ok' and close(np.asarray(res[1:]), np.eye(n), 0)
        return [] if ok else ['two zero vectors: expected the identity, got ' + st]
    dh, ph = d / nd, p / npn
    th = abs(dh[0] * ph[1] - dh[1] * ph[0]) if n == 2 else float(np.linalg.norm(np.cross(dh, ph)))
    # ASSUMPTION accepted by this check: directions within 4e-8 rad of the default may be treated
    # as the default (identity, "dilation only") -- whatever the LENGTH of the given vector
    near_default = bool(th <= 4e-8 and dh.dot(ph) > 0)
    if npn < 1e-10 and st.startswith('err:ValueError') and not (th == 0 and dh.dot(ph) > 0):
        return []   # too short for rotation_matrix_from_to: refused
    if npn < 1e-10 and not near_default:
        return ['accepts a vector shorter than 1e-10 that does not point in the default direction: ' + st]
    if st != 'ok':
        return ['raised ' + st]
    bad = []
    if not close(res[0], p, 0):
        bad.append('principal vector changed: {}'.format(np.asarray(res[0]).tolist()))
    M = np.asarray(res[1:], dtype=float).T
    if not close(M.T.dot(M), np.eye(n), 1e-12) or abs(np.linalg.det(M) - 1) > 1e-12:
        bad.append('transformation of the default frame is not a rotation: {}'.format(M.tolist()))
    snapped = bool(np.array_equal(M, np.eye(n)))
    if snapped:
        tol = 4e-8
    else:
        tol = 1e-12 + (4e-16 / max(th, 1e-300) if (th < 0.1 and dh.dot(ph) < 0) else 0.0)
        if n == 3 and th < 1e-10:
            tol += 2.5 * th
    if not close(M.dot(dh), ph, tol):
        bad.append('M d/|d| - p/|p| = {} (tolerance {}, identity used={})'.format(
            np.abs(M.dot(dh) - ph).max(), tol, snapped))
    return bad


def run_tsys(ctx):
    from odl.tomo.util.utility import transform_system
    cases = tsys_cases(ctx.rng, ctx.quick)
    cpi, spi = float(np.cos(np.pi)), float(np.sin(np.pi))
    lines, res = [], []
    for nm, d, p in cases:
        n = len(d)
        res.append(guarded(lambda: transform_system(np.array(p, dtype=float), np.array(d, dtype=float),
                                                    [row for row in np.eye(n)])))
        lines.append('tsys dim={} d={} p={} pi={}'.format(n, vec(d), vec(p), fl([cpi, spi])))
    outs = core.run_driver('C19', lines)
    for (nm, d, p), (st, r), ans in zip(cases, res, outs):
        n = len(d)
        kind = 'default' if d in TS_DEFAULTS[n] else ('zero' if not any(d) else 'generic-default')
        desc = {'kind': 'tsys', 'd': list(map(float, d)), 'p': list(map(float, p))}
        ctx.case(('tsys', n, nm, kind), sample={'case': desc, 'model': ans[:160]} if nm == 'near-snapped' and
                 len(ctx.samples) < 7 else None)
        ctx.hit('tsys/{}d/{}'.format(n, nm))
        for msg in tsys_oracle(d, p, st, r):
            ctx.violation('transform_system {}d {}{}'.format(n, nm, ' generic-default' if kind == 'generic-default' else ''),
                          'default={} given={}: {}'.format(d, p, msg), desc)
        if ans == 'err:value' or st != 'ok':
            ctx.hit('tsys/model/raises')
            if not (ans == 'err:value' and st.startswith('err:ValueError')):
                ctx.disagree(desc, st, ans, stream='tsys-raises')
            continue
        br = ans.split()[1].split('=')[1]
        ctx.hit('tsys/model/' + br)
        m = parse_ans('ok ' + ans.split()[2])
        M = np.asarray(r[1:], dtype=float).T
        if br == 'ident':
            # exact: the code returns np.eye(n).dot(e_i)
            if not close(M, np.eye(n), 0):
                ctx.disagree(desc, M.tolist(), ans, stream='tsys-snap')
            continue
        tol = 4e-12
        dh, ph = _unit(d), _unit(p)
        th = abs(dh[0] * ph[1] - dh[1] * ph[0]) if n == 2 else float(np.linalg.norm(np.cross(dh, ph)))
        if n == 3 and th < 0.1 and dh.dot(ph) < 0:
            tol += 8e-16 / max(th, 1e-300)
        if m is None or not close(M, m['m'], tol):
            ctx.disagree(desc, M.tolist(), ans, stream='tsys')


# ---------------------------------------------------------------------------
# round 5: strata for code of the anchored files that no stream entered (docs/covmap/C19.md)

def run_axis_rotation(ctx):
    """public helper axis_rotation(axis, angle, vectors, axis_shift): model axisRotation + oracle
    (rigid motion about the shifted axis line)"""
    from odl.tomo.util.utility import axis_rotation
    cases, lines, res = [], [], []
    for i in range(6 if ctx.quick else 30):
        a = _unit(gen_vec(ctx.rng, 3)) if i % 3 else np.array([[0., 0, 1], [0, 1., 0]][i % 2])
        ang = round(ctx.rng.uniform(-7, 7), 3)
        sh = gen_vec(ctx.rng, 3) if i % 2 else [0.0, 0.0, 0.0]
        vs = [gen_vec(ctx.rng, 3) for _ in range(3)]
        single = (i % 3 == 1)
        arg = vs[0] if single else vs
        st, out = guarded(lambda: np.asarray(axis_rotation(a, ang, arg, axis_shift=sh) if i % 2 else
                                             axis_rotation(a, ang, arg), dtype=float))
        c, si = cs(ang)
        for k, v in enumerate(vs[:1] if single else vs):
            cases.append((a, ang, sh, v, st, out, k, single))
            lines.append('axrot ax={} ang={} v={} sh={}'.format(vec(a), fl([c, si]), vec(v), vec(sh)))
    outs = core.run_driver('C19', lines)
    for (a, ang, sh, v, st, out, k, single), ans in zip(cases, outs):
        desc = {'kind': 'axrot', 'axis': a.tolist(), 'ang': ang, 'shift': list(sh), 'v': list(v)}
        ctx.case(('axis_rotation', 'single' if single else 'bulk', 'shift' if any(sh) else 'noshift'))
        ctx.hit('axis_rotation/' + ('single' if single else 'bulk') + ('/shift' if any(sh) else ''))
        if st != 'ok' or out.shape != ((1, 3) if single else (3, 3)):
            ctx.violation('axis_rotation call', '{} shape {}'.format(st, getattr(out, 'shape', None)), desc)
            continue
        r = out[k]
        bad = axrot_oracle(a, ang, sh, v, r)
        for msg in bad:
            ctx.violation('axis_rotation rigid motion', msg, desc)
        m = parse_ans(ans)
        if m is None or not close(r, m['r'], 4e-12 * (1 + np.abs(v).max() + np.abs(np.asarray(sh)).max())):
            ctx.disagree(desc, r.tolist(), ans, stream='axrot')


def axrot_oracle(a, ang, sh, v, r):
    a, sh, v, r = (np.asarray(x, dtype=float) for x in (a, sh, v, r))
    shp = sh - a.dot(sh) * a
    x, y = v - shp, r - shp
    bad = []
    tol = 1e-12 * (1 + np.abs(x).max())
    if abs(a.dot(x) - a.dot(y)) > tol:
        bad.append('component along the axis changed: {} -> {}'.format(a.dot(x), a.dot(y)))
    xp, yp = x - a.dot(x) * a, y - a.dot(y) * a
    if abs(np.linalg.norm(xp) - np.linalg.norm(yp)) > tol:
        bad.append('distance to the axis changed')
    # right-handed rotation by `ang` about a
    exp = math.cos(ang) * xp + math.sin(ang) * np.cross(a, xp)
    if not close(yp, exp, tol * 4):
        bad.append('not the right-handed rotation by the angle about the axis: {} expected {}'.format(
            yp.tolist(), exp.tolist()))
    return bad


def astra_rows(s, g):
    """expected rows of the astra_*_geom_to_vec functions from SINGLE-parameter evaluations"""
    cls = s['cls']
    ang = np.asarray(g.angles, dtype=float)
    n = ang.shape[-1]
    mid = g.det_params.mid_pt
    px = np.asarray(g.det_partition.cell_sides, dtype=float)
    rows = []
    for i in range(n):
        a = tuple(float(x) for x in ang[:, i]) if ang.ndim == 2 else float(ang[i])
        if cls == 'fan':
            R = np.array([[0.0, 1.0], [-1.0, 0.0]])
            rows.append(np.concatenate([R.dot(g.src_position(a)), R.dot(g.det_point_position(a, float(mid[0]))),
                                        R.dot(g.det_axis(a)) * px[0]]))
            continue
        mp = tuple(float(x) for x in mid)
        first = g.src_position(a) if cls == 'cone' else -np.asarray(g.det_to_src(a, mp))
        ax = np.asarray(g.det_axes(a), dtype=float)
        blocks = [first, g.det_point_position(a, mp), ax[1] * px[1], ax[0] * px[0]]
        rows.append(np.concatenate([np.asarray(b, dtype=float)[::-1] for b in blocks]))
    return np.array(rows)


def run_astra_vecs(ctx, specs):
    """odl/tomo/backends/astra_setup.py: the pure-NumPy converters that hand the geometry's vectors
    to the ASTRA back-end (no astra module needed).  Oracle: every row is what the single-parameter
    evaluation gives at that angle, in the documented (z, y, x) / rotated-by--90-degrees layout."""
    from odl.tomo.backends import astra_setup as A
    fn = {'fan': A.astra_conebeam_2d_geom_to_vec, 'cone': A.astra_conebeam_3d_geom_to_vec,
          'par3a': A.astra_parallel_3d_geom_to_vec, 'par3e': A.astra_parallel_3d_geom_to_vec}
    seen = set()
    for s in specs:
        if s['cls'] not in fn or s.get('expect_reject') or s.get('ndarray_args'):
            continue
        k = (s['cls'], s['how'], s.get('det', 'flat'), bool(s.get('ssh')), 'pitch' in s, 't' in s, s.get('neul', 0))
        if ctx.quick and k in seen:
            continue
        seen.add(k)
        st, g = guarded(lambda: build(s))
        if st != 'ok':
            continue
        desc = {'kind': 'astra', 'spec': jsonable_spec(s)}
        ctx.case(('astra-vec',) + k)
        ctx.hit('astra-vec/' + s['cls'])
        st, got = guarded(lambda: np.asarray(fn[s['cls']](g), dtype=float))
        st2, exp = guarded(lambda: astra_rows(s, g))
        if st != 'ok' or st2 != 'ok':
            ctx.violation('astra geom_to_vec {} raises'.format(s['cls']), st + ' / ' + st2, desc)
            continue
        tol = TOL * (1 + scale_of(s, g, float(np.abs(np.asarray(g.angles)).max()))) * 4
        if got.shape != exp.shape or not close(got, exp, tol):
            ctx.violation('astra geom_to_vec {} how={} det={}'.format(s['cls'], s['how'], s.get('det', 'flat')),
                          'rows differ from the single-parameter evaluation in the documented layout: max diff {}'.format(
                              np.abs(got - exp).max() if got.shape == exp.shape else (got.shape, exp.shape)), desc)


def validation_cases():
    """(name, callable, expected exception types): invalid input must be REFUSED (a geometry that
    violates the relations must not be constructible); check_bounds=True refuses parameters outside
    the partitions"""
    import odl
    T = odl.tomo
    from odl.tomo.geometry import detector as D
    from odl.tomo.geometry.geometry import Geometry, DivergentBeamGeometry, AxisOrientedGeometry
    from odl.tomo.util import utility as U
    ap = odl.uniform_partition(0, 2 * np.pi, 6)
    ap2 = odl.uniform_partition([0, 0], [3, 3], (3, 2))
    d1 = odl.uniform_partition(-1, 1, 4)
    d2 = odl.uniform_partition([-1, -1], [1, 1], (4, 3))
    V, Ty, NI = (ValueError,), (TypeError,), (NotImplementedError,)
    fan = T.FanBeamGeometry(ap, d1, 3, 2)
    fanc = T.FanBeamGeometry(ap, d1, 3, 2, det_curvature_radius=4)
    cone = T.ConeBeamGeometry(ap, d2, 3, 2)
    conec = T.ConeBeamGeometry(ap, d2, 3, 2, det_curvature_radius=(4, None))
    cones = T.ConeBeamGeometry(ap, d2, 3, 2, det_curvature_radius=(4, 4))
    p2 = T.Parallel2dGeometry(ap, d1)
    p3 = T.Parallel3dAxisGeometry(ap, d2)
    pe = T.Parallel3dEulerGeometry(ap2, d2)
    sp2 = odl.uniform_discr([-1, -1], [1, 1], (4, 4))
    sp1 = odl.uniform_discr(-1, 1, 4)
    c = []
    c += [('fan/zero-src_to_det_init', lambda: T.FanBeamGeometry(ap, d1, 3, 2, src_to_det_init=(0, 0)), V),
          ('fan/negative-src_radius', lambda: T.FanBeamGeometry(ap, d1, -1, 2), V),
          ('fan/negative-det_radius', lambda: T.FanBeamGeometry(ap, d1, 1, -2), V),
          ('fan/both-radii-zero', lambda: T.FanBeamGeometry(ap, d1, 0, 0), V),
          ('fan/apart-2d', lambda: T.FanBeamGeometry(ap2, d1, 3, 2), V),
          ('fan/frommatrix-shape', lambda: T.FanBeamGeometry.frommatrix(ap, d1, 3, 2, np.eye(3)), V),
          ('fan/angle-out-of-range', lambda: fan.det_refpoint(7.0), V),
          ('fan/src-angle-out-of-range', lambda: fan.src_position(-0.5), V),
          ('fan/rotation-angle-out-of-range', lambda: fan.rotation_matrix(7.0), V),
          ('cone/zero-src_to_det_init', lambda: T.ConeBeamGeometry(ap, d2, 3, 2, src_to_det_init=(0, 0, 0)), V),
          ('cone/curvature-two-different-radii', lambda: T.ConeBeamGeometry(ap, d2, 3, 2, det_curvature_radius=(4, 5)), NI),
          ('cone/curvature-not-2-tuple', lambda: T.ConeBeamGeometry(ap, d2, 3, 2, det_curvature_radius=(4, 4, 4)), V),
          ('cone/negative-src_radius', lambda: T.ConeBeamGeometry(ap, d2, -3, 2), V),
          ('cone/negative-det_radius', lambda: T.ConeBeamGeometry(ap, d2, 3, -2), V),
          ('cone/both-radii-zero', lambda: T.ConeBeamGeometry(ap, d2, 0, 0), V),
          ('cone/apart-2d', lambda: T.ConeBeamGeometry(ap2, d2, 3, 2), V),
          ('cone/frommatrix-unknown-kwarg', lambda: T.ConeBeamGeometry.frommatrix(ap, d2, 3, 2, np.eye(3), axis=(0, 0, 1)), Ty),
          ('cone/frommatrix-shape', lambda: T.ConeBeamGeometry.frommatrix(ap, d2, 3, 2, np.eye(2)), V),
          ('cone/axis-shape', lambda: T.ConeBeamGeometry(ap, d2, 3, 2, axis=(0, 1)), V),
          ('cone/axis-zero', lambda: T.ConeBeamGeometry(ap, d2, 3, 2, axis=(0, 0, 0)), V),
          ('cone/angle-out-of-range', lambda: cone.rotation_matrix(7.0), V),
          ('cone/unknown-kwarg', lambda: T.ConeBeamGeometry(ap, d2, 3, 2, bogus=1), Ty),
          ('cone/translation-shape', lambda: T.ConeBeamGeometry(ap, d2, 3, 2, translation=(1, 2)), V),
          ('par2/apart-2d', lambda: T.Parallel2dGeometry(ap2, d1), V),
          ('par2/frommatrix-shape', lambda: T.Parallel2dGeometry.frommatrix(ap, d1, np.eye(3)), V),
          ('par2/angle-out-of-range', lambda: p2.rotation_matrix(7.0), V),
          ('par2/det_pos_init-shape', lambda: T.Parallel2dGeometry(ap, d1, det_pos_init=(0, 1, 0)), V),
          ('par3e/apart-1d', lambda: T.Parallel3dEulerGeometry(odl.uniform_partition([0] * 4, [1] * 4, [2] * 4), d2), V),
          ('par3e/frommatrix-shape', lambda: T.Parallel3dEulerGeometry.frommatrix(ap2, d2, np.eye(2)), V),
          ('par3e/angles-out-of-range', lambda: pe.rotation_matrix((4.0, 1.0)), V),
          ('par3a/apart-2d', lambda: T.Parallel3dAxisGeometry(ap2, d2), V),
          ('par3a/frommatrix-shape', lambda: T.Parallel3dAxisGeometry.frommatrix(ap, d2, np.eye(2)), V),
          ('factory/cone-source-inside-2d', lambda: T.cone_beam_geometry(sp2, 1.0, 2.0), V),
          ('factory/helical-source-inside', lambda: T.helical_geometry(
              odl.uniform_discr([-1, -1, -1], [1, 1, 1], (4, 4, 4)), 1.0, 2.0, num_turns=2), V),
          ('factory/cone-ndim-1', lambda: T.cone_beam_geometry(sp1, 3.0, 2.0), V),
          ('factory/parallel-ndim-1', lambda: T.parallel_beam_geometry(sp1), V),
          ('geometry/ndim-0', lambda: Geometry(0, ap, D.Flat1dDetector(d1, [1, 0])), V),
          ('geometry/motion_part-type', lambda: Geometry(2, 'x', D.Flat1dDetector(d1, [1, 0])), Ty),
          ('geometry/detector-type', lambda: Geometry(2, ap, 'x'), Ty),
          ('geometry/abstract-det_refpoint', lambda: Geometry.det_refpoint(fan, 0.0), NI),
          ('geometry/abstract-rotation_matrix', lambda: Geometry.rotation_matrix(fan, 0.0), NI),
          ('geometry/abstract-det_to_src', lambda: Geometry.det_to_src(fan, 0.0, 0.0), NI),
          ('geometry/abstract-src_position', lambda: DivergentBeamGeometry.src_position(fan, 0.0), NI),
          ('detector/partition-type', lambda: D.Flat1dDetector('x', [1, 0]), Ty),
          ('detector/abstract-surface', lambda: D.Detector.surface(fan.detector, 0.0), NI),
          ('detector/abstract-surface_deriv', lambda: D.Detector.surface_deriv(fan.detector, 0.0), NI),
          ('flat1d/partition-2d', lambda: D.Flat1dDetector(d2, [1, 0]), V),
          ('flat1d/axis-zero', lambda: D.Flat1dDetector(d1, [0, 0]), V),
          ('flat2d/partition-1d', lambda: D.Flat2dDetector(d1, [[1, 0, 0], [0, 1, 0]]), V),
          ('flat2d/axes-shape', lambda: D.Flat2dDetector(d2, [[1, 0], [0, 1]]), V),
          ('flat2d/axes-dependent', lambda: D.Flat2dDetector(d2, [[1, 0, 0], [2, 0, 0]]), V),
          ('circ/partition-2d', lambda: D.CircularDetector(d2, [1, 0], 2.0), V),
          ('circ/axis-zero', lambda: D.CircularDetector(d1, [0, 0], 2.0), V),
          ('circ/radius-nonpositive', lambda: D.CircularDetector(d1, [1, 0], 0.0), V),
          ('cyl/partition-1d', lambda: D.CylindricalDetector(d1, [[1, 0, 0], [0, 1, 0]], 2.0), V),
          ('cyl/axes-shape', lambda: D.CylindricalDetector(d2, [[1, 0], [0, 1]], 2.0), V),
          ('cyl/axes-dependent', lambda: D.CylindricalDetector(d2, [[1, 0, 0], [2, 0, 0]], 2.0), V),
          ('cyl/axes-not-perpendicular', lambda: D.CylindricalDetector(d2, [[1, 0, 0], [1, 1, 0]], 2.0), V),
          ('cyl/radius-nonpositive', lambda: D.CylindricalDetector(d2, [[1, 0, 0], [0, 1, 0]], -1.0), V),
          ('sph/partition-1d', lambda: D.SphericalDetector(d1, [[1, 0, 0], [0, 1, 0]], 2.0), V),
          ('utility/axis_rotation_matrix-axis-shape', lambda: U.axis_rotation_matrix([0, 1], 0.3), V),
          ('utility/axis_rotation-vectors-shape', lambda: U.axis_rotation([0, 0, 1], 0.3, [1, 0]), V),
          ('utility/from_to-from-shape', lambda: U.rotation_matrix_from_to([1, 0, 0, 0], [1, 0, 0]), V),
          ('utility/from_to-to-shape', lambda: U.rotation_matrix_from_to([1, 0, 0], [1, 0, 0, 0]), V),
          ('utility/from_to-shapes-differ', lambda: U.rotation_matrix_from_to([1, 0, 0], [1, 0]), V),
          ('utility/transform_system-matrix-shape', lambda: U.transform_system([0, 1], None, [[1, 0]], matrix=np.eye(3)), V),
          ('utility/transform_system-bad-condition', lambda: U.transform_system(
              [0, 1], None, [[1, 0]], matrix=np.diag([1.0, 1e-9])), (np.linalg.LinAlgError,)),
          ('utility/perpendicular_vector-zero', lambda: U.perpendicular_vector([0, 0, 0]), V)]
    # parameters outside the partitions with check_bounds=True
    for nm, det, par in (('flat1d', fan.detector, 1.5), ('circ', fanc.detector, 1.5),
                         ('flat2d', cone.detector, (1.5, 0.0)), ('cyl', conec.detector, (1.5, 0.0)),
                         ('sph', cones.detector, (0.0, 1.5))):
        for meth in ('surface', 'surface_deriv', 'surface_normal', 'surface_measure'):
            c.append(('{}/{}-param-out-of-range'.format(nm, meth),
                      (lambda det=det, meth=meth, par=par: getattr(det, meth)(par)), V))
    return c


def run_validation(ctx):
    for nm, f, exc in validation_cases():
        ctx.case(('validation', nm))
        ctx.hit('validation/' + nm.split('/')[0])
        st, r = guarded(f)
        ok = any(st.startswith('err:' + e.__name__ + ':') for e in exc)
        if not ok:
            ctx.violation('validation ' + nm, 'expected {} but got {}{}'.format(
                '/'.join(e.__name__ for e in exc), st[:300], '' if st != 'ok' else ' -> ' + str(guarded(lambda: repr(r))[1])[:200]),
                {'kind': 'validation', 'name': nm})


def run_accessors(ctx, specs):
    """small read-only attributes and option paths of the anchored classes that the relations rely on:
    grids/params of geometry and detector, det_curvature_radius, None defaults handed to the
    constructors, transform_system passing None through, vectorised surface_measure,
    check_bounds=False accepting parameters outside the partitions with the relations intact"""
    import odl
    from odl.tomo.util import utility as U
    seen = set()
    for s in specs:
        if s.get('expect_reject'):
            continue
        k = (s['cls'], s.get('det', 'flat'), bool(s.get('cb0')))
        if k in seen:
            continue
        seen.add(k)
        st, g = guarded(lambda: build(s))
        if st != 'ok':
            continue
        desc = {'kind': 'accessors', 'spec': jsonable_spec(s)}
        ctx.case(('accessors',) + k)
        ctx.hit('accessors/' + s['cls'])
        ndim = 2 if s['cls'] in ('par2', 'fan') else 3

        def chk():
            bad = []
            if g.grid != g.partition.grid or g.det_grid != g.det_partition.grid or g.params != g.partition.set:
                bad.append('grid / det_grid / params differ from the partition')
            d = g.detector
            if d.grid != d.partition.grid or d.shape != d.partition.shape or d.size != d.partition.size:
                bad.append('detector grid / shape / size differ from the partition')
            if not isinstance(g.implementation_cache, dict):
                bad.append('implementation_cache is not a dict')
            if s['cls'] == 'cone':
                exp = None if s.get('det', 'flat') == 'flat' else float(s['cr'])
                if g.det_curvature_radius != exp:
                    bad.append('det_curvature_radius {} expected {}'.format(g.det_curvature_radius, exp))
            # vectorised surface_measure = single-parameter values
            if ndim == 2:
                ps = np.array([s['dlo'], 0.0, s['dhi']])
                one = [float(d.surface_measure(float(p))) for p in ps]
                many = np.asarray(d.surface_measure(ps), dtype=float)
            else:
                ps = np.array([[s['dlo'], s['vlo']], [0.0, 0.0], [s['dhi'], s['vhi']]])
                one = [float(d.surface_measure(tuple(p))) for p in ps]
                many = np.asarray(d.surface_measure(ps.T), dtype=float)
            if many.shape != (3,) or not close(many, one, 1e-12 * (1 + max(one))):
                bad.append('vectorised surface_measure {} differs from single-parameter values {}'.format(
                    many.tolist(), one))
            return bad
        st, bad = guarded(chk)
        for msg in ([st] if st != 'ok' else bad):
            ctx.violation('accessors {} det={}'.format(s['cls'], s.get('det', 'flat')), msg, desc)
        if s.get('cb0'):
            # check_bounds=False: parameters outside the partitions are accepted and the relations hold
            ctx.hit('accessors/check_bounds=False-outside')
            ang = (s['amax'] + 0.7,) * s['neul'] if s['cls'] == 'par3e' else s['amax'] + 0.7
            dp = s['dhi'] + 0.3 if ndim == 2 else (s['dhi'] + 0.3, s['vlo'] - 0.2)
            r = impl_point(s, g, ang, dp)
            tol = TOL * (1 + scale_of(s, g, 0.0 if isinstance(ang, tuple) else ang)) * 4
            for rel, msg in oracle_point(s, g, ang, dp, r, tol):
                ctx.violation('{} {} outside-partitions check_bounds=False'.format(rel, s['cls']), msg,
                              {'kind': 'point', 'spec': jsonable_spec(s), 'ang': ang, 'dp': dp})
    # None defaults handed to the constructors explicitly; transform_system passes None through
    ctx.hit('accessors/none-defaults')
    ap = odl.uniform_partition(0, 2 * np.pi, 6)
    d1 = odl.uniform_partition(-1, 1, 4)

    def nd():
        bad = []
        # (FanBeamGeometry(src_to_det_init=None) / Parallel2dGeometry(det_pos_init=None) are not documented
        # inputs: they raise IndexError inside transform_system, so conebeam.py l.206 / parallel.py l.450 are dead)
        r = U.transform_system([3.0, 4.0], [0.0, 1.0], [None, [1.0, 0.0]])
        if r[1] is not None or not close(r[2], [0.8, -0.6], 1e-12):
            bad.append('transform_system other_vecs with None: {}'.format(r))
        e2 = U.euler_matrix(0.3, None, 0.5)
        e3 = U.euler_matrix(0.3, 0.0, 0.5)
        e4 = U.euler_matrix(0.3, 0.4, None)
        if e2.shape != (3, 3) or not close(e2, e3, 0) or not close(e4, U.euler_matrix(0.3, 0.4, 0.0), 0):
            bad.append('euler_matrix with theta=None / psi=None is not the zero-angle matrix')
        return bad
    st, bad = guarded(nd)
    ctx.case(('accessors', 'none-defaults'))
    for msg in ([st] if st != 'ok' else bad):
        ctx.violation('accessors none-defaults', msg, {'kind': 'accessors-none'})


def run_getitem_fan(ctx, specs):
    """round 5: FanBeamGeometry constructor + __getitem__ against the model fanCtor / fanGetitem (the
    vectors the slice is built from: normalised src_to_det_init, given or re-derived detector axis,
    translation, radii, check_bounds), on top of the getitem oracle stream"""
    cases, lines = [], []
    for s in specs:
        if s['cls'] != 'fan' or s['how'] != 'ctor' or s.get('ndarray_args'):
            continue
        st, g = guarded(lambda: build(s))
        if st != 'ok':
            continue
        st, sl = guarded(lambda: g[1:4])
        desc = {'kind': 'getitem', 'spec': jsonable_spec(s), 'slice': '1:4'}
        if st != 'ok':
            ctx.violation('getitem fan raises', st, desc)
            continue
        given = s.get('s2d', [0.0, 1.0])
        lines.append('fangetitem s2d={} axis={} t={} rs={} rd={} cb={}'.format(
            vec(given), vec(s['axis_init']) if 'axis_init' in s else 'none', vec(g.translation),
            fs(g.src_radius), fs(g.det_radius), 'false' if s.get('cb0') else 'true'))
        cases.append((s, g, sl, desc))
    for (s, g, sl, desc), ans in zip(cases, core.run_driver('C19', lines)):
        ctx.case(variant_sig(s['cls'], s['how'], s['variant']) + ('getitem-fan-model',))
        ctx.hit('getitem/model/fan/' + ('axis-given' if 'axis_init' in s else 'axis-derived'))
        if 'delta' in s:
            ctx.hit('getitem/model/fan/near-default')

        def state(x):
            return (np.asarray(x.src_to_det_init, dtype=float), np.asarray(x.detector.axis, dtype=float),
                    np.asarray(x.translation, dtype=float), float(x.src_radius), float(x.det_radius),
                    bool(x.check_bounds))
        st, (sg, ss) = guarded(lambda: (state(g), state(sl)))
        toks = dict(t.split('=', 1) for t in ans.split()[1:]) if ans.startswith('ok') else {}

        def same(real, tok):
            f = tok.split('|')
            if len(f) != 6:
                return False
            return (close(real[0], core.pfl(f[0]), 4e-12) and close(real[1], core.pfl(f[1]), 4e-12)
                    and close(real[2], core.pfl(f[2]), 0) and real[3] == float(Fraction(f[3]))
                    and real[4] == float(Fraction(f[4])) and real[5] == (f[5] == 'true'))
        if st != 'ok' or not toks or not same(sg, toks.get('geom', '')) or not same(ss, toks.get('slice', '')):
            ctx.disagree(desc, str((sg, ss))[:600] if st == 'ok' else st, ans, stream='getitem-fan-model')


def stream(ctx, name, f, *a):
    """A stream must never take the harness down: an exception escaping the guarded calls
    (possible only when the real code returns something of an unexpected kind) is reported
    as a violation of that stream."""
    import traceback
    try:
        f(ctx, *a)
    except core.DriverBroken:
        raise
    except Exception as e:  # noqa
        ctx.violation('stream {} aborted: {}'.format(name, type(e).__name__),
                      traceback.format_exc()[-700:], {'kind': 'stream', 'name': name})


def run(ctx):
    ctx = Dedup(ctx)
    reps = 1 if ctx.quick else 4
    specs = make_specs(ctx, reps)
    stream(ctx, 'points', run_points, specs, 3 if ctx.quick else 6)
    vspecs = [s for s in specs if not s['variant'].get('ndarray_args')]
    if ctx.quick:
        # one geometry per (class, detector kind, construction)
        seen, keep = set(), []
        for s in vspecs:
            k = (s['cls'], s.get('det', 'flat'), s['how'], s.get('neul', 0), bool(s.get('ssh')))
            if k not in seen:
                seen.add(k)
                keep.append(s)
        vspecs = keep
    stream(ctx, 'vector', run_vector, vspecs)
    stream(ctx, 'getitem', run_getitem, specs)
    stream(ctx, 'frommatrix', run_frommatrix, specs)
    stream(ctx, 'factories', run_factories)
    stream(ctx, 'detectors', run_detectors)
    stream(ctx, 'fromto', run_fromto)
    stream(ctx, 'tsys', run_tsys)
    stream(ctx, 'helix', run_helix, specs)
    stream(ctx, 'axis_rotation', run_axis_rotation)
    stream(ctx, 'astra-vecs', run_astra_vecs, specs)
    stream(ctx, 'validation', run_validation)
    stream(ctx, 'accessors', run_accessors, specs)
    stream(ctx, 'getitem-fan-model', run_getitem_fan, specs)
    unhit = [b for b in MODEL_BRANCHES if not ctx.branches.get(b)]
    ctx.extra['unhit_model_branches'] = unhit
    if unhit:
        ctx.notes.append('model branches not exercised in this run: {}'.format(unhit))
        if not ctx.quick:
            ctx.violation('coverage: model branches not exercised', str(unhit), {'kind': 'coverage'})


# every branch of the model functions the driver executes (constructor of the inductive types,
# rotation kind, driver op, outcome); the harness must hit each of them in every run
MODEL_BRANCHES = (
    ['point/{}/ctor/flat'.format(c) for c in ('par2', 'par3a', 'par3e', 'fan', 'cone')]
    + ['point/{}/frommatrix/flat'.format(c) for c in ('par2', 'par3a', 'par3e', 'fan', 'cone')]
    + ['point/fan/ctor/circ', 'point/cone/ctor/cyl', 'point/cone/ctor/sph',
       'point/fan/frommatrix/circ', 'point/cone/frommatrix/cyl', 'point/cone/frommatrix/sph',
       'model/rot/euler2', 'model/rot/euler3(2 angles)', 'model/rot/euler3(3 angles)', 'model/rot/axis',
       'model/shifts/fan', 'model/shifts/cone', 'model/pitch',
       'construct/cone/rejects-parallel-src_to_det',
       'frame/par2', 'frame/fan', 'frame/par3a', 'frame/par3e', 'frame/cone', 'frame/opposite(oracle only)',
       'frame/near-default', 'frame/near-opposite', 'frame/opposite/tsys-model/par3a',
       'frame/opposite/tsys-model/par3e', 'frame/opposite/tsys-model/cone',
       'shape/ok', 'shape/err', 'shape/scalar-squeeze',
       'getitem/par2', 'getitem/par3a', 'getitem/fan', 'getitem/cone', 'getitem/par3e',
       'getitem/model/par2/ctor', 'getitem/model/par2/frommatrix', 'getitem/model/par3a/ctor-given',
       'getitem/model/par3a/ctor-derived', 'getitem/model/par3a/frommatrix', 'getitem/check_bounds=False',
       'factory/parallel/2d', 'factory/parallel/3d', 'factory/cone/2d', 'factory/cone/3d',
       'factory/helical/3d', 'factory/model/par', 'factory/model/fan', 'factory/model/coneh',
       'factory/model/helh']
    + ['factory/cone/3d/z-' + z for z in Z_PATTERNS]
    + ['detector/cyl', 'detector/sph', 'detector/circ', 'vector-m/rotation_matrix', 'vector-m/det_refpoint',
       'vector-m/src_position', 'vector-m/det_axis', 'vector-m/det_axes',
       'vector-m/outer-product/2-angles', 'vector-m/outer-product/3-angles']
    + ['fromto/' + n for n in ('3d/generic', '3d/same', '3d/opposite', '3d/in-band-same', '3d/in-band-opposite',
                               '3d/near-opposite', '3d/near-same', '3d/perp-ez-opposite', '3d/perp-ez-same',
                               '3d/zero', '3d/axis-aligned', '2d/generic', '2d/same', '2d/opposite',
                               '2d/orthogonal', '2d/zero', '2d/axis-aligned', 'model/raises', 'model/same',
                               'model/opposite', 'model/generic', 'model/2d', 'exact')]
    + ['tsys/{}d/{}'.format(n, c) for n in (2, 3) for c in (
        'generic', 'dilation', 'opposite', 'near-snapped', 'near-rotated', 'long-near', 'short-near',
        'short-given', 'zero-given',
        'zero-default', 'zero-both', 'tiny-given')]
    + ['tsys/model/raises', 'tsys/model/ident', 'tsys/model/rot']
    + ['helix/period', 'helix/period/shifts']
    + ['axis_rotation/single', 'axis_rotation/bulk', 'axis_rotation/single/shift', 'axis_rotation/bulk/shift']
    + ['astra-vec/' + c for c in ('fan', 'cone', 'par3a', 'par3e')]
    + ['validation/' + c for c in ('fan', 'cone', 'par2', 'par3a', 'par3e', 'factory', 'geometry', 'detector',
                                   'flat1d', 'flat2d', 'circ', 'cyl', 'sph', 'utility')]
    + ['accessors/' + c for c in ('par2', 'par3a', 'par3e', 'fan', 'cone', 'check_bounds=False-outside',
                                  'none-defaults')]
    + ['getitem/model/fan/axis-given', 'getitem/model/fan/axis-derived', 'getitem/model/fan/near-default'])


def search(ctx, broken):
    saved = ctx.tier
    ctx.tier = 'thorough'
    real = ctx
    ctx = Dedup(ctx)
    try:
        specs = make_specs(ctx, 3)
        stream(ctx, 'points', run_points, specs, 6)
        stream(ctx, 'vector', run_vector, [s for s in specs if not s['variant'].get('ndarray_args')][::3])
        stream(ctx, 'getitem', run_getitem, specs)
        stream(ctx, 'frommatrix', run_frommatrix, specs)
        stream(ctx, 'factories', run_factories)
        stream(ctx, 'detectors', run_detectors)
        stream(ctx, 'fromto', run_fromto)
        stream(ctx, 'tsys', run_tsys)
        stream(ctx, 'helix', run_helix, specs)
        stream(ctx, 'axis_rotation', run_axis_rotation)
        stream(ctx, 'astra-vecs', run_astra_vecs, specs)
        stream(ctx, 'validation', run_validation)
        stream(ctx, 'accessors', run_accessors, specs)
        stream(ctx, 'getitem-fan-model', run_getitem_fan, specs)
    finally:
        real.tier = saved


def replay(ctx, case):
    kind = case.get('kind')
    tmp = core.Ctx(ctx.pid, 'quick', ctx.seed)
    tmp.rng = ctx.rng
    if kind == 'point':
        s = case['spec']
        st, g = guarded(lambda: build(s))
        if st != 'ok':
            return 'constructor raised ' + st
        ang = tuple(case['ang']) if isinstance(case['ang'], list) else case['ang']
        dp = tuple(case['dp']) if isinstance(case['dp'], list) else case['dp']
        r = impl_point(s, g, ang, dp)
        bad = oracle_point(s, g, ang, dp, r, TOL * (1 + scale_of(s, g, 0.0)) * 4)
        return '; '.join('{}: {}'.format(a, b) for a, b in bad) if bad else None
    if kind == 'construct':
        s = case['spec']
        st, g = guarded(lambda: build(s))
        if st != 'ok':
            return 'constructor raised ' + st
        if s.get('det', 'flat') != 'flat':
            st, al = guarded(lambda: curved_alignment(g.detector))
            if st != 'ok' or not al[0]:
                return 'curved detector not aligned: {}'.format(al[1] if st == 'ok' else st)
        stfr, fr = guarded(lambda: oracle_frame(s, g))
        if stfr != 'ok' or fr:
            return '; '.join(fr) if stfr == 'ok' else stfr
        return None
    if kind == 'vector':
        s = case['spec']
        st, g = guarded(lambda: build(s))
        if st != 'ok':
            return 'constructor raised ' + st
        conv = lambda x: float(x) if not isinstance(x, list) else np.array(x, dtype=float)  # noqa
        m, d = case['m'], case['d']
        m = tuple(conv(x) for x in m) if s['cls'] == 'par3e' else conv(m)
        d = tuple(conv(x) for x in d) if s['cls'] not in ('par2', 'fan') else conv(d)
        _, _, problems = run_vector_case(s, g, m, d, case['mshapes'], case['dshapes'], case['method'])
        return '; '.join('{}: {}'.format(a, b) for a, b in problems) if problems else None
    if kind == 'getitem':
        sl = dict(SLICES)[case['slice']]
        problems, _, _ = run_getitem_case(case['spec'], case['slice'], sl)
        return '; '.join('{}: {}'.format(a, b) for a, b in problems) if problems else None
    if kind == 'frommatrix':
        run_frommatrix(tmp, [case['spec']])
        return '; '.join(v['what'] for v in tmp.violations) if tmp.violations else None
    if kind == 'detector':
        import odl
        from odl.tomo.geometry import detector as D
        if case['det'] == 'circ':
            det = D.CircularDetector(odl.uniform_partition(-1, 1, 4), axis=case['axes'][0], radius=1.5)
        else:
            klass = D.CylindricalDetector if case['det'] == 'cyl' else D.SphericalDetector
            det = klass(odl.uniform_partition([-1, -1], [1, 1], (4, 4)), axes=case['axes'], radius=2.5)
        st, al = guarded(lambda: curved_alignment(det))
        return None if st == 'ok' and al[0] else str(al[1] if st == 'ok' else st)
    if kind == 'getitem3e':
        st, g = guarded(lambda: build(case['spec']))
        st2, _ = guarded(lambda: g[1:3])
        return None if st2 == 'ok' else st2
    if kind == 'vector-m':
        s = case['spec']
        st, g = guarded(lambda: build(s))
        if st != 'ok':
            return 'constructor raised ' + st
        motion_only(tmp, s, g, s.get('neul', 1) if s['cls'] == 'par3e' else 1, 2 if s['cls'] in ('par2', 'fan') else 3)
        return '; '.join(v['what'] for v in tmp.violations) if tmp.violations else None
    if kind == 'fromto':
        from odl.tomo.util.utility import rotation_matrix_from_to
        st, R = guarded(lambda: rotation_matrix_from_to(np.array(case['u'], dtype=float),
                                                        np.array(case['v'], dtype=float)))
        bad = fromto_oracle(case['u'], case['v'], st, R)
        return '; '.join(bad) if bad else None
    if kind == 'validation':
        for nm, f, exc in validation_cases():
            if nm == case['name']:
                st, r = guarded(f)
                ok = any(st.startswith('err:' + e.__name__ + ':') for e in exc)
                return None if ok else 'expected {} got {}'.format('/'.join(e.__name__ for e in exc), st[:300])
        return None
    if kind == 'axrot':
        from odl.tomo.util.utility import axis_rotation
        st, r = guarded(lambda: np.asarray(axis_rotation(case['axis'], case['ang'], case['v'],
                                                         axis_shift=case['shift']), dtype=float)[0])
        if st != 'ok':
            return st
        bad = axrot_oracle(case['axis'], case['ang'], case['shift'], case['v'], r)
        return '; '.join(bad) if bad else None
    if kind == 'astra':
        tmp2 = core.Ctx(ctx.pid, 'thorough', ctx.seed)
        run_astra_vecs(tmp2, [case['spec']])
        return '; '.join(v['what'] for v in tmp2.violations) if tmp2.violations else None
    if kind in ('accessors', 'accessors-none'):
        tmp2 = core.Ctx(ctx.pid, 'thorough', ctx.seed)
        run_accessors(tmp2, [case['spec']] if 'spec' in case else [])
        return '; '.join(v['what'] for v in tmp2.violations) if tmp2.violations else None
    if kind == 'tsys':
        from odl.tomo.util.utility import transform_system
        st, r = guarded(lambda: transform_system(np.array(case['p'], dtype=float), np.array(case['d'], dtype=float),
                                                 [row for row in np.eye(len(case['d']))]))
        bad = tsys_oracle(case['d'], case['p'], st, r)
        return '; '.join(bad) if bad else None
    if kind == 'helix':
        s = case['spec']
        st, g = guarded(lambda: build(s))
        if st != 'ok':
            return 'constructor raised ' + st
        bad = helix_oracle(s, g, case['ang'], tuple(case['dp']),
                           np.asarray(g.pitch * np.asarray(g.axis, dtype=float)))
        return '; '.join(bad) if bad else None
    if kind == 'factory':
        return 'factory cases are regenerated from the seed; rerun ./check C19'
    return None
