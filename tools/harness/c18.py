"""C18 — Fourier and wavelet transforms invert exactly and agree across back-ends.

Tie to /repo:
  (T) tools/extract/waveletpad.py regenerates Gen/WaveletPad.lean from the live
      PAD_MODES_ODL2PYWT table (and the installed PyWavelets' mode list);
      tools/extract/recipgrid.py regenerates Gen/RecipGrid.lean (half-complex rmax table of
      reciprocal_grid, fmin/fmax table of dft_postprocess_data) from the source AST.
  (C) reciprocal_grid / realspace_grid / dft_preprocess_data / dft_postprocess_data,
      DiscreteFourierTransform(Inverse) (numpy and pyfftw), FourierTransform(Inverse) (numpy
      and pyfftw values and exception status), pywt_pad_mode, precompute_raveled_slices, the crop rule and the
      adjoint scaling are run on the real code and through lean/Drivers/C18.lean on the same
      inputs; exact comparison where float arithmetic is exact (grids' shapes, (-1)^k factors,
      axis lengths 1/2/4 with integer data, slices), DESIGN §4 tolerance otherwise.
      Round 4: the `adjoint` property of the plain DFT operators (model dftAdjointNd, op `dftadj`:
      values, NotImplementedError for exponents != 2, and the ratio N of C18.dft_true_adjoint between
      <op u, v> and <u, op.adjoint v>) and the default-range construction (op `dftrangector`:
      status and per-axis extent of op.range; one-point axes, /repo fix 02139e2).
ORACLE (independent of the model, on the real code): numpy.fft on the raw arrays, the direct
O(n^2) sum of the Fourier integral discretisation, inverse(forward(x)) = x, numpy vs pyfftw,
in-place vs out-of-place, plan/temporary reuse, stride = 2π/(n s), prefix property of the
half-complex grid, W^-1(W(x)) = x, layout of W(x) against pywt.wavedecn with the DOCUMENTED
mode table, adjoint identity; DFT adjoint: exposed for exponent 2, equal to op.inverse (as
documented) and op.adjoint(op(u)) = u.  Gaussian convergence is a labelled TEST.
"""
import itertools
import warnings
from fractions import Fraction

import numpy as np

from vf import core
from vf.core import fs
from extract import waveletpad as extract_waveletpad
from extract import recipgrid as extract_recipgrid

RULE = ('grids: n x shift x halfcomplex x stride; factors: n x shift x sign; DFT/FT: ndim x shape '
        '(even/odd) x axes subset x halfcomplex x per-axis shift x sign x dtype x impl x direction; '
        'wavelets: family x nlevels x pad mode x shape x axes x dtype.  A case is non-trivial when '
        'the transformed data is not constant; distinct = distinct (kind, ndim, parity pattern of '
        'the transformed axes, axes, halfcomplex, shifts, sign, dtype, impl, direction / wavelet, '
        'level, mode, shape parity) signatures.')
TRUSTED = ['translator tools/extract/waveletpad.py (PAD_MODES_ODL2PYWT, pywt.Modes.modes -> '
           'Gen/WaveletPad.lean)',
           'translator tools/extract/recipgrid.py (AST of reciprocal_grid / dft_postprocess_data case '
           'tables -> Gen/RecipGrid.lean)',
           'numpy.fft / pyFFTW: specification = naive sum over a primitive root of unity '
           '(compared on every case, not verified)',
           'PyWavelets wavedecn/waverecn/ravel_coeffs/unravel_coeffs (parameter of the model)']
ASSUMPTIONS = ['floating-point rounding is outside the model: exact comparison only where the '
               'arithmetic is exact (axis lengths 1, 2, 4 with small integer data; (-1)^k '
               'factors; shapes; slices), tolerance 1e-9*scale+1e-12 (float64) / 1e-4*scale '
               '(float32) elsewhere',
               'PyWavelets perfect reconstruction and orthogonality of wavedecn in periodization '
               'mode on sizes divisible by 2^level are assumptions (measured on every run)',
               'convergence of the FT approximation to the analytic Gaussian is measured, not '
               'proved (labelled test)',
               'n-d transforms: the identification of NumPy axis operations with fibre-wise 1-d '
               'maps is modelled, not verified']
KNOWN_EXPLAINS_DISAGREEMENT = False

PI = np.pi
# the naming-convention table of the WaveletTransform docstring (ODL -> PyWavelets); the code
# spells the periodization mode 'pywt_periodic' (doctests) although the prose says 'pywt_per'
DOCUMENTED_MODES = {'symmetric': 'symmetric', 'reflect': 'reflect', 'order1': 'smooth',
                    'order0': 'constant', 'constant': 'zero', 'periodic': 'periodic',
                    'pywt_periodic': 'periodization', 'antisymmetric': 'antisymmetric',
                    'antireflect': 'antireflect'}


def _odl():
    with warnings.catch_warnings():
        warnings.simplefilter('ignore')
        import odl
    return odl


# --------------------------------------------------------------------------
# wire helpers

def cs(z):
    z = complex(z)
    return fs(z.real) if z.imag == 0 else fs(z.real) + ':' + fs(z.imag)


def cl(arr):
    flat = np.asarray(arr).ravel(order='C')
    if flat.size == 0:
        return '-'
    if np.iscomplexobj(flat):
        return ','.join(cs(z) for z in flat.tolist())
    return ','.join(fs(z) for z in flat.tolist())


def nl(xs):
    xs = list(xs)
    return ','.join(str(int(x)) for x in xs) if xs else '-'


def parse_c(tok):
    if ':' in tok:
        a, b = tok.split(':')
        return complex(float(core.pfrac(a)), float(core.pfrac(b)))
    return complex(float(core.pfrac(tok)), 0.0)


def parse_cx(tok):
    """exact (re, im) Fractions"""
    if ':' in tok:
        a, b = tok.split(':')
        return (core.pfrac(a), core.pfrac(b))
    return (core.pfrac(tok), Fraction(0))


def fields(ans):
    return dict(t.split('=', 1) for t in ans.split()[1:] if '=' in t)


def tol_for(dtype, scale):
    dt = np.dtype(dtype)
    if dt in (np.dtype('float32'), np.dtype('complex64')):
        return 2e-4 * scale + 1e-5
    return 1e-9 * scale + 1e-12


def exc_kind(e):
    n = type(e).__name__
    if n == 'AssertionError':
        return 'err:assert'
    if 'UFuncTypeError' in n or 'Cannot cast' in str(e):
        return 'err:cast'
    if 'could not broadcast' in str(e):
        return 'err:shape'
    if n == 'ValueError':
        return 'err:value'
    return 'err:' + n


def safe(f):
    """Run a call into the real code; never let an exception escape."""
    try:
        with warnings.catch_warnings():
            warnings.simplefilter('ignore')
            return f(), None
    except Exception as e:  # noqa
        return None, e


def viol(ctx, key, what, replay):
    """ctx.violation, at most 3 reports per failing-input class (key without the free
    parameters), so that one class cannot crowd the others out of the report."""
    import re
    cls = re.sub(r'(sign|dtype|ndim|nlevels|shape|n)=[^ ]*|axes=(\([^)]*\)|None)', '', key)
    cnt = ctx.extra.setdefault('violation_classes', {})
    cnt[cls] = cnt.get(cls, 0) + 1
    if cnt[cls] <= 3:
        ctx.violation(key, what, replay)


class Batch:
    """Collect (line, callback) pairs, run the driver once."""

    def __init__(self, ctx):
        self.ctx, self.lines, self.cbs = ctx, [], []

    def add(self, line, cb):
        self.lines.append(line)
        self.cbs.append(cb)

    def flush(self):
        if not self.lines:
            return
        outs = core.run_driver('C18', self.lines)
        for line, cb, ans in zip(self.lines, self.cbs, outs):
            try:
                cb(ans)
            except Exception as e:  # a malformed answer is a disagreement, not a crash
                self.ctx.disagree({'line': line[:300]}, 'harness could not interpret', ans[:200]
                                  + ' / ' + repr(e))
        self.lines, self.cbs = [], []


def documented_recip_axis(n, s, shift, hc):
    """(min, stride, shape) of one transformed axis by the DOCUMENTED formula of reciprocal_grid:
    stride 2pi/(n s); xi0 = -pi/s (shifted) or -pi/s*(1 - 1/n) (symmetric); half-complex keeps
    the first n//2+1 nodes."""
    xi0 = -PI / s if shift else -PI / s * (1 - 1.0 / n)
    return xi0, 2 * PI / (n * s), (n // 2 + 1 if hc else n)


def grid_axis_problem(rg, ax, n, s, shift, hc):
    """ORACLE: one axis of a reciprocal grid against the documented formula; None if it agrees."""
    xi0, sig, m = documented_recip_axis(n, s, shift, hc)
    if rg.shape[ax] != m:
        return 'axis {}: shape {} != {}'.format(ax, rg.shape[ax], m)
    ref = xi0 + np.arange(m) * sig
    dev = float(np.max(np.abs(rg.coord_vectors[ax] - ref)))
    if dev > 1e-12 * PI / s:
        return ('axis {} (n={}, shift={}, halved={}): nodes deviate from xi0 + j*2pi/(n s) by {:.3g} '
                '(= {:.3g} strides); got [{:.6g} .. {:.6g}], documented [{:.6g} .. {:.6g}]'.format(
                    ax, n, shift, hc, dev, dev / sig, rg.coord_vectors[ax][0],
                    rg.coord_vectors[ax][-1], ref[0], ref[-1]))
    return None


# --------------------------------------------------------------------------
# A. grids

def grid_cases(ctx):
    ns = list(range(1, 13)) if ctx.quick else list(range(1, 34)) + [64, 101, 128]
    for n in ns:
        for shift in (True, False):
            for hc in (False, True):
                s = ctx.rng.choice([0.25, 0.5, 1.0, 2.0, 0.1, 1.0 / 3, 0.7])
                x0 = ctx.rng.choice([-1.0, 0.0, 0.375, -2.5, 0.3])
                yield n, shift, hc, s, x0


def run_grids(ctx, B):
    odl = _odl()
    from odl.trafos.util.ft_utils import reciprocal_grid, realspace_grid
    for n, shift, hc, s, x0 in grid_cases(ctx):
        desc = {'kind': 'recip_grid', 'n': n, 'shift': shift, 'hc': hc, 's': s, 'x0': x0}
        key = 'reciprocal_grid n={} ({}) shift={} halfcomplex={}'.format(
            n, 'odd' if n % 2 else 'even', shift, hc)
        if n == 1:
            grid = odl.uniform_grid(x0, x0, 1)
            s_eff = 1.0
        else:
            grid = odl.uniform_grid(x0, x0 + (n - 1) * s, n)
            s_eff = float(grid.stride[0])
        rg, e = safe(lambda: reciprocal_grid(grid, shift=shift, halfcomplex=hc))
        full, e2 = safe(lambda: reciprocal_grid(grid, shift=shift, halfcomplex=False))
        ctx.case(('grid', n % 2, min(n, 3), shift, hc), sample=desc if n == 5 else None)
        ctx.hit('recip/{}/{}/{}'.format('odd' if n % 2 else 'even', 'shift' if shift else 'noshift',
                                        'hc' if hc else 'full'))
        if e is not None or e2 is not None:
            viol(ctx, key, 'raised {!r}'.format(e or e2), desc)
            continue
        unit = PI / s_eff
        # ORACLE: documented properties of the reciprocal grid
        probs = []
        if n >= 2:
            if abs(full.stride[0] - 2 * PI / (n * s_eff)) > 1e-12 * unit:
                probs.append('stride {} != 2pi/(n s) = {}'.format(full.stride[0], 2 * PI / (n * s_eff)))
            if full.shape != (n,):
                probs.append('full shape {}'.format(full.shape))
            if shift and abs(full.min_pt[0] + unit) > 1e-12 * unit:
                probs.append('shifted grid does not start at -pi/s')
            if not shift and abs(full.min_pt[0] + full.max_pt[0]) > 1e-12 * unit:
                probs.append('non-shifted grid is not symmetric around 0')
        if hc:
            m = n // 2 + 1
            if rg.shape != (m,):
                probs.append('half-complex shape {} != n//2+1 = {}'.format(rg.shape, m))
            else:
                d = np.max(np.abs(rg.coord_vectors[0] - full.coord_vectors[0][:m]))
                if d > 1e-12 * unit:
                    probs.append('half-complex grid is not the prefix of the full grid: max '
                                 'deviation {:.3g} (units pi/s: {:.3g})'.format(d, d / unit))
        # realspace roundtrip
        if n >= 2:
            back, e3 = safe(lambda: realspace_grid(rg, grid.min_pt, halfcomplex=hc,
                                                   halfcx_parity='odd' if n % 2 else 'even'))
            if e3 is not None:
                probs.append('realspace_grid raised {!r}'.format(e3))
            elif back.shape != grid.shape or \
                    np.max(np.abs(back.coord_vectors[0] - grid.coord_vectors[0])) > 1e-12 * max(1, abs(x0) + n * s_eff):
                probs.append('realspace_grid(reciprocal_grid(g)) != g: shape {} stride {}'.format(
                    back.shape, back.stride))
        if probs:
            viol(ctx, key, '; '.join(probs)[:500], desc)

        def cb(ans, rg=rg, desc=desc, unit=unit, n=n, hc=hc, grid=grid):
            if not ans.startswith('ok '):
                ctx.disagree(desc, 'ok', ans)
                return
            f = fields(ans)
            impl = (rg.min_pt[0] / unit, rg.max_pt[0] / unit, rg.shape[0],
                    (rg.stride[0] / unit) if rg.shape[0] > 1 else 0.0)
            model = (float(core.pfrac(f['min'])), float(core.pfrac(f['max'])), int(f['shape']),
                     float(core.pfrac(f['stride'])))
            if impl[2] != model[2] or any(abs(a - b) > 1e-13 for a, b in
                                          zip(impl[:2] + impl[3:], model[:2] + model[3:])):
                ctx.disagree(desc, 'min,max,shape,stride (units pi/s) = {}'.format(impl),
                             str(model))
        B.add('recip n={} shift={} hc={}'.format(n, int(shift), int(hc)), cb)
        if n >= 2:
            back, e3 = safe(lambda: realspace_grid(rg, grid.min_pt, halfcomplex=hc,
                                                   halfcx_parity='odd' if n % 2 else 'even'))

            def cb2(ans, back=back, e3=e3, desc=desc, s_eff=s_eff):
                if e3 is not None:
                    ctx.disagree(desc, 'realspace_grid raised', ans)
                    return
                f = fields(ans)
                if int(f['shape']) != back.shape[0] or \
                        abs(float(core.pfrac(f['stride'])) - back.stride[0] / s_eff) > 1e-12:
                    ctx.disagree(desc, 'realspace shape {} stride/s {}'.format(
                        back.shape, back.stride[0] / s_eff), ans)
            B.add('real m={} hc={} odd={} rstride={}'.format(
                rg.shape[0], int(hc), n % 2, fs(Fraction(2, n))), cb2)
    # multi-axis: per-axis shift lists and axes subsets leave other axes alone
    nd_cases = [((4, 5), (0, 1), (True, False), False),
                ((4, 5), (1,), (False,), False),
                ((3, 4, 5), (0, 2), (False, True), True),
                ((5, 4), (1, 0), (True, False), True),
                ((3, 6), (0, 1), (False, True), True)]
    # every axes subset/order x per-axis shift mix x halfcomplex on 2-d and 3-d grids with mixed
    # parities; in particular subsets that leave out the LAST array axis, and orders whose
    # last transformed axis is not the last array axis
    for shape in ((4, 5), (5, 4), (3, 4, 5), (4, 3, 2)):
        for axes in axes_subsets(len(shape)):
            for shifts in itertools.product((True, False), repeat=len(axes)):
                for hc in (False, True):
                    nd_cases.append((shape, axes, shifts, hc))
    if ctx.quick:
        extra = nd_cases[5:]
        ctx.rng.shuffle(extra)
        must = [c for c in extra if c[3] and (len(c[0]) - 1) not in c[1]]
        nd_cases = nd_cases[:5] + must + extra[:60]
    for shape, axes, shifts, hc in nd_cases:
        grid = odl.uniform_grid([0.5] * len(shape), [0.5 + (k - 1) * 0.5 for k in shape], shape)
        rg, e = safe(lambda: reciprocal_grid(grid, shift=shifts, axes=axes, halfcomplex=hc))
        desc = {'kind': 'recip_grid_nd', 'shape': shape, 'axes': axes, 'shifts': shifts, 'hc': hc}
        ctx.case(('gridnd', shape, axes, shifts, hc))
        if e is not None:
            viol(ctx, 'reciprocal_grid nd axes={} shifts={} hc={}'.format(axes, shifts, hc),
                          repr(e), desc)
            continue
        for ax in range(len(shape)):
            if ax not in axes:
                if rg.shape[ax] != shape[ax] or abs(rg.min_pt[ax] - grid.min_pt[ax]) > 0:
                    viol(ctx, 'reciprocal_grid nd untouched axis', 'axis {} changed'.format(ax), desc)
                continue
            sh = shifts[list(axes).index(ax)]
            h = hc and ax == axes[-1]
            pr = grid_axis_problem(rg, ax, shape[ax], 0.5, sh, h)
            if pr is not None:
                viol(ctx, 'reciprocal_grid nd axes={} shifts={} halfcomplex={} {}'.format(
                    axes, shifts, hc, 'last-array-axis-transformed' if (len(shape) - 1) in axes
                    else 'last-array-axis-not-transformed'), pr, desc)

            def cb(ans, rg=rg, ax=ax, desc=desc):
                f = fields(ans)
                unit = PI / 0.5
                impl = (rg.min_pt[ax] / unit, rg.max_pt[ax] / unit, rg.shape[ax])
                model = (float(core.pfrac(f['min'])), float(core.pfrac(f['max'])), int(f['shape']))
                if impl[2] != model[2] or abs(impl[0] - model[0]) > 1e-13 or abs(impl[1] - model[1]) > 1e-13:
                    ctx.disagree(dict(desc, axis=ax), str(impl), str(model))
            B.add('recip n={} shift={} hc={}'.format(shape[ax], int(sh), int(h)), cb)


# --------------------------------------------------------------------------
# B. pre/post-processing factors

def run_factors(ctx, B):
    odl = _odl()
    from odl.trafos.util.ft_utils import (dft_preprocess_data, dft_postprocess_data,
                                          reciprocal_grid)
    ns = list(range(1, 10)) if ctx.quick else list(range(1, 20)) + [32, 33]
    for n in ns:
        for shift in (True, False):
            for sign in ('-', '+'):
                s = ctx.rng.choice([0.25, 0.5, 1.0, 0.3])
                x0 = ctx.rng.choice([-1.0, 0.375, -0.7, 0.0])
                desc = {'kind': 'factors', 'n': n, 'shift': shift, 'sign': sign, 's': s, 'x0': x0}
                key = 'dft_preprocess_data n={} shift={} sign={}'.format(n, shift, sign)
                ctx.case(('pre', n % 2, min(n, 3), shift, sign))
                ctx.hit('pre/{}'.format('shift' if shift else 'noshift'))
                p, e = safe(lambda: dft_preprocess_data(np.ones(n, dtype=complex), shift=shift,
                                                        sign=sign))
                if e is not None:
                    viol(ctx, key, repr(e), desc)
                    continue
                grid = odl.uniform_grid(x0, x0 + (n - 1) * s, n) if n > 1 else odl.uniform_grid(x0, x0, 1)
                s_eff = float(grid.stride[0]) if n > 1 else 1.0
                rg = reciprocal_grid(grid, shift=shift)
                sg = -1.0 if sign == '-' else 1.0
                # ORACLE: documented p[k] = exp(+-i k s xi[0])
                ref = np.exp(sg * 1j * np.arange(n) * s_eff * rg.min_pt[0])
                if np.max(np.abs(p - ref)) > 1e-12 * max(1, n):
                    viol(ctx, key, 'pre-processing factor != exp(sign*i*k*s*xi0): got {} '
                                  'expected {}'.format(p[:4], ref[:4]), desc)

                def cb(ans, p=p, desc=desc, shift=shift):
                    q = core.pfl(fields(ans)['q'])
                    if shift:
                        impl = [cs(z) for z in p.tolist()]
                        model = ['1' if v == 0 else '-1' if v == 1 else '?' for v in q]
                        if impl != model:
                            ctx.disagree(desc, impl[:8], model[:8])
                    else:
                        m = np.exp(1j * PI * np.array([float(v) for v in q]))
                        if np.max(np.abs(m - p)) > 1e-12 * max(1, len(q)):
                            ctx.disagree(desc, str(p[:4]), str(m[:4]))
                B.add('pre n={} shift={} plus={}'.format(n, int(shift), int(sign == '+')), cb)
                # real input + shift: stays real, in place allowed
                if shift:
                    r, e = safe(lambda: dft_preprocess_data(np.ones(n), shift=True, sign=sign))
                    if e is not None or r.dtype != np.dtype('float64') or \
                            not np.array_equal(r, np.where(np.arange(n) % 2, -1.0, 1.0)):
                        viol(ctx, key + ' real input', 'expected real (-1)^k, got {!r}'.format(
                            e if e is not None else r[:4]), desc)
                # post-processing: phase and kernel
                # (a one-point axis has grid stride 0: the kernel factor s*sinc/sqrt(2pi) vanishes
                # and the FT of such an axis is identically 0 -- degenerate, outside C18)
                for hc in (((False, True) if shift else (False,)) if n >= 2 else ()):
                    for interp, op in (('nearest', 'multiply'), ('linear', 'multiply'),
                                       ('nearest', 'divide')):
                        rgh = reciprocal_grid(grid, shift=shift, halfcomplex=hc)
                        m = rgh.shape[0]
                        q, e = safe(lambda: dft_postprocess_data(
                            np.ones(m, dtype=complex), grid, rgh, [shift], [0], interp,
                            sign=sign, op=op))
                        key2 = 'dft_postprocess_data n={} shift={} hc={} interp={} op={}'.format(
                            n, shift, hc, interp, op)
                        ctx.case(('post', n % 2, min(n, 3), shift, hc, sign, interp, op))
                        if e is not None:
                            viol(ctx, key2, repr(e), desc)
                            continue
                        xi = rgh.coord_vectors[0]
                        ker = s_eff * np.sinc(xi * s_eff / (2 * PI)) ** (2 if interp == 'linear' else 1) \
                            / np.sqrt(2 * PI)
                        ref = np.exp(sg * 1j * grid.min_pt[0] * xi) * (ker if op == 'multiply' else 1 / ker)
                        if np.max(np.abs(q - ref)) > 1e-11 * max(1.0, np.max(np.abs(ref))):
                            viol(ctx, key2, 'post-processing factor != exp(sign*i*x0*xi) * '
                                          '(s*sinc(xi*s/2pi)^p/sqrt(2pi))^(+-1): max dev {:.3g}'.format(
                                              np.max(np.abs(q - ref))), desc)

                        def cb3(ans, q=q, desc=dict(desc, hc=hc, interp=interp, op=op), interp=interp,
                                op=op, s_eff=s_eff):
                            fr = np.array([float(v) for v in core.pfl(fields(ans)['f'])])
                            ker = s_eff * np.sinc(fr) ** (2 if interp == 'linear' else 1) / np.sqrt(2 * PI)
                            mod = ker if op == 'multiply' else 1 / ker
                            if len(fr) != len(q) or np.max(np.abs(np.abs(q) - np.abs(mod))) > \
                                    1e-11 * max(1.0, np.max(np.abs(mod))):
                                ctx.disagree(desc, 'abs(post factor) = {}'.format(np.abs(q)[:4]),
                                             'kernel at model freqs = {}'.format(np.abs(mod)[:4]))
                        B.add('freqs n={} len={} shift={}'.format(n, m, int(shift)), cb3)


def run_factors_nd(ctx, B):
    """dft_preprocess_data / dft_postprocess_data on n-d arrays: every per-axis shift tuple x axes
    subset (incl. orders) x sign on shapes with equal AND unequal lengths, against (oracle) the
    documented per-axis factors exp(sign*i*k*s*xi0) resp. exp(sign*i*x0*xi)*kernel and (model) the
    outer product of the model's per-axis exponents."""
    odl = _odl()
    from odl.trafos.util.ft_utils import (dft_preprocess_data, dft_postprocess_data,
                                          reciprocal_grid)
    shapes = [(3, 3), (4, 4), (2, 3), (3, 3, 3), (4, 2, 4)] if ctx.quick else EQUAL_SHAPES + [(2, 3), (5, 4, 3)]
    for shape in shapes:
        nd = len(shape)
        grid = odl.uniform_grid([0.25] * nd, [0.25 + (k - 1) * 0.5 for k in shape], shape)
        for axes in axes_subsets(nd):
            for shifts in itertools.product((True, False), repeat=len(axes)):
                for sign in ('-', '+'):
                    sg = -1.0 if sign == '-' else 1.0
                    desc = {'kind': 'factors_nd', 'shape': shape, 'axes': axes, 'shifts': shifts,
                            'sign': sign}
                    mix = mixed_equal(shape, axes, shifts)
                    cls = 'mixed-shift-equal-lengths' if mix else (
                        'mixed-shift' if len(set(shifts)) > 1 else 'uniform-shift')
                    ctx.case(('pre_nd', shape, axes, shifts, sign))
                    ctx.hit('factors_nd/' + cls)
                    if mix:
                        ctx.hit('factors/mixed shift + equal lengths')
                    key = 'dft_preprocess_data nd axes={} shifts={} sign={} {}'.format(
                        axes, shifts, sign, cls)
                    p, e = safe(lambda: dft_preprocess_data(np.ones(shape, dtype=complex), shift=shifts,
                                                            axes=axes, sign=sign))
                    if e is not None:
                        viol(ctx, key, repr(e)[:300], desc)
                        continue
                    ref = np.ones(shape, dtype=complex)
                    for ax, sh in zip(axes, shifts):
                        n = shape[ax]
                        xi0, _, _ = documented_recip_axis(n, 0.5, sh, False)
                        f1 = np.exp(sg * 1j * np.arange(n) * 0.5 * xi0)
                        ref = ref * f1.reshape([n if a == ax else 1 for a in range(nd)])
                    if np.max(np.abs(p - ref)) > 1e-11:
                        i = np.unravel_index(int(np.argmax(np.abs(p - ref))), shape)
                        viol(ctx, key, 'pre-processing factor at index {} is {} but the documented '
                             'prod_axes exp(sign*i*k*s*xi0) is {}'.format(i, p[i], ref[i]), desc)
                    # model: exponents per axis
                    answers = {}

                    def finish(p=p, desc=desc, axes=axes, answers=answers, shape=shape, nd=nd):
                        m = np.ones(shape, dtype=complex)
                        for ax in axes:
                            q = np.array([float(v) for v in answers[ax]])
                            m = m * np.exp(1j * PI * q).reshape([len(q) if a == ax else 1 for a in range(nd)])
                        if np.max(np.abs(m - p)) > 1e-11:
                            ctx.disagree(desc, 'n-d pre-processing factors ' + str(p.ravel()[:4]),
                                         'outer product of the model factors ' + str(m.ravel()[:4]))
                    for idx, (ax, sh) in enumerate(zip(axes, shifts)):
                        def cb(ans, ax=ax, last=(idx == len(axes) - 1), answers=answers, finish=finish):
                            answers[ax] = core.pfl(fields(ans)['q'])
                            if last:
                                finish()
                        B.add('pre n={} shift={} plus={}'.format(shape[ax], int(sh), int(sign == '+')), cb)
                    # post-processing on the full reciprocal grid
                    rg, e = safe(lambda: reciprocal_grid(grid, shift=shifts, axes=axes))
                    q, e2 = safe(lambda: dft_postprocess_data(np.ones(rg.shape, dtype=complex), grid, rg,
                                                              shifts, axes, 'nearest', sign=sign))
                    key2 = 'dft_postprocess_data nd axes={} shifts={} sign={} {}'.format(
                        axes, shifts, sign, cls)
                    if e is not None or e2 is not None:
                        viol(ctx, key2, repr(e or e2)[:300], desc)
                        continue
                    ref = np.ones(shape, dtype=complex)
                    for ax, sh in zip(axes, shifts):
                        n = shape[ax]
                        xi0, sig, _ = documented_recip_axis(n, 0.5, sh, False)
                        xi = xi0 + np.arange(n) * sig
                        f1 = np.exp(sg * 1j * grid.min_pt[ax] * xi) * 0.5 * np.sinc(xi * 0.5 / (2 * PI)) / np.sqrt(2 * PI)
                        ref = ref * f1.reshape([n if a == ax else 1 for a in range(nd)])
                    if np.max(np.abs(q - ref)) > 1e-11:
                        i = np.unravel_index(int(np.argmax(np.abs(q - ref))), shape)
                        viol(ctx, key2, 'post-processing factor at index {} is {} but the documented '
                             'value is {}'.format(i, q[i], ref[i]), desc)


# --------------------------------------------------------------------------
# C. plain DFT operators

SHAPES_1D = [(n,) for n in range(2, 10)]
SHAPES_2D = [(2, 4), (4, 4), (3, 4), (4, 3), (5, 3), (2, 7), (6, 5), (9, 2), (8, 9)]
SHAPES_3D = [(2, 3, 4), (4, 2, 3), (3, 3, 3), (2, 4, 5), (5, 2, 2), (4, 4, 2)]


def axes_subsets(ndim):
    out = []
    for r in range(1, ndim + 1):
        for c in itertools.permutations(range(ndim), r):
            if list(c) == sorted(c) or (r == 2 and ndim >= 2):
                out.append(tuple(c))
    return out


def dft_configs(ctx):
    rng = ctx.rng
    cfgs = []
    for shape in SHAPES_1D + SHAPES_2D + SHAPES_3D:
        for axes in axes_subsets(len(shape)):
            for dt in ('float32', 'float64', 'complex64', 'complex128'):
                for hc in (False, True):
                    if hc and dt.startswith('complex'):
                        continue
                    for sign in ('-', '+'):
                        if hc and sign == '+':
                            continue
                        for impl in ('numpy', 'pyfftw'):
                            cfgs.append((shape, axes, dt, hc, sign, impl))
    rng.shuffle(cfgs)
    # one-point axes, transformed or not (default range: /repo fix 02139e2), full oracle + model
    onept = [((1,), (0,)), ((1, 4), (0, 1)), ((1, 4), (1,)), ((4, 1), (0, 1)), ((4, 1, 2), (0, 2)),
             ((4, 1, 2), (1,)), ((3, 1), (1, 0))]
    extra = [(sh, ax, dt, hc, '-', impl) for sh, ax in onept for dt in ('float64', 'complex128')
             for hc in (False, True) if not (hc and dt == 'complex128') for impl in ('numpy', 'pyfftw')]
    extra += [(sh, ax, 'complex128', False, '+', 'numpy') for sh, ax in onept]
    if ctx.quick:
        rng.shuffle(extra)
        extra = extra[:16]
    cfgs = extra + cfgs
    if ctx.quick:
        keep = {}
        for c in cfgs:
            shape, axes, dt, hc, sign, impl = c
            par = tuple(shape[a] % 2 for a in axes)
            k = (len(shape), par[-1], len(axes), hc, sign, impl, dt[0])
            if len(keep.setdefault(k, [])) < 2:
                keep[k].append(c)
        cfgs = [c for v in keep.values() for c in v] + [c for c in extra if c not in
                                                         [d for v in keep.values() for d in v]]
        # every 1-d length with halfcomplex, both back-ends (the odd/even inverse table)
        cfgs += [((n,), (0,), 'float64', True, '-', impl) for n in range(2, 10)
                 for impl in ('numpy', 'pyfftw')]
    else:
        cfgs = cfgs[:2600]
    return cfgs


def rand_array(rng, shape, dt, small=True):
    n = int(np.prod(shape))
    a = np.array([rng.randint(-6, 6) for _ in range(n)], dtype=float)
    if np.dtype(dt).kind == 'c':
        a = a + 1j * np.array([rng.randint(-6, 6) for _ in range(n)], dtype=float)
    if not small:
        a = a * 0.1 + 0.3
    return a.reshape(shape).astype(dt)


def np_reference_dft(x, axes, sign, hc):
    """numpy.fft on the raw array; sign '+' through conjugation (no normalisation involved)."""
    if hc:
        return np.fft.rfftn(x, axes=axes)
    if sign == '-':
        return np.fft.fftn(x, axes=axes)
    return np.conj(np.fft.fftn(np.conj(x), axes=axes))


def exact_ok(shape, axes):
    return all(shape[a] in (1, 2, 4) for a in axes)


def compare_arr(ctx, desc, impl_arr, ans, dtype, exact, what):
    if not ans.startswith('ok '):
        ctx.disagree(desc, '{}: ok'.format(what), ans[:200])
        return
    f = fields(ans)
    mshape = tuple(int(t) for t in f['shape'].split(','))
    if mshape != tuple(impl_arr.shape):
        ctx.disagree(desc, '{} shape {}'.format(what, impl_arr.shape), 'shape {}'.format(mshape))
        return
    toks = f['y'].split(',')
    flat = np.asarray(impl_arr).ravel(order='C')
    if exact:
        mv = [parse_cx(t) for t in toks]
        iv = [(Fraction(float(np.real(z))), Fraction(float(np.imag(z)))) for z in flat.tolist()]
        if mv != iv:
            bad = [i for i, (a, b) in enumerate(zip(mv, iv)) if a != b]
            ctx.disagree(desc, '{} (exact) entry {} = {}'.format(what, bad[0], flat[bad[0]]),
                         'entry {} = {}'.format(bad[0], toks[bad[0]]))
        return
    mv = np.array([parse_c(t) for t in toks])
    scale = max(1.0, float(np.max(np.abs(mv))) if mv.size else 1.0)
    dev = float(np.max(np.abs(mv - flat))) if mv.size else 0.0
    if not dev <= tol_for(dtype, scale):
        i = int(np.argmax(np.abs(mv - flat)))
        ctx.disagree(desc, '{} entry {} = {}'.format(what, i, flat[i]),
                     'entry {} = {} (dev {:.3g})'.format(i, mv[i], dev))


def run_dft(ctx, B, cfgs=None, oracle_only=False):
    odl = _odl()
    from odl.trafos import DiscreteFourierTransform as DFT, DiscreteFourierTransformInverse as IDFT
    rng = ctx.rng
    for shape, axes, dt, hc, sign, impl in (cfgs if cfgs is not None else dft_configs(ctx)):
        desc = {'kind': 'dft', 'shape': list(shape), 'axes': list(axes), 'dtype': dt, 'hc': hc,
                'sign': sign, 'impl': impl, 'xseed': rng.getrandbits(32)}
        run_dft_case(ctx, B, desc, oracle_only)


def dft_key(d, what, impl=None):
    last = d['shape'][d['axes'][-1]]
    return 'dft {} impl={} halfcomplex={} real={} sign={} dtype={} ndim={} axes={} last-axis-{}'.format(
        what, impl or d['impl'], d['hc'], not d['dtype'].startswith('complex'), d['sign'],
        d['dtype'], len(d['shape']), tuple(d['axes']), 'odd' if last % 2 else 'even')


def run_dft_case(ctx, B, desc, oracle_only=False):
    """One plain-DFT configuration on the real code (oracle) and, unless oracle_only, the model.
    Returns the list of problems found by the oracle."""
    import random
    odl = _odl()
    from odl.trafos import DiscreteFourierTransform as DFT, DiscreteFourierTransformInverse as IDFT
    shape, axes, dt = tuple(desc['shape']), tuple(desc['axes']), desc['dtype']
    hc, sign, impl = desc['hc'], desc['sign'], desc['impl']
    r = random.Random(desc['xseed'])
    probs = []
    sp = odl.uniform_discr([0] * len(shape), [1] * len(shape), shape, dtype=dt)
    x = rand_array(r, shape, dt)
    exact = exact_ok(shape, axes)
    par = tuple(shape[a] % 2 for a in axes)
    sig = ('dft', len(shape), par, axes, hc, sign, dt, impl)
    nontrivial = bool(np.ptp(np.abs(x)) > 0) or x.size == 1
    ctx.case(sig if nontrivial else None,
             sample=dict(desc, x=str(x.ravel()[:6])) if x.size <= 6 else None)
    ctx.hit('dft/{}/{}/{}'.format(impl, 'hc' if hc else 'full', 'plus' if sign == '+' else 'minus'))
    if 1 in shape:
        ctx.hit('dft/one-point-axis')
    F, e = safe(lambda: DFT(sp, axes=axes, sign=sign, halfcomplex=hc, impl=impl))
    if e is not None:
        viol(ctx, dft_key(desc, 'constructor'), repr(e)[:300], desc)
        return ['ctor']
    ref = np_reference_dft(x, axes, sign, hc)
    realdom = not dt.startswith('complex')
    if impl == 'pyfftw' and realdom and not hc:
        # first call of a configuration FFTW has no wisdom for: pyfftw_call creates the
        # (FFTW_MEASURE) plan on the complex copy that holds the data
        y0, e0 = safe(lambda: F(sp.element(x.copy())).asarray())
        if e0 is not None or not np.max(np.abs(y0 - ref)) <= tol_for(dt, max(1.0, float(np.max(np.abs(ref))))):
            probs.append(('forward-first-call', 'first call (no FFTW wisdom yet) != numpy.fft '
                          'reference: {!r}'.format(e0 if e0 is not None else y0.ravel()[:4]), None))
        F, e = safe(lambda: DFT(sp, axes=axes, sign=sign, halfcomplex=hc, impl=impl))
    xin = sp.element(x.copy())
    y, e = safe(lambda: F(xin))
    if e is not None:
        probs.append(('forward', 'forward raised {!r}'.format(e)[:300]))
        yarr = None
    else:
        yarr = y.asarray()
        tol = tol_for(dt, max(1.0, float(np.max(np.abs(ref)))))
        if yarr.shape != ref.shape or not np.max(np.abs(yarr - ref)) <= tol:
            probs.append(('forward', 'forward != numpy.fft reference: shape {} vs {}, max dev {}'.format(
                yarr.shape, ref.shape, np.max(np.abs(yarr - ref)) if yarr.shape == ref.shape else 'n/a')))
        if not np.array_equal(xin.asarray(), x):
            probs.append(('forward', 'input modified by the forward transform'))
        # in-place (out=) equals out-of-place, bitwise
        out = F.range.element()
        out.asarray()[...] = np.nan
        y2, e2 = safe(lambda: F(sp.element(x.copy()), out=out))
        if e2 is not None or y2 is not out or not np.array_equal(out.asarray(), yarr):
            probs.append(('forward-inplace', 'F(x, out=y) differs from F(x): {!r}'.format(e2)))
        # plan reuse: second call with other data
        x3 = rand_array(r, shape, dt)
        y3, e3 = safe(lambda: F(sp.element(x3)))
        ref3 = np_reference_dft(x3, axes, sign, hc)
        if e3 is not None or not np.max(np.abs(y3.asarray() - ref3)) <= tol_for(
                dt, max(1.0, float(np.max(np.abs(ref3))))):
            probs.append(('forward-reuse', 'second call on the same operator is wrong ({!r})'.format(e3)))
    if impl == 'pyfftw':
        Fp, ep = safe(lambda: DFT(sp, axes=axes, sign=sign, halfcomplex=hc, impl=impl))
        yp, ep = safe(lambda: (Fp.init_fftw_plan(), Fp(sp.element(x.copy())))[1].asarray())
        if ep is not None or not np.max(np.abs(yp - ref)) <= tol_for(dt, max(1.0, float(np.max(np.abs(ref))))):
            probs.append(('forward-init-plan', 'init_fftw_plan() then call is wrong: {!r}'.format(
                ep if ep is not None else float(np.max(np.abs(yp - ref))))))
    # inverse: explicit class with the same impl, and the .inverse property
    isign = '+' if sign == '-' else '-'
    inv_results = {}
    yin = ref.astype(np.result_type(dt, np.complex64))
    for name, mk in (('explicit', lambda: IDFT(sp, axes=axes, sign=isign, halfcomplex=hc, impl=impl)),
                     ('property', lambda: F.inverse)):
        Fi, e = safe(mk)
        if e is not None:
            probs.append(('inverse-constructor', 'inverse constructor ({}) raised {!r}'.format(name, e)[:300]))
            continue
        yel, _ = safe(lambda: Fi.domain.element(yin.copy()))
        z, e = safe(lambda: Fi(yel))
        iimpl = Fi.impl
        if e is not None:
            probs.append(('inverse', 'inverse ({}) raised {!r}'.format(name, e)[:300], iimpl))
            inv_results[name] = e
            continue
        zarr = z.asarray()
        inv_results[name] = zarr
        if not np.array_equal(yel.asarray(), yin):
            probs.append(('inverse-input-modified', 'input modified by the inverse transform ({}): max '
                          'change {:.3g}'.format(name, float(np.max(np.abs(yel.asarray() - yin)))), iimpl))
        zz, e4 = safe(lambda: Fi(yel).asarray())
        if e4 is not None or not np.max(np.abs(zz - x)) <= tol_for(dt, max(1.0, float(np.max(np.abs(x))))):
            probs.append(('inverse-reuse', 'second call on the SAME input element ({}) is wrong: {!r}'.format(
                name, e4 if e4 is not None else float(np.max(np.abs(zz - x)))), iimpl))
        if Fi.impl == 'pyfftw' and name == 'explicit':
            # init_fftw_plan, then a call
            Fp, ep = safe(lambda: IDFT(sp, axes=axes, sign=isign, halfcomplex=hc, impl='pyfftw'))
            zp, ep = safe(lambda: (Fp.init_fftw_plan(), Fp(Fp.domain.element(yin.copy())))[1].asarray())
            if ep is not None or not np.max(np.abs(zp - x)) <= tol_for(dt, max(1.0, float(np.max(np.abs(x))))):
                probs.append(('inverse-init-plan', 'init_fftw_plan() then call is wrong: {!r}'.format(
                    ep if ep is not None else float(np.max(np.abs(zp - x)))), iimpl))
        if zarr.shape != x.shape or not np.max(np.abs(zarr - x)) <= tol_for(dt, max(1.0, float(np.max(np.abs(x))))):
            probs.append(('inverse', 'inverse ({}) of forward(x) != x: max dev {}'.format(
                name, np.max(np.abs(zarr - x)) if zarr.shape == x.shape else zarr.shape), iimpl))
        out = Fi.range.element()
        z2, e2 = safe(lambda: Fi(Fi.domain.element(yin.copy()), out=out))
        if e2 is not None or not np.array_equal(out.asarray(), zarr):
            probs.append(('inverse-inplace', 'Fi(y, out=z) differs from Fi(y) ({}): {!r}'.format(name, e2), iimpl))
    for pr in probs:
        viol(ctx, dft_key(desc, pr[0], pr[2] if len(pr) > 2 else None), pr[1][:500], desc)
    if oracle_only:
        return probs
    # ---- correspondence with the model
    mimpl = 'np' if impl == 'numpy' else 'fftw'
    last = axes[-1]
    if impl == 'pyfftw':
        first_bad = any(pr[0] in ('forward-first-call', 'forward') for pr in probs)

        def cbp(ans, first_bad=first_bad):
            surv = fields(ans)['survives'] == '1'
            ctx.hit('pyfftw_call/planning/' + ('data-survives' if surv else 'plans-on-data-array'))
            if surv and first_bad:
                ctx.disagree(desc, 'first call of a fresh FFTW_MEASURE plan gave wrong values',
                             ans + ' (model: data survives planning)')
        B.add('plan fresh=1 destroys=1 inplace=0', cbp)
    line = 'dft num={} impl={} inv=0 plus={} hc={} real={} rshape={} axes={} x={}'.format(
        'x' if exact else 'f', mimpl, int(sign == '+'), int(hc), int(realdom), nl(shape), nl(axes), cl(x))

    def cb(ans, yarr=yarr):
        if yarr is None:
            ctx.disagree(desc, 'forward raised', ans[:100])
        else:
            compare_arr(ctx, desc, yarr, ans, dt, exact, 'forward')
    B.add(line, cb)
    line = 'dft num={} impl={} inv=1 plus={} hc={} real={} rshape={} axes={} x={}'.format(
        'x' if exact else 'f', mimpl, int(isign == '+'), int(hc), int(realdom), nl(shape), nl(axes), cl(yin))

    def cb2(ans, res=inv_results.get('explicit')):
        if res is None:
            return
        if isinstance(res, Exception):
            if ans != exc_kind(res):
                ctx.disagree(desc, 'inverse: ' + exc_kind(res) + ' ' + repr(res)[:100], ans[:100])
            else:
                ctx.hit('dft/inverse/' + ans)
        else:
            compare_arr(ctx, desc, res, ans, dt, exact, 'inverse')
    B.add(line, cb2)
    return probs


# --------------------------------------------------------------------------
# pyfftw_call / _pyfftw_check_args called directly (round 5): validation branches, plan reuse,
# wisdom import/export, alignment, threads, FFTW-style flags

def _unaligned(shape, dtype):
    n = int(np.prod(shape))
    item = np.dtype(dtype).itemsize
    buf = np.zeros(n * item + 1, dtype=np.uint8)
    a = np.frombuffer(buf.data, dtype=dtype, count=n, offset=1).reshape(shape)
    return a


MISUSE_MESSAGE = {'unaligned-input': 'input array not aligned', 'unaligned-output': 'output array not aligned', 'duplicate-axes': 'duplicate', 'duplicate-axes-negative': 'duplicate', 'forward-out-shape': 'expected output shape', 'forward-hc-out-shape': 'expected output shape', 'forward-hc-complex-input': 'cannot combine halfcomplex forward', 'forward-out-dtype': 'expected output dtype', 'forward-real-out-dtype': 'expected output dtype', 'backward-in-shape': 'expected input shape', 'backward-hc-in-shape': 'expected input shape', 'backward-hc-complex-output': 'cannot combine halfcomplex backward', 'backward-in-dtype': 'expected input dtype', 'backward-real-out-without-hc': 'expected input dtype'}


def run_pyfftw_direct(ctx, B, oracle_only=False):
    """ORACLE: every accepted call equals numpy.fft on a copy (with the documented normalisation)
    and leaves its input intact; every documented misuse raises ValueError."""
    import os
    import tempfile
    import pickle
    from odl.trafos.backends.pyfftw_bindings import pyfftw_call, PYFFTW_AVAILABLE
    if not PYFFTW_AVAILABLE:
        return
    rng = ctx.rng

    def key(what):
        return 'pyfftw_call direct ' + what

    def ref_of(x, axes, direction, hc, ni, out_shape):
        ax = tuple(range(x.ndim)) if axes is None else tuple(a % x.ndim for a in (
            (axes,) if isinstance(axes, int) else axes))
        if direction == 'forward':
            return np.fft.rfftn(x, axes=ax) if hc else np.fft.fftn(x, axes=ax)
        N = float(np.prod([out_shape[a] for a in ax]))
        if hc:
            r = np.fft.irfftn(x, s=[out_shape[a] for a in ax], axes=ax)
        else:
            r = np.fft.ifftn(x, axes=ax)
        return r if ni else r * N

    # ---- accepted calls
    cases = []
    for shape, axes in (((4,), None), ((5,), (0,)), ((2, 4), (1,)), ((3, 4), (-1, 0)), ((4, 2, 3), (0, 2)),
                        ((2, 4), 1), ((70, 64), None)):
        for direction in ('forward', 'backward', 'FFTW_FORWARD', 'FFTW_BACKWARD'):
            for hc in (False, True):
                for ni in (False, True):
                    for effort in ('estimate', 'measure', 'FFTW_ESTIMATE'):
                        cases.append((shape, axes, direction, hc, ni, effort))
    rng.shuffle(cases)
    if ctx.quick:
        keep = {}
        for c in cases:
            k = (c[2], c[3], c[4], c[5] == 'measure', c[0] == (70, 64))
            keep.setdefault(k, c)
        cases = list(keep.values())
    for shape, axes, direction, hc, ni, effort in cases:
        fwd = direction.lower().endswith('forward')
        ax = tuple(range(len(shape))) if axes is None else tuple(a % len(shape) for a in (
            (axes,) if isinstance(axes, int) else axes))
        hshape = list(shape)
        if hc:
            hshape[ax[-1]] = shape[ax[-1]] // 2 + 1
        real_side = rand_array(rng, shape, 'float64' if hc else 'complex128')
        if fwd:
            x = real_side
            out = np.empty(tuple(hshape), dtype='complex128')
        else:
            x = (np.fft.rfftn(real_side, axes=ax) if hc else rand_array(rng, shape, 'complex128'))
            x = np.ascontiguousarray(x)
            out = np.empty(shape, dtype='float64' if hc else 'complex128')
        desc = {'kind': 'pyfftw_direct', 'shape': list(shape), 'axes': axes if axes is None or isinstance(
            axes, int) else list(axes), 'direction': direction, 'hc': hc, 'ni': ni, 'effort': effort}
        ctx.case(('pyfftw_direct', shape, ax, direction, hc, ni, effort))
        ctx.hit('pyfftw_call/direct/{}/{}'.format('forward' if fwd else 'backward', 'hc' if hc else 'full'))
        if np.prod(shape) > 4096:
            ctx.hit('pyfftw_call/direct/threads=cpu_count')
        if axes is None:
            ctx.hit('pyfftw_call/direct/axes=None')
        ref = ref_of(x, axes, 'forward' if fwd else 'backward', hc, ni, shape)
        x0 = x.copy()
        res, e = safe(lambda: pyfftw_call(x, out, direction=direction, axes=axes, halfcomplex=hc,
                                          normalise_idft=ni, planning_effort=effort))
        tolv = 1e-10 * max(1.0, float(np.max(np.abs(ref)))) * max(1, np.prod(shape) / 64)
        k = key('{} halfcomplex={} normalise_idft={} effort={} ndim={}'.format(
            'forward' if fwd else 'backward', hc, ni, effort.lower().replace('fftw_', ''), len(shape)))
        if direction.startswith('FFTW_'):
            k += ' direction-flag=' + direction
        if e is not None or not np.max(np.abs(out - ref)) <= tolv:
            viol(ctx, k, 'differs from numpy.fft: {!r}'.format(
                e if e is not None else float(np.max(np.abs(out - ref))))[:300], desc)
            continue
        # a backward half-complex transform in >= 2 dimensions destroys its input in FFTW itself
        # (documented by _pyfftw_destroys_input); every other call must leave it intact
        if not (not fwd and hc and len(shape) > 1) and not np.array_equal(x, x0):
            viol(ctx, k + ' input-modified', 'input array changed', desc)
        # reuse of the returned plan on other data of the same layout, out-of-place and aliased
        ctx.hit('pyfftw_call/direct/plan-reuse')
        x2 = x0 * 0.5 + 1
        if not fwd and hc:
            x2 = np.ascontiguousarray(np.fft.rfftn(rand_array(rng, shape, 'float64'), axes=ax))
        ref2 = ref_of(x2, axes, 'forward' if fwd else 'backward', hc, ni, shape)
        out2 = np.empty_like(out)
        x2c = x2.copy()
        res2, e2 = safe(lambda: pyfftw_call(x2c, out2, direction=direction, axes=axes, halfcomplex=hc,
                                            normalise_idft=ni, fftw_plan=res))
        if e2 is not None or res2 is not res or not np.max(np.abs(out2 - ref2)) <= tolv * 2:
            viol(ctx, k + ' plan-reuse', 'second call with fftw_plan= : {!r} same-plan={}'.format(
                e2 if e2 is not None else float(np.max(np.abs(out2 - ref2))), res2 is res)[:300], desc)
        if not hc:
            # the out-of-place plan must NOT be executed for an aliased call: a new plan is made
            ctx.hit('pyfftw_call/direct/plan-aliasing-mismatch')
            x3 = x2.copy()
            res3, e3 = safe(lambda: pyfftw_call(x3, x3, direction=direction, axes=axes, halfcomplex=False,
                                                normalise_idft=ni, fftw_plan=res, planning_effort=effort))
            if e3 is not None or res3 is res or not np.max(np.abs(x3 - ref2)) <= tolv * 2:
                viol(ctx, k + ' plan-aliasing', 'aliased call with an out-of-place plan: {!r} new-plan={}'.format(
                    e3 if e3 is not None else float(np.max(np.abs(x3 - ref2))), res3 is not res)[:300], desc)
        if not oracle_only and len(shape) == 1 and shape[0] in (1, 2, 4) and not hc:
            # model: pyfftwCall (the normalisation juggling) on one axis, exact
            B.add('pyfftwcall backward={} ni={} n={} x={}'.format(int(not fwd), int(ni), shape[0], cl(x0)),
                  lambda ans, out=out.copy(), desc=desc: compare_arr(ctx, desc, out, ans, 'complex128', True,
                                                                     'pyfftw_call'))
    # ---- wisdom import / export: file name (missing, existing) and file handle
    tmpd = tempfile.mkdtemp(prefix='c18wis')
    try:
        x = rand_array(rng, (8,), 'complex128')
        ref = np.fft.fftn(x)
        wfile = os.path.join(tmpd, 'w.pkl')
        steps = [('import-missing-file', dict(import_wisdom=os.path.join(tmpd, 'nope.pkl'))),
                 ('export-filename', dict(export_wisdom=wfile)),
                 ('import-filename', dict(import_wisdom=wfile))]
        for name, kw in steps:
            ctx.case(('pyfftw_wisdom', name))
            ctx.hit('pyfftw_call/direct/wisdom/' + name)
            out = np.empty(8, dtype='complex128')
            r_, e = safe(lambda: pyfftw_call(x.copy(), out, planning_effort='measure', **kw))
            if e is not None or not np.max(np.abs(out - ref)) <= 1e-9:
                viol(ctx, key('wisdom ' + name), '{!r}'.format(e if e is not None else float(
                    np.max(np.abs(out - ref))))[:300], {'kind': 'pyfftw_direct_wisdom'})
        ok, e = safe(lambda: os.path.getsize(wfile) > 0 and bool(pickle.load(open(wfile, 'rb'))))
        if e is not None or not ok:
            viol(ctx, key('wisdom export-filename'), 'no wisdom written: {!r}'.format(e)[:200],
                 {'kind': 'pyfftw_direct_wisdom'})
        for name in ('export-handle', 'import-handle'):
            ctx.case(('pyfftw_wisdom', name))
            ctx.hit('pyfftw_call/direct/wisdom/' + name)
            out = np.empty(8, dtype='complex128')
            hfile = os.path.join(tmpd, 'h.pkl')

            def call():
                with open(hfile, 'wb' if name == 'export-handle' else 'rb') as fh:
                    return pyfftw_call(x.copy(), out, planning_effort='measure', **{
                        'export_wisdom' if name == 'export-handle' else 'import_wisdom': fh})
            r_, e = safe(call)
            if e is not None or not np.max(np.abs(out - ref)) <= 1e-9:
                viol(ctx, key('wisdom ' + name), '{!r}'.format(e if e is not None else float(
                    np.max(np.abs(out - ref))))[:300], {'kind': 'pyfftw_direct_wisdom'})
    finally:
        import shutil
        shutil.rmtree(tmpd, ignore_errors=True)
    # ---- documented misuse: ValueError, and the arrays untouched
    c8 = lambda shape: np.zeros(shape, dtype='complex128')
    f8 = lambda shape: np.zeros(shape, dtype='float64')
    bad = [
        ('unaligned-input', lambda: pyfftw_call(_unaligned((4,), 'complex128'), c8((4,)))),
        ('unaligned-output', lambda: pyfftw_call(c8((4,)), _unaligned((4,), 'complex128'))),
        ('duplicate-axes', lambda: pyfftw_call(c8((4, 4)), c8((4, 4)), axes=(0, 0))),
        ('duplicate-axes-negative', lambda: pyfftw_call(c8((4, 4)), c8((4, 4)), axes=(1, -1))),
        ('forward-out-shape', lambda: pyfftw_call(c8((4,)), c8((5,)))),
        ('forward-hc-out-shape', lambda: pyfftw_call(f8((4,)), c8((4,)), halfcomplex=True)),
        ('forward-hc-complex-input', lambda: pyfftw_call(c8((4,)), c8((3,)), halfcomplex=True)),
        ('forward-out-dtype', lambda: pyfftw_call(c8((4,)), np.zeros(4, dtype='complex64'))),
        ('forward-real-out-dtype', lambda: pyfftw_call(f8((4,)), np.zeros(4, dtype='complex64'))),
        ('backward-in-shape', lambda: pyfftw_call(c8((5,)), c8((4,)), direction='backward')),
        ('backward-hc-in-shape', lambda: pyfftw_call(c8((4,)), f8((4,)), direction='backward', halfcomplex=True)),
        ('backward-hc-complex-output', lambda: pyfftw_call(c8((3,)), c8((4,)), direction='backward',
                                                           halfcomplex=True)),
        ('backward-in-dtype', lambda: pyfftw_call(np.zeros(4, dtype='complex64'), c8((4,)), direction='backward')),
        ('backward-real-out-without-hc', lambda: pyfftw_call(np.zeros(4, dtype='complex64'), f8((4,)),
                                                              direction='backward')),
    ]
    for name, f in bad:
        ctx.case(('pyfftw_bad', name))
        ctx.hit('pyfftw_call/direct/rejects')
        r_, e = safe(f)
        got = 'ok' if e is None else exc_kind(e)
        if got != 'err:value':
            viol(ctx, key('misuse ' + name), 'documented ValueError, got {}'.format(got if e is None else repr(e))[:300],
                 {'kind': 'pyfftw_direct_bad', 'name': name})
        elif MISUSE_MESSAGE[name] not in str(e):
            # the argument check of ODL itself must fire (its purpose is the explicit message), not
            # some later error of the FFTW wrapper
            viol(ctx, key('misuse ' + name + ' message'), 'expected ODL\'s own check ({!r}), got {!r}'.format(
                MISUSE_MESSAGE[name], e)[:300], {'kind': 'pyfftw_direct_bad', 'name': name})
    # ---- the generic DiscreteFourierTransformBase._call_pyfftw (un-normalised transform in the
    # direction of the sign; `flags=` in FFTW form) reached through the base class itself
    odl = _odl()
    from odl.trafos.fourier import DiscreteFourierTransformBase as DBase
    for sign in ('-', '+'):
        for flags in (None, ('FFTW_ESTIMATE',), ('FFTW_MEASURE', 'FFTW_DESTROY_INPUT'),
                      ('FFTW_UNALIGNED', 'FFTW_ESTIMATE'), ()):
            ctx.case(('dft_base', sign, flags))
            ctx.hit('dft/base-class-direct')
            sp = odl.uniform_discr([0, 0], [1, 1], (3, 4), dtype='complex128')
            x = rand_array(rng, (3, 4), 'complex128')
            ref = np.fft.fftn(x) if sign == '-' else np.fft.ifftn(x) * 12

            def callb():
                op = DBase(inverse=False, domain=sp, sign=sign, impl='pyfftw')
                kw = {} if flags is None else {'flags': flags}
                y1 = op(sp.element(x.copy()), **kw).asarray()
                y2 = op(sp.element(x.copy()), **kw).asarray()      # cached plan
                return y1, y2
            r_, e = safe(callb)
            if e is not None or not max(np.max(np.abs(r_[0] - ref)), np.max(np.abs(r_[1] - ref))) <= 1e-9:
                viol(ctx, 'dft base-class pyfftw sign={} flags={}'.format(sign, flags), '{!r}'.format(
                    e if e is not None else [float(np.max(np.abs(a - ref))) for a in r_])[:300],
                    {'kind': 'pyfftw_direct_base'})
    # ---- FourierTransform(Inverse)._postprocess with its DEFAULT output (temporaries / new array)
    from odl.trafos import FourierTransform as FT
    for dt in ('complex128', 'float64'):
        for hc in ((False, True) if dt == 'float64' else (False,)):
            for tmp in (False, True):
                ctx.case(('ft_postprocess', dt, hc, tmp))
                ctx.hit('ft/postprocess-default-out')
                sp = odl.uniform_discr([-1, -1], [1, 1], (4, 5), dtype=dt)

                def mkops():
                    F = FT(sp, halfcomplex=hc, impl='numpy')
                    Fi = F.inverse
                    if tmp:
                        F.create_temporaries()
                        Fi.create_temporaries()
                    return F, Fi
                ops, e0 = safe(mkops)
                if e0 is not None:
                    viol(ctx, 'ft _postprocess constructor', repr(e0)[:200], {'kind': 'pyfftw_direct_post'})
                    continue
                F, Fi = ops
                y = rand_array(rng, F.range.shape, 'complex128')
                z = rand_array(rng, sp.shape, dt)
                z = z if hc else z.astype('complex128')
                for nm, op_, arr in (('forward', F, y), ('inverse', Fi, z)):
                    r_, e = safe(lambda: (np.array(op_._postprocess(arr.copy())),
                                          np.array(op_._postprocess(arr.copy(), out=np.empty_like(arr)))))
                    if e is not None or not np.allclose(r_[0], r_[1], rtol=1e-12, atol=1e-12):
                        viol(ctx, 'ft {} _postprocess default-out dtype={} halfcomplex={} temporaries={}'.format(
                            nm, dt, hc, tmp), 'op._postprocess(x) differs from op._postprocess(x, out=new): '
                            '{!r}'.format(e if e is not None else float(np.max(np.abs(r_[0] - r_[1]))))[:300],
                            {'kind': 'pyfftw_direct_post'})
    # ---- real input without halfcomplex (internal complex copy), forward, out-of-place
    for effort in ('estimate', 'measure'):
        ctx.case(('pyfftw_direct_r2c', effort))
        ctx.hit('pyfftw_call/direct/real-input-full')
        x = rand_array(rng, (3, 4), 'float64')
        out = np.empty((3, 4), dtype='complex128')
        x0 = x.copy()
        r_, e = safe(lambda: pyfftw_call(x, out, planning_effort=effort))
        if e is not None or not np.max(np.abs(out - np.fft.fftn(x0))) <= 1e-9 or not np.array_equal(x, x0):
            viol(ctx, key('forward real-input full effort=' + effort), '{!r}'.format(
                e if e is not None else float(np.max(np.abs(out - np.fft.fftn(x0)))))[:300],
                {'kind': 'pyfftw_direct_r2c'})


# --------------------------------------------------------------------------
# the `adjoint` property of the plain DFT operators (round 4)

def adjoint_configs(ctx):
    rng = ctx.rng
    cfgs = []
    for shape in SHAPES_1D + SHAPES_2D + SHAPES_3D + [(1,), (4, 1, 2)]:
        for axes in axes_subsets(len(shape)):
            for dt in ('float32', 'float64', 'complex64', 'complex128'):
                for hc in (False, True):
                    if hc and dt.startswith('complex'):
                        continue
                    for sign in ('-', '+'):
                        for inv in (False, True):
                            # sign: the operator's own sign; with halfcomplex the FORWARD sign is '-'
                            if hc and sign != ('+' if inv else '-'):
                                continue
                            for impl in ('numpy', 'pyfftw'):
                                cfgs.append((shape, axes, dt, hc, sign, inv, impl))
    rng.shuffle(cfgs)
    if ctx.quick:
        keep = {}
        for c in cfgs:
            shape, axes, dt, hc, sign, inv, impl = c
            k = (min(len(axes), 2), exact_ok(shape, axes), hc, sign, inv, dt[0], shape[axes[-1]] % 2)
            if len(keep.setdefault(k, [])) < 2:
                keep[k].append(c)
        cfgs = [c for v in keep.values() for c in v]
    else:
        cfgs = cfgs[:1500]
    return cfgs


def adj_key(d, what):
    last = d['shape'][d['axes'][-1]]
    return 'dft adjoint {} of={} halfcomplex={} real={} sign={} dtype={} ndim={} axes={} last-axis-{}'.format(
        what, 'inverse-operator' if d['inv'] else 'forward-operator', d['hc'],
        not d['dtype'].startswith('complex'), d['sign'], d['dtype'], len(d['shape']), tuple(d['axes']),
        'odd' if last % 2 else 'even')


def run_adjoint_case(ctx, B, desc, oracle_only=False):
    """`op.adjoint` of DiscreteFourierTransform / DiscreteFourierTransformInverse.
    ORACLE (real code only): the adjoint is documented as 'equal to the inverse': it is exposed for
    exponent 2, agrees with `op.inverse` on a random range element and recovers x from op(x).
    CORRESPONDENCE: values against the model `dftAdjointNd`; the factor of
    `C18.dft_true_adjoint` (plain dot products: <op x, y> = N^(+-1) <x, op.adjoint y>)."""
    import random
    odl = _odl()
    from odl.trafos import DiscreteFourierTransform as DFT, DiscreteFourierTransformInverse as IDFT
    shape, axes, dt = tuple(desc['shape']), tuple(desc['axes']), desc['dtype']
    hc, sign, inv, impl = desc['hc'], desc['sign'], desc['inv'], desc['impl']
    r = random.Random(desc['xseed'])
    realdom = not dt.startswith('complex')
    exact = exact_ok(shape, axes)
    sp = odl.uniform_discr([0] * len(shape), [1] * len(shape), shape, dtype=dt)
    ctx.case(('dftadj', len(shape), tuple(shape[a] % 2 for a in axes), axes, hc, sign, inv, dt, impl))
    ctx.hit('adjoint/{}/{}'.format('inverse-op' if inv else 'forward-op', 'hc' if hc else 'full'))
    fshape = list(shape)
    if hc:
        fshape[axes[-1]] = shape[axes[-1]] // 2 + 1
    cdt = np.result_type(dt, np.complex64)

    def mk(given):
        kw = {}
        if given:
            fsp = odl.uniform_discr([0] * len(shape), [1] * len(shape), fshape, dtype=cdt)
            kw = {'domain': fsp} if inv else {'range': fsp}
        return (IDFT if inv else DFT)(sp, axes=axes, sign=sign, halfcomplex=hc, impl=impl, **kw)
    op, e = safe(lambda: mk(False))
    one = 1 in fshape
    ctx.hit('dftctor/default-range/' + ('one-point-axis' if one else 'ok'))
    if e is not None:
        # /repo fix 02139e2: the default range exists for every shape, one-point axes included
        viol(ctx, ('dft constructor default-range one-point-axis ndim={}'.format(len(shape)) if one
                   else adj_key(desc, 'constructor')), 'shape {}: {!r}'.format(shape, e)[:300], desc)
    if not oracle_only:
        if e is None:
            ext, ee = safe(lambda: [fs(float(b - a)) for a, b in zip(
                (op.domain if inv else op.range).min_pt, (op.domain if inv else op.range).max_pt)])
            got = 'ok extent=' + (','.join(ext) if ee is None else repr(ee)[:60])
        else:
            got = exc_kind(e)
        B.add('dftrangector fshape={} given=0'.format(nl(fshape)),
              lambda ans, got=got: (ans == got) or ctx.disagree(desc, 'default range: ' + got, ans[:100]))
    if one or e is not None:
        ctx.hit('dftctor/given-range')
        opg, eg = safe(lambda: mk(True))
        if eg is not None:
            viol(ctx, adj_key(desc, 'constructor-given-range'), repr(eg)[:300], desc)
        if not oracle_only:
            gotg = 'ok' if eg is None else exc_kind(eg)
            B.add('dftrangector fshape={} given=1'.format(nl(fshape)),
                  lambda ans, gotg=gotg: (ans == gotg) or ctx.disagree(desc, 'given range: ' + gotg, ans[:100]))
        if e is not None:
            op, e = opg, eg
    if e is not None:
        return
    A, e = safe(lambda: op.adjoint)
    if e is not None:
        viol(ctx, adj_key(desc, 'not-exposed'), 'exponent 2 on both sides but .adjoint raised {!r}'.format(e)[:300],
             desc)
        return
    # x in the real-space side, y in the frequency side
    x = rand_array(r, shape, dt)
    y = rand_array(r, tuple(fshape), cdt)
    if hc or (inv and realdom):
        # a frequency-side element that IS the spectrum of real data (the real-range inverse keeps
        # only the real part, so only such elements can be recovered)
        fsign = sign if not inv else ('-' if sign == '+' else '+')
        y = np_reference_dft(rand_array(r, shape, dt).astype('float64'), axes, fsign, hc).astype(cdt)
    u, v = (y, x) if inv else (x, y)          # op: u-side -> v-side ; adjoint: v-side -> u-side
    probs = []
    res, e = safe(lambda: (op(op.domain.element(u.copy())).asarray(),
                           A(A.domain.element(v.copy())).asarray(),
                           op.inverse(op.range.element(v.copy())).asarray()))
    if e is not None:
        viol(ctx, adj_key(desc, 'call'), 'op / op.adjoint / op.inverse raised {!r}'.format(e)[:300], desc)
        return
    opu, Av, Iv = res
    # the property's own oracle on this operator: equals numpy.fft (also on one-point axes)
    fsign_ = sign if not inv else ('-' if sign == '+' else '+')
    if inv:
        Nax = float(np.prod([shape[a] for a in axes]))
        if hc:
            refu = np.fft.irfftn(u.astype('complex128'), s=[shape[a] for a in axes], axes=axes)
        elif fsign_ == '-':
            refu = np.fft.ifftn(u.astype('complex128'), axes=axes)
        else:
            refu = np.conj(np.fft.ifftn(np.conj(u.astype('complex128')), axes=axes))
        if realdom:
            refu = refu.real
    else:
        refu = np_reference_dft(u, axes, fsign_, hc)
    if opu.shape != refu.shape or not np.max(np.abs(opu - refu)) <= tol_for(
            dt, max(1.0, float(np.max(np.abs(refu))) if refu.size else 1.0)):
        probs.append(('equals-numpy-fft', 'op(u) != numpy.fft reference: {}'.format(
            float(np.max(np.abs(opu - refu))) if opu.shape == refu.shape else (opu.shape, refu.shape))))
    tolv = tol_for(dt, max(1.0, float(np.max(np.abs(Iv))) if Iv.size else 1.0))
    if Av.shape != Iv.shape or not np.max(np.abs(Av - Iv)) <= tolv:
        probs.append(('equals-inverse', "documented 'adjoint equal to the inverse': op.adjoint(v) != "
                      'op.inverse(v), max dev {}'.format(
                          float(np.max(np.abs(Av - Iv))) if Av.shape == Iv.shape else Av.shape)))
    back, e = safe(lambda: A(A.domain.element(opu.copy())).asarray())
    if e is not None or back.shape != u.shape or not np.max(np.abs(back - u)) <= tol_for(
            dt, max(1.0, float(np.max(np.abs(u))))):
        probs.append(('recovers-input', 'op.adjoint(op(u)) != u: {!r}'.format(
            e if e is not None else float(np.max(np.abs(back - u))) if back.shape == u.shape else back.shape)))
    for pr in probs:
        viol(ctx, adj_key(desc, pr[0]), pr[1][:400], desc)
    if oracle_only:
        return
    # ---- correspondence
    mimpl = 'np' if getattr(A, 'impl', 'numpy') == 'numpy' else 'fftw'
    line = 'dftadj num={} impl={} inv={} plus={} hc={} real={} exp2=1 rshape={} axes={} x={}'.format(
        'x' if exact else 'f', mimpl, int(inv), int(sign == '+'), int(hc), int(realdom), nl(shape), nl(axes),
        cl(v))
    B.add(line, lambda ans, Av=Av: compare_arr(ctx, desc, Av, ans, dt, exact, 'adjoint'))
    if not hc:
        # the factor of C18.dft_true_adjoint / dft_inverse_true_adjoint (one axis; here: every
        # transformed axis contributes its length)
        ctx.hit('adjoint/scaled-identity')
        N = float(np.prod([shape[a] for a in axes]))
        lhs = np.vdot(v.astype('complex128'), opu.astype('complex128'))        # <op u, v>
        rhs = np.vdot(Av.astype('complex128'), u.astype('complex128'))         # <u, A v>
        fac = (1.0 / N) if inv else N
        if realdom:
            lhs, rhs = lhs.real, rhs.real
        if not abs(lhs - fac * rhs) <= tol_for(dt, max(1.0, abs(lhs), abs(fac * rhs)) * 4):
            ctx.disagree(desc, '<op u, v> = {} , <u, op.adjoint v> = {}'.format(lhs, rhs),
                         'theorem C18.dft_true_adjoint: ratio {}'.format(fac))


def run_adjoint(ctx, B, cfgs=None, oracle_only=False):
    odl = _odl()
    from odl.trafos import DiscreteFourierTransform as DFT, DiscreteFourierTransformInverse as IDFT
    rng = ctx.rng
    for shape, axes, dt, hc, sign, inv, impl in (cfgs if cfgs is not None else adjoint_configs(ctx)):
        desc = {'kind': 'dftadj', 'shape': list(shape), 'axes': list(axes), 'dtype': dt, 'hc': hc,
                'sign': sign, 'inv': inv, 'impl': impl, 'xseed': rng.getrandbits(32)}
        run_adjoint_case(ctx, B, desc, oracle_only)
    # exponents other than 2: no adjoint (NotImplementedError), both operator classes
    for expo in (1.5, 1.0, 3.0):
        for inv in (False, True):
            for dt in ('complex128', 'float64'):
                desc = {'kind': 'dftadj-exponent', 'exponent': expo, 'inv': inv, 'dtype': dt}
                ctx.case(('dftadj-exp', expo, inv, dt))
                ctx.hit('adjoint/exponent-not-2')
                sp = odl.uniform_discr([0], [1], (4,), dtype=dt, exponent=expo)
                res, e = safe(lambda: (IDFT if inv else DFT)(sp).adjoint)
                got = exc_kind(e) if e is not None else 'ok'
                if got != 'err:NotImplementedError':
                    viol(ctx, 'dft adjoint exponent={} of={}'.format(expo, 'inverse' if inv else 'forward'),
                         'documented NotImplementedError for exponents != 2, got {}'.format(
                             got if e is not None else type(res).__name__), desc)
                if not oracle_only:
                    B.add('dftadj num=x impl=np inv={} plus=0 hc=0 real={} exp2=0 rshape=4 axes=0 x=1,2,3,4'.format(
                        int(inv), int(dt == 'float64')),
                        lambda ans, got=got, desc=desc: (ans == got) or ctx.disagree(desc, got, ans[:100]))


def run_dft_complex_hc(ctx, B=None):
    """halfcomplex=True on a complex space is documented to have no effect."""
    odl = _odl()
    from odl.trafos import DiscreteFourierTransform as DFT
    for shape in ((4,), (5,), (3, 4)):
        for impl in ('numpy', 'pyfftw'):
            sp = odl.uniform_discr([0] * len(shape), [1] * len(shape), shape, dtype='complex128')
            x = rand_array(ctx.rng, shape, 'complex128')
            desc = {'kind': 'dft_complex_hc', 'shape': list(shape), 'impl': impl}
            ctx.case(('dftchc', shape, impl))
            res, e = safe(lambda: DFT(sp, halfcomplex=True, impl=impl)(x).asarray())
            ref = np.fft.fftn(x)
            if B is not None:
                rshape, e0 = safe(lambda: DFT(sp, halfcomplex=True, impl=impl).range.shape)

                def cb(ans, rshape=rshape, desc=desc, e=e, shape=shape):
                    f = fields(ans)
                    if rshape is None or int(f['range']) != rshape[-1]:
                        ctx.disagree(desc, 'range shape {}'.format(rshape), ans)
                    if (f['range'] != f['out']) != (e is not None):
                        ctx.disagree(desc, 'call raised: {!r}'.format(e), ans)
                B.add('dftrange n={} cplx=1 hc=1'.format(shape[-1]), cb)
            if e is not None or res.shape != ref.shape or np.max(np.abs(res - ref)) > 1e-9:
                viol(ctx, 'dft complex domain with halfcomplex=True (documented: no effect) '
                              'impl={}'.format(impl),
                              'expected the full complex FFT, got {!r}'.format(
                                  e if e is not None else res.shape)[:300], desc)


# --------------------------------------------------------------------------
# D. FourierTransform (continuous FT approximation)

# shapes with EQUAL lengths on several axes: a per-axis quantity looked up by length instead of
# by axis is only visible there (together with a per-axis shift tuple with different entries)
EQUAL_SHAPES = [(3, 3), (4, 4), (5, 5), (3, 3, 3), (4, 4, 2), (2, 3, 3), (4, 2, 4)]


def mixed_equal(shape, axes, shifts):
    """two transformed axes of equal length with different shift flags"""
    return any(shape[a] == shape[b] and sa != sb
               for (a, sa), (b, sb) in itertools.combinations(list(zip(axes, shifts)), 2))


def ft_configs(ctx):
    rng = ctx.rng
    cfgs = []
    shapes = [(n,) for n in range(2, 10)] + [(2, 4), (3, 4), (4, 3), (5, 3), (4, 5), (6, 2),
                                             (2, 3, 4), (3, 2, 5), (4, 3, 2)] + EQUAL_SHAPES
    for shape in shapes:
        for axes in axes_subsets(len(shape)):
            for shifts in itertools.product((True, False), repeat=len(axes)):
                for dt in ('float32', 'float64', 'complex64', 'complex128'):
                    for hc in (False, True):
                        if hc and (dt.startswith('complex') or not shifts[-1]):
                            continue
                        for sign in ('-', '+'):
                            if hc and sign == '+':
                                continue
                            for impl in ('numpy', 'pyfftw'):
                                cfgs.append((shape, axes, shifts, dt, hc, sign, impl))
    rng.shuffle(cfgs)
    cfgs_all = list(cfgs)
    if ctx.quick:
        keep = {}
        for c in cfgs:
            shape, axes, shifts, dt, hc, sign, impl = c
            k = (min(len(shape), 2), shape[axes[-1]] % 2, shifts[-1], all(shifts), hc, sign, impl, dt[0])
            if len(keep.setdefault(k, [])) < 2:
                keep[k].append(c)
        cfgs = [c for v in keep.values() for c in v]
        # axes subsets / orders whose last transformed axis is not the last array axis, crossed
        # with halfcomplex and the admissible per-axis shift mixes
        special = [c for c in cfgs_all if c[3] == 'float64' and c[5] == '-' and
                   c[1][-1] != len(c[0]) - 1 and len(c[0]) >= 2]
        seen = set()
        for c in special:
            k = (len(c[0]), c[1], c[2], c[4], c[6], c[0][c[1][-1]] % 2)
            if k not in seen and (c[4] or rng.random() < 0.25):
                seen.add(k)
                cfgs.append(c)
        # mixed shift tuples over equal-length axes: every shape/axes/shift permutation once
        # (non-half-complex; with halfcomplex a mixed tuple is the open finding F18e), both
        # back-ends alternating, real and complex data
        seen = set()
        for c in cfgs_all:
            if not c[4] and mixed_equal(c[0], c[1], c[2]) and c[3] in ('float64', 'complex128'):
                k = (c[0], c[1], c[2])
                if k not in seen:
                    seen.add(k)
                    cfgs.append(c)
    else:
        special = [c for c in cfgs_all if c[4] and c[1][-1] != len(c[0]) - 1 and len(c[0]) >= 2]
        mixed = [c for c in cfgs_all if mixed_equal(c[0], c[1], c[2])]
        cfgs = cfgs[:3000] + special[:600] + mixed[:800]
    return cfgs


def ft_direct(sp, x, axes, shifts, sign, hc):
    """Definition of the discretised Fourier integral, evaluated directly in O(n^2) per axis on
    the DOCUMENTED reciprocal grid (xi0 = -pi/s shifted, symmetric otherwise, stride 2pi/(ns))."""
    sg = -1.0 if sign == '-' else 1.0
    out = np.asarray(x, dtype=complex)
    for ax, sh in zip(axes, shifts):
        n = sp.shape[ax]
        s = float(sp.grid.stride[ax]) if n > 1 else 1.0
        pts = sp.grid.coord_vectors[ax]
        xi0 = -PI / s if sh else -PI / s * (1 - 1.0 / n)
        m = n // 2 + 1 if (hc and ax == axes[-1]) else n
        xi = xi0 + np.arange(m) * 2 * PI / (n * s)
        E = np.exp(sg * 1j * np.outer(xi, pts)) * (s * np.sinc(xi * s / (2 * PI)) / np.sqrt(2 * PI))[:, None]
        out = np.moveaxis(np.tensordot(E, out, axes=([1], [ax])), 0, ax)
    return out


def ft_key(d, what):
    shifts = d['shifts']
    cls = 'all-shifted' if all(shifts) else ('non-shifted-halved-axis' if not shifts[-1] else
                                             'non-shifted-other-axis')
    return 'ft {} impl={} halfcomplex={} real={} {} sign={} dtype={} ndim={} axes={}'.format(
        what, d['impl'], d['hc'], not d['dtype'].startswith('complex'), cls, d['sign'], d['dtype'],
        len(d['shape']), tuple(d['axes']))


def run_ft_case(ctx, B, desc, oracle_only=False):
    import random
    odl = _odl()
    from odl.trafos import FourierTransform as FT
    shape, axes, shifts = tuple(desc['shape']), tuple(desc['axes']), tuple(desc['shifts'])
    dt, hc, sign, impl = desc['dtype'], desc['hc'], desc['sign'], desc['impl']
    r = random.Random(desc['xseed'])
    lo = [r.choice([-1.0, -2.0, 0.0, -0.5]) for _ in shape]
    hi = [a + r.choice([1.0, 2.0, 4.0, 3.0]) for a in lo]
    sp = odl.uniform_discr(lo, hi, shape, dtype=dt)
    x = rand_array(r, shape, dt)
    realdom = not dt.startswith('complex')
    sig = ('ft', len(shape), tuple(shape[a] % 2 for a in axes), axes, hc, shifts, sign, dt, impl)
    ctx.case(sig, sample=dict(desc, x=str(x.ravel()[:4])) if x.size <= 4 else None)
    ctx.hit('ft/{}/{}/{}'.format(impl, 'hc' if hc else ('r2c' if realdom else 'c2c'),
                                 'allshift' if all(shifts) else 'mixedshift'))
    if mixed_equal(shape, axes, shifts):
        ctx.hit('ft/mixed shift + equal lengths')
    probs = []
    F, e = safe(lambda: FT(sp, axes=axes, shift=shifts, sign=sign, halfcomplex=hc, impl=impl))
    if e is not None:
        viol(ctx, ft_key(desc, 'constructor'), repr(e)[:300], desc)
        return ['ctor']
    # ORACLE: the range grid against the documented reciprocal grid, per transformed axis
    for ax, sh in zip(axes, shifts):
        pr = grid_axis_problem(F.range.grid, ax, shape[ax], float(sp.grid.stride[ax]), sh,
                               hc and ax == axes[-1])
        if pr is not None:
            probs.append(('range-grid', 'range grid of the operator is not the documented '
                          'reciprocal grid: ' + pr))
    ref = ft_direct(sp, x, axes, shifts, sign, hc)
    scale = max(1.0, float(np.max(np.abs(ref))))
    tol = tol_for(dt, scale) * 10
    xin = sp.element(x.copy())
    y, e = safe(lambda: F(xin))
    fwd = e if e is not None else y.asarray()
    if e is not None:
        probs.append(('forward', 'forward raised {!r}'.format(e)[:300]))
    else:
        if not np.array_equal(xin.asarray(), x):
            probs.append(('forward', 'input modified by the forward transform'))
        if fwd.shape != ref.shape or not np.max(np.abs(fwd - ref)) <= tol:
            probs.append(('forward', 'forward != direct sum of the discretised Fourier integral: '
                          'shape {} vs {}, max dev {} (scale {:.3g})'.format(
                              fwd.shape, ref.shape,
                              np.max(np.abs(fwd - ref)) if fwd.shape == ref.shape else 'n/a', scale)))
        out = F.range.element()
        y2, e2 = safe(lambda: F(sp.element(x.copy()), out=out))
        if e2 is not None or not np.max(np.abs(out.asarray() - fwd)) <= tol:
            probs.append(('forward-inplace', 'F(x, out=y) differs from F(x): {!r}'.format(e2)))
        # temporaries and plan reuse
        Ft, _ = safe(lambda: FT(sp, axes=axes, shift=shifts, sign=sign, halfcomplex=hc, impl=impl))
        yt, e3 = safe(lambda: (Ft.create_temporaries(), Ft(sp.element(x.copy())),
                               Ft(sp.element(x.copy())))[2].asarray())
        if e3 is not None or not np.max(np.abs(yt - fwd)) <= tol:
            probs.append(('forward-temporaries', 'with create_temporaries(), second call differs '
                          'from a fresh operator: {!r}'.format(e3)))
    yin = ref.astype(np.result_type(dt, np.complex64))
    xtol = tol_for(dt, max(1.0, float(np.max(np.abs(x))))) * 10
    if impl == 'pyfftw' and not isinstance(fwd, Exception):
        # documented call keyword planning_effort: planners other than 'estimate' overwrite the
        # arrays they plan on; the pyfftw branches transform in place
        for eff in (('measure',) if ctx.quick else ('measure', 'patient')):
            Fm, _ = safe(lambda: FT(sp, axes=axes, shift=shifts, sign=sign, halfcomplex=hc, impl=impl))
            xm = sp.element(x.copy())
            ym, em = safe(lambda: Fm(xm, planning_effort=eff).asarray())
            ok = em is None and np.max(np.abs(ym - ref)) <= tol
            ctx.hit('ft/pyfftw/planning_effort={}'.format(eff))
            if not ok:
                probs.append(('forward-planning-' + eff, 'F(x, planning_effort={!r}) != direct sum: {!r}'.format(
                    eff, em if em is not None else float(np.max(np.abs(ym - ref))))))
            elif not np.array_equal(xm.asarray(), x):
                probs.append(('forward-planning-' + eff, 'input modified'))
            zm, em = safe(lambda: Fm.inverse(Fm.range.element(yin.copy()), planning_effort=eff).asarray())
            if em is not None or not np.max(np.abs(zm - x)) <= xtol:
                probs.append(('inverse-planning-' + eff, 'F.inverse(y, planning_effort={!r}) != x: {!r}'.format(
                    eff, em if em is not None else float(np.max(np.abs(zm - x))))))
        Fp, _ = safe(lambda: FT(sp, axes=axes, shift=shifts, sign=sign, halfcomplex=hc, impl=impl))
        yp, ep = safe(lambda: (Fp.create_temporaries(), Fp.init_fftw_plan(),
                               Fp(sp.element(x.copy())))[2].asarray())
        if ep is not None or not np.max(np.abs(yp - ref)) <= tol:
            probs.append(('forward-init-plan', 'create_temporaries(), init_fftw_plan(), call: {!r}'.format(
                ep if ep is not None else float(np.max(np.abs(yp - ref))))))
    if not isinstance(fwd, Exception):
        # temporaries handed over to the inverse; inverse twice, and with out=
        Ft2, _ = safe(lambda: FT(sp, axes=axes, shift=shifts, sign=sign, halfcomplex=hc, impl=impl))

        def tmp_inverse():
            Ft2.create_temporaries()
            Fi2 = Ft2.inverse
            a = Fi2(Fi2.domain.element(yin.copy())).asarray().copy()
            b = Fi2(Fi2.domain.element(yin.copy())).asarray().copy()
            o = Fi2.range.element()
            Fi2(Fi2.domain.element(yin.copy()), out=o)
            c = Ft2(sp.element(x.copy())).asarray()
            return a, b, o.asarray(), c
        rt, et = safe(tmp_inverse)
        if et is not None or any(not np.max(np.abs(v - x)) <= xtol for v in rt[:3]) or \
                not np.max(np.abs(rt[3] - ref)) <= tol:
            probs.append(('inverse-temporaries', 'inverse sharing temporaries (twice, out=, then forward) '
                          'is wrong: {!r}'.format(et if et is not None else [
                              float(np.max(np.abs(v - x))) for v in rt[:3]])))
    # inverse on the exact forward data
    inv = None
    Fi, e = safe(lambda: F.inverse)
    if e is not None:
        probs.append(('inverse', 'inverse constructor raised {!r}'.format(e)[:300]))
    else:
        yel, _ = safe(lambda: Fi.domain.element(yin.copy()))
        z, e = safe(lambda: Fi(yel))
        inv = e if e is not None else z.asarray()
        if e is not None:
            probs.append(('inverse', 'inverse raised {!r}'.format(e)[:300]))
        else:
            if not np.array_equal(yel.asarray(), yin):
                probs.append(('inverse', 'input modified by the inverse transform'))
            expect = x
            if realdom and not hc:
                expect = x  # C2R: real part of the exact inverse of real data is the data
            if inv.shape != x.shape or not np.max(np.abs(inv - expect)) <= tol_for(
                    dt, max(1.0, float(np.max(np.abs(x))))) * 10:
                probs.append(('inverse', 'inverse(forward(x)) != x: max dev {}'.format(
                    np.max(np.abs(inv - expect)) if inv.shape == x.shape else inv.shape)))
    for what, msg in probs:
        viol(ctx, ft_key(desc, what), msg[:500], desc)
    if oracle_only:
        return probs
    # ---- correspondence with the model
    mimpl = 'np' if impl == 'numpy' else 'fftw'
    # range grid against the model's reciprocal grid, per axis
    rg = F.range.grid
    for ax, sh in zip(axes, shifts):
        n = shape[ax]
        s_eff = float(sp.grid.stride[ax]) if n > 1 else 1.0

        def cbg(ans, ax=ax, s_eff=s_eff):
            f = fields(ans)
            unit = PI / s_eff
            implv = (rg.min_pt[ax] / unit, rg.max_pt[ax] / unit, rg.shape[ax])
            model = (float(core.pfrac(f['min'])), float(core.pfrac(f['max'])), int(f['shape']))
            if implv[2] != model[2] or abs(implv[0] - model[0]) > 1e-12 or abs(implv[1] - model[1]) > 1e-12:
                ctx.disagree(dict(desc, axis=ax), 'range grid ' + str(implv), str(model))
        B.add('recip n={} shift={} hc={}'.format(n, int(sh), int(hc and ax == axes[-1])), cbg)
    x0 = [Fraction(float(v)) for v in sp.grid.min_pt]
    ss = [Fraction(float(v)) if shape[i] > 1 else Fraction(1) for i, v in enumerate(sp.grid.stride)]
    common = 'impl={} plus={{}} hc={} realdom={} rshape={} axes={} shifts={} x0={} s={}'.format(
        mimpl, int(hc), int(realdom), nl(shape), nl(axes), nl(int(b) for b in shifts),
        core.fl(x0), core.fl(ss))

    def cmp(res, ans, what):
        if isinstance(res, Exception):
            if ans != exc_kind(res):
                ctx.disagree(desc, '{}: {} {}'.format(what, exc_kind(res), repr(res)[:100]), ans[:100])
            else:
                ctx.hit('ft/' + what + '/' + ans)
        elif ans == 'ok status-only':
            pass
        else:
            compare_arr(ctx, desc, res, ans, dt, False, what)
    B.add('ft inv=0 ' + common.format(int(sign == '+')) + ' x=' + cl(x),
          lambda ans: cmp(fwd, ans, 'forward'))
    if inv is not None:
        B.add('ft inv=1 ' + common.format(int(sign == '-')) + ' x=' + cl(yin),
              lambda ans: cmp(inv, ans, 'inverse'))
    if not hc:
        # the fibre-wise composition of the one-axis maps ftForwardAxis / ftInverseAxis (the
        # objects of C18.ft_inverse, C18.ft_forward_is_fourier_sum) against the real code
        ctx.hit('ft/model-variant=sep')
        if not isinstance(fwd, Exception):
            B.add('ft variant=sep inv=0 ' + common.format(int(sign == '+')) + ' x=' + cl(x),
                  lambda ans: cmp(fwd, ans, 'forward(sep)'))
        if inv is not None and not isinstance(inv, Exception):
            B.add('ft variant=sep inv=1 ' + common.format(int(sign == '-')) + ' x=' + cl(yin),
                  lambda ans: cmp(inv, ans, 'inverse(sep)'))
    if impl == 'pyfftw' and not hc:
        # in-place pyfftw_call with a destroying planner: model says the data survives
        bad = [pr[0] for pr in probs if 'planning' in pr[0]]

        def cbpl(ans, bad=bad):
            if fields(ans)['survives'] == '1' and bad:
                ctx.disagree(desc, 'planning_effort=measure gave wrong values: {}'.format(bad), ans)
        B.add('plan fresh=1 destroys=1 inplace=1', cbpl)
    return probs


def run_ft(ctx, B, cfgs=None, oracle_only=False):
    for shape, axes, shifts, dt, hc, sign, impl in (cfgs if cfgs is not None else ft_configs(ctx)):
        desc = {'kind': 'ft', 'shape': list(shape), 'axes': list(axes), 'shifts': list(shifts),
                'dtype': dt, 'hc': hc, 'sign': sign, 'impl': impl, 'xseed': ctx.rng.getrandbits(32)}
        run_ft_case(ctx, B, desc, oracle_only)


def run_backend_agreement(ctx):
    """numpy vs pyfftw on the same operator configuration (implementation vs implementation)."""
    odl = _odl()
    from odl.trafos import FourierTransform as FT
    rng = ctx.rng
    reps = 12 if ctx.quick else 80
    for _ in range(reps):
        nd = rng.choice([1, 2, 2, 3])
        shape = tuple(rng.randint(2, 9) for _ in range(nd))
        axes = rng.choice(axes_subsets(nd))
        dt = rng.choice(['float32', 'float64', 'complex64', 'complex128'])
        hc = (not dt.startswith('complex')) and rng.random() < 0.5
        shifts = tuple([True] * len(axes)) if (hc or not dt.startswith('complex')) else \
            tuple(rng.random() < 0.5 for _ in axes)
        sign = '-' if hc else rng.choice(['-', '+'])
        sp = odl.uniform_discr([-1.0] * nd, [1.0] * nd, shape, dtype=dt)
        x = rand_array(rng, shape, dt, small=False)
        desc = {'kind': 'backend', 'shape': shape, 'axes': axes, 'dtype': dt, 'hc': hc,
                'shifts': shifts, 'sign': sign}
        ctx.case(('backend', nd, hc, dt, sign))
        res = {}
        for impl in ('numpy', 'pyfftw'):
            res[impl], e = safe(lambda: FT(sp, axes=axes, shift=shifts, sign=sign, halfcomplex=hc,
                                           impl=impl)(x).asarray())
            if e is not None:
                res[impl] = e
        a, b = res['numpy'], res['pyfftw']
        if isinstance(a, Exception) or isinstance(b, Exception) or \
                not np.max(np.abs(a - b)) <= tol_for(dt, max(1.0, float(np.max(np.abs(a))))):
            viol(ctx, 'ft numpy vs pyfftw halfcomplex={} dtype={} sign={}'.format(hc, dt, sign),
                          'back-ends disagree: {!r} vs {!r}'.format(
                              a if isinstance(a, Exception) else a.ravel()[:3],
                              b if isinstance(b, Exception) else b.ravel()[:3])[:400], desc)


def run_gaussian(ctx):
    """TEST (not a theorem): the FT approximation of a Gaussian converges to the analytic
    transform exp(-|xi|^2/2) under grid refinement."""
    odl = _odl()
    from odl.trafos import FourierTransform as FT
    results = []
    for nd, sizes in ((1, [32, 64, 128, 256]), (2, [16, 32, 64])):
        for impl in ('numpy', 'pyfftw'):
            for hc, shift in ((True, True), (False, True), (False, False)):
                errs = []
                for n in sizes if not ctx.quick else sizes[:3]:
                    sp = odl.uniform_discr([-10.0] * nd, [10.0] * nd, [n] * nd)
                    g = sp.element(lambda p: np.exp(-sum(q ** 2 for q in p) / 2))
                    res, e = safe(lambda: FT(sp, halfcomplex=hc, shift=shift, impl=impl))
                    if e is None:
                        F = res
                        res, e = safe(lambda: (F(g).asarray(), F.range.element(
                            lambda p: np.exp(-sum(q ** 2 for q in p) / 2)).asarray()))
                    ctx.case(('gauss', nd, impl, hc, shift, n))
                    if e is not None:
                        if not (impl == 'pyfftw' and not shift) and not (not shift and hc):
                            viol(ctx, 'ft gaussian nd={} impl={} hc={} shift={}'.format(nd, impl, hc, shift),
                                          repr(e)[:300], {'kind': 'gauss'})
                        errs = None
                        break
                    errs.append(float(np.max(np.abs(res[0] - res[1]))))
                if errs is None:
                    continue
                results.append({'nd': nd, 'impl': impl, 'hc': hc, 'shift': shift, 'errors': errs})
                # second-order convergence: successive errors shrink by ~4 (the finest pair must be
                # in [3.5, 4.5]), and the finest error is bounded by 2x the value measured on the
                # correct code (1-d n=128: 7.3e-4, n=256: 1.8e-4; 2-d n=64: 3.0e-3)
                ratio = errs[-2] / errs[-1] if errs[-1] > 0 else 0.0
                bound = {(1, 3): 1.5e-3, (1, 4): 3.7e-4, (2, 3): 6.0e-3}[(nd, len(errs))]
                if not (3.5 <= ratio <= 4.5 and errs[-1] < bound):
                    viol(ctx, 'ft gaussian convergence nd={} impl={} hc={} shift={}'.format(
                        nd, impl, hc, shift), 'errors under refinement {} (last ratio {:.2f}, bound {})'.format(
                            errs, ratio, bound),
                        {'kind': 'gauss', 'nd': nd, 'impl': impl, 'hc': hc, 'shift': shift})
    ctx.extra['gaussian_convergence_test'] = results[:12]


# --------------------------------------------------------------------------
# E. wavelets

WAVELETS = ['haar', 'db2', 'db3', 'sym2', 'sym4', 'coif1', 'bior2.2', 'bior1.3', 'rbio1.3', 'rbio2.2']
WSHAPES = [(8,), (9,), (13,), (16,), (8, 8), (7, 9), (6, 5), (12, 10), (4, 5, 6), (8, 4, 4)]


def wavelet_configs(ctx):
    rng = ctx.rng
    cfgs = []
    for wv in WAVELETS:
        for shape in WSHAPES:
            for mode in DOCUMENTED_MODES:
                for lev in (1, 2, None):
                    axsets = [None] + ([(0,), (len(shape) - 1,)] if len(shape) > 1 else [])
                    for axes in axsets:
                        for dt in ('float64', 'float32'):
                            cfgs.append((wv, shape, mode, lev, axes, dt))
    rng.shuffle(cfgs)
    if ctx.quick:
        keep = {}
        for c in cfgs:
            wv, shape, mode, lev, axes, dt = c
            for k in ((wv, mode), (mode, len(shape), any(s % 2 for s in shape), lev),
                      (wv, lev, axes is None, dt)):
                if k not in keep:
                    keep[k] = c
        cfgs = list(dict.fromkeys(keep.values()))
        # the adjoint identity needs orthogonal wavelet + periodization + dyadic sizes
        cfgs += [(wv, shape, 'pywt_periodic', lev, None, 'float64', sk)
                 for wv in ('haar', 'db2', 'sym4', 'coif1')
                 for shape, lev in (((8,), 1), ((16,), 2), ((8, 8), 2), ((8, 4, 4), 1))
                 for sk in ('default', 'weighting', 'bdry')]
    else:
        cfgs = cfgs[:2500]
    return cfgs


def shapes_wire(shapes):
    a = 'x'.join(str(int(v)) for v in shapes[0])
    lv = []
    for d in shapes[1:]:
        lv.append('|'.join('{}:{}'.format(k, 'x'.join(str(int(v)) for v in d[k])) for k in d))
    return a, ('/'.join(lv) if lv else '-')


def run_wavelet_case(ctx, B, desc, oracle_only=False):
    import random
    import pywt
    odl = _odl()
    wv, shape, mode, lev, axes, dt = (desc['wavelet'], tuple(desc['shape']), desc['mode'],
                                      desc['nlevels'], desc['axes'], desc['dtype'])
    axes_t = tuple(axes) if axes is not None else None
    r = random.Random(desc['xseed'])
    cv_side = r.choice([1.0, 0.5, 2.0, 0.25])
    skind = desc.get('space', 'default')
    kw = {}
    if skind == 'weighting':      # constant weighting different from the cell volume
        kw['weighting'] = r.choice([3.0, 0.5, 1.0])
    elif skind == 'bdry':         # grid points on the boundary: half cells at the ends
        kw['nodes_on_bdry'] = True if len(shape) == 1 or r.random() < 0.5 else \
            [(True, False)] + [True] * (len(shape) - 1)
    sp = odl.uniform_discr([0] * len(shape), [cv_side * s for s in shape], shape, dtype=dt, **kw)
    x = (np.array([r.randint(-8, 8) for _ in range(int(np.prod(shape)))], dtype=float) / 4
         ).reshape(shape).astype(dt)
    key = 'wavelet {} mode={} nlevels={} ndim={} axes={} dtype={} shape-{} space={}'.format(
        wv, mode, lev, len(shape), axes_t, dt, 'odd' if any(s % 2 for s in shape) else 'even', skind)
    ctx.case(('wavelet', wv, mode, lev, len(shape), tuple(s % 2 for s in shape), axes_t, dt, skind),
             sample=desc if len(ctx.samples) < 11 and shape == (8,) else None)
    ctx.hit('wavelet/' + mode)
    probs = []
    W, e = safe(lambda: odl.trafos.WaveletTransform(sp, wavelet=wv, nlevels=lev, pad_mode=mode,
                                                    axes=axes_t))
    if e is not None:
        viol(ctx, key + ' constructor', repr(e)[:300], desc)
        return ['ctor']
    tol = 1e-4 if dt == 'float32' else 1e-9
    c, e = safe(lambda: W(sp.element(x.copy())))
    if e is not None:
        viol(ctx, key + ' forward', repr(e)[:300], desc)
        return ['fwd']
    carr = c.asarray()
    # ORACLE 1: layout = pywt.wavedecn with the DOCUMENTED mode, blocks a, then sorted keys
    ax_p = axes_t if axes_t is not None else tuple(range(len(shape)))
    with warnings.catch_warnings():
        warnings.simplefilter('ignore')
        ref = pywt.wavedecn(x, wv, mode=DOCUMENTED_MODES[mode], level=W.nlevels, axes=ax_p)
    blocks = [np.asarray(ref[0]).ravel()]
    for d in ref[1:]:
        blocks += [np.asarray(d[k]).ravel() for k in sorted(d)]
    flat = np.concatenate(blocks)
    if flat.shape != carr.shape or not np.max(np.abs(flat - carr)) <= tol * max(1, np.max(np.abs(flat))):
        probs.append('W(x) != concatenation of pywt.wavedecn(x, mode={!r}) blocks (a, then sorted '
                     'detail keys): size {} vs {}, max dev {}'.format(
                         DOCUMENTED_MODES[mode], carr.shape, flat.shape,
                         np.max(np.abs(flat - carr)) if flat.shape == carr.shape else 'n/a'))
    # ORACLE 2: inverse(forward) = id
    xr, e = safe(lambda: W.inverse(c).asarray())
    if e is not None:
        probs.append('inverse raised {!r}'.format(e))
    elif xr.shape != x.shape or not np.max(np.abs(xr - x)) <= tol * 50 * max(1, np.max(np.abs(x))):
        probs.append('W.inverse(W(x)) != x: max dev {}'.format(
            np.max(np.abs(xr - x)) if xr.shape == x.shape else xr.shape))
    # ORACLE 2b: `scales()` (level index of every coefficient, same flattening as W(x)): 0 on the
    # approximation block, i on every detail block of list position i; same for the inverse operator;
    # is_biorthogonal is PyWavelets' flag
    ctx.hit('wavelet/scales')
    lev_blocks = [np.zeros(np.asarray(ref[0]).size, dtype=int)]
    for i, d in enumerate(ref[1:], start=1):
        lev_blocks += [np.full(np.asarray(d[k]).size, i) for k in sorted(d)]
    exp_scales = np.concatenate(lev_blocks)
    scl, e = safe(lambda: (W.scales().asarray(), W.inverse.scales().asarray(), W.is_biorthogonal,
                          W.inverse.is_biorthogonal))
    if e is not None:
        probs.append('scales()/is_biorthogonal raised {!r}'.format(e))
    else:
        for nm, arr in (('W', scl[0]), ('W.inverse', scl[1])):
            if arr.shape != exp_scales.shape or not np.array_equal(np.asarray(arr, dtype=float), exp_scales):
                probs.append('{}.scales() is not the level index of the blocks of W(x): {} vs {}'.format(
                    nm, np.asarray(arr).ravel()[:12], exp_scales[:12]))
        if scl[2] != pywt.Wavelet(wv).biorthogonal or scl[3] != scl[2]:
            probs.append('is_biorthogonal = {} / {} but pywt says {}'.format(scl[2], scl[3],
                                                                             pywt.Wavelet(wv).biorthogonal))
    # ORACLE 3: adjoint identity for orthogonal wavelets with periodization on dyadic sizes
    lv = W.nlevels
    dyadic = all(shape[a] % (2 ** lv) == 0 for a in ax_p) and lv >= 1
    if mode == 'pywt_periodic' and W.is_orthogonal and dyadic:
        ctx.hit('wavelet/adjoint/' + skind)
        y = W.range.element(np.array([r.randint(-8, 8) for _ in range(W.range.size)], dtype=dt) / 4)
        xe = sp.element(x)
        res, e = safe(lambda: (W(xe).inner(y), xe.inner(W.adjoint(y)),
                               W.inverse.adjoint(xe).inner(y), xe.inner(W.inverse(y))))
        if e is not None:
            probs.append('adjoint raised {!r}'.format(e))
        else:
            sc = max(1.0, abs(res[0]), abs(res[2]))
            if abs(res[0] - res[1]) > tol * 100 * sc:
                probs.append('<Wx,y> = {} != <x,W*y> = {} (cell volume {})'.format(
                    res[0], res[1], sp.cell_volume))
            if abs(res[2] - res[3]) > tol * 100 * sc:
                probs.append('<(W^-1)* x,y> = {} != <x,W^-1 y> = {} (cell volume {})'.format(
                    res[2], res[3], sp.cell_volume))
    for p in probs:
        viol(ctx, key, p[:500], desc)
    if oracle_only:
        return probs
    # ---- correspondence: slices, crop, adjoint scale
    with warnings.catch_warnings():
        warnings.simplefilter('ignore')
        shp = pywt.wavedecn_shapes(shape, wv, mode=DOCUMENTED_MODES[mode], level=lv, axes=ax_p)
        rec = pywt.waverecn(ref, wv, mode=DOCUMENTED_MODES[mode], axes=ax_p)
    a_w, d_w = shapes_wire(shp)
    sl = W._coeff_slices
    impl_sl = ['a:{}:{}'.format(sl[0].start or 0, sl[0].stop)]
    for d in sl[1:]:
        impl_sl += ['{}:{}:{}'.format(k, d[k].start, d[k].stop) for k in sorted(d, key=lambda k: d[k].start)]

    def cb(ans):
        if ans != 'ok ' + ' '.join(impl_sl):
            ctx.disagree(desc, 'slices ' + ' '.join(impl_sl)[:300], ans[:300])
    B.add('ravel a={} d={}'.format(a_w, d_w), cb)
    if scl is not None and np.asarray(scl[0]).size <= 600:
        impl_scales = ','.join(str(int(v)) for v in np.asarray(scl[0]).ravel().tolist())
        B.add('scales a={} d={}'.format(a_w, d_w),
              lambda ans, impl_scales=impl_scales: (ans == 'ok s=' + impl_scales) or ctx.disagree(
                  desc, 'scales ' + impl_scales[:200], ans[:200]))
    if carr.size <= 400:
        with warnings.catch_warnings():
            warnings.simplefilter('ignore')
            un = pywt.unravel_coeffs(carr, W._coeff_slices, W._coeff_shapes, output_format='wavedecn')
        ublocks = [np.asarray(un[0]).ravel()]
        for dct in un[1:]:
            ublocks += [np.asarray(dct[k]).ravel() for k in sorted(dct)]

        def cbu(ans, ublocks=ublocks):
            mb = core.pfmat(fields(ans)['blocks'])
            ib = [[Fraction(float(v)) for v in b.tolist()] for b in ublocks]
            if mb != ib:
                ctx.disagree(desc, 'pywt.unravel_coeffs(W(x), _coeff_slices) blocks (sizes {})'.format(
                    [len(b) for b in ib]), 'model unravel blocks sizes {}'.format([len(b) for b in mb]))
        B.add('unravel a={} d={} x={}'.format(a_w, d_w, core.fl(carr.tolist())), cbu)

    def cb2(ans, rec=rec, xr=xr):
        if isinstance(xr, np.ndarray):
            if ans != 'ok keep=' + nl(xr.shape):
                ctx.disagree(desc, 'cropped reconstruction shape {} from {}'.format(xr.shape, rec.shape), ans)
            else:  # the model keeps the LEADING entries of pywt's reconstruction
                lead = rec[tuple(slice(0, k) for k in xr.shape)]
                if not np.max(np.abs(lead - xr)) <= tol * 50 * max(1, np.max(np.abs(x))):
                    ctx.disagree(desc, 'W.inverse(c) is not the leading block of pywt.waverecn', ans)
        elif not ans.startswith('err'):
            ctx.disagree(desc, 'inverse raised', ans)
    B.add('crop recon={} intended={}'.format(nl(rec.shape), nl(shape)), cb2)
    for a in ax_p:
        def cb3(ans, a=a, rec=rec):
            if ans != 'ok 1':
                ctx.disagree(dict(desc, axis=a), 'pywt.waverecn length {} for n={}'.format(
                    rec.shape[a], shape[a]), ans + ' (assumption on PyWavelets violated)')
        B.add('reconok n={} r={}'.format(shape[a], rec.shape[a]), cb3)
    if W.is_orthogonal:
        probe = W.range.element(carr)
        res, e = safe(lambda: (W.adjoint(probe).asarray(), W.inverse(probe).asarray(),
                               W.inverse.adjoint(sp.element(x)).asarray()))
        fracs = sp.partition.boundary_cell_fractions
        const = getattr(sp.weighting, 'const', None)
        if e is None and const is not None:
            line = 'adjweights const={} shape={} fl={} fr={}'.format(
                fs(Fraction(float(const))), nl(shape), core.fl(Fraction(float(f[0])) for f in fracs),
                core.fl(Fraction(float(f[1])) for f in fracs))

            def cb4(ans, res=res):
                w = np.array([float(v) for v in core.pfl(fields(ans)['w'])]).reshape(shape)
                sc = max(1.0, float(np.max(np.abs(res[1])))) / float(np.min(w))
                if not np.max(np.abs(res[0] - res[1] / w)) <= tol * 100 * sc:
                    ctx.disagree(desc, 'W.adjoint(c) != W.inverse(c) / w (model weights), max dev {:.3g}'.format(
                        float(np.max(np.abs(res[0] - res[1] / w)))), ans[:120])
                fw, e2 = safe(lambda: W(sp.element(w * x)).asarray())
                if e2 is not None or not np.max(np.abs(res[2] - fw)) <= tol * 100 * max(
                        1.0, float(np.max(np.abs(fw)))):
                    ctx.disagree(desc, 'W.inverse.adjoint(x) != W(w * x) (model weights)', ans[:120])
            B.add(line, cb4)
    return probs


def run_wavelets(ctx, B, cfgs=None, oracle_only=False):
    for cfg in (cfgs if cfgs is not None else wavelet_configs(ctx)):
        wv, shape, mode, lev, axes, dt = cfg[:6]
        sk = cfg[6] if len(cfg) > 6 else ctx.rng.choice(['default', 'default', 'weighting', 'bdry'])
        desc = {'kind': 'wavelet', 'wavelet': wv, 'shape': list(shape), 'mode': mode, 'nlevels': lev,
                'axes': list(axes) if axes is not None else None, 'dtype': dt, 'space': sk,
                'xseed': ctx.rng.getrandbits(32)}
        run_wavelet_case(ctx, B, desc, oracle_only)


def run_padmode(ctx, B):
    from odl.trafos.backends.pywt_bindings import pywt_pad_mode
    names = list(DOCUMENTED_MODES) + ['Constant', 'ORDER0', 'Pywt_Periodic', 'pywt_per', 'zero',
                                      'smooth', 'periodization', '', 'wrap']
    for name in names:
        for const in (0, 0.0, 1.5):
            res, e = safe(lambda: pywt_pad_mode(name, const))
            desc = {'kind': 'padmode', 'name': name, 'const': const}
            ctx.case(('padmode', name.lower(), const != 0))
            ctx.hit('padmode/' + ('ok' if e is None else 'err'))
            low = name.lower()
            if low in DOCUMENTED_MODES and not (low == 'constant' and const != 0):
                if e is not None or res != DOCUMENTED_MODES[low]:
                    viol(ctx, 'pywt_pad_mode name={}'.format(low),
                                  'documented PyWavelets mode {!r}, got {!r}'.format(
                                      DOCUMENTED_MODES[low], e if e is not None else res), desc)

            def cb(ans, res=res, e=e, desc=desc):
                impl = ('ok ' + str(res)) if e is None else exc_kind(e)
                if ans != impl:
                    ctx.disagree(desc, impl, ans)
            B.add('padmode name={} zero={}'.format(name if name else '""', int(const == 0)), cb)


# --------------------------------------------------------------------------
# F. size stratum and call histories (back-end behaviour depends on the size: FFTW switches
#    algorithms and SIMD/alignment paths; plans are cached per operator instance)

LARGE_SHAPES = [(100,), (128,), (400,), (1000,), (65, 33), (30, 100)]


def _big(rng, shape, dt):
    a = np.array([rng.randint(-8, 8) for _ in range(int(np.prod(shape)))], dtype=float).reshape(shape)
    if np.dtype(dt).kind == 'c':
        a = a + 1j * np.array([rng.randint(-8, 8) for _ in range(a.size)], dtype=float).reshape(shape)
    return a.astype(dt)


def _dft_ops(odl, sp, impl, inverse, hc=False, sign=None):
    from odl.trafos import DiscreteFourierTransform as DFT, DiscreteFourierTransformInverse as IDFT
    if hc:
        return (IDFT(sp, halfcomplex=True, impl=impl) if inverse else DFT(sp, halfcomplex=True, impl=impl))
    # range = domain so that out=x (aliased) is a legal call
    return IDFT(sp, domain=sp, impl=impl) if inverse else DFT(sp, range=sp, impl=impl)


def run_sizes(ctx, B):
    odl = _odl()
    from odl.trafos import FourierTransform as FT
    rng = ctx.rng
    shapes = LARGE_SHAPES if not ctx.quick else [(100,), (128,), (400,), (1000,), (65, 33), (30, 100)]
    for impl in ('numpy', 'pyfftw'):
        for shape in shapes:
            n = int(np.prod(shape))
            nd = len(shape)
            spc = odl.uniform_discr([0] * nd, [1] * nd, shape, dtype='complex128')
            spr = odl.uniform_discr([0] * nd, [1] * nd, shape, dtype='float64')
            for inverse in (False, True):
                refc = (np.fft.ifftn if inverse else np.fft.fftn)
                for mode in ('oop', 'out', 'alias'):
                    x = _big(rng, shape, 'complex128')
                    desc = {'kind': 'size', 'impl': impl, 'shape': shape, 'inverse': inverse, 'mode': mode}
                    ctx.case(('size', impl, shape, inverse, mode))
                    ctx.hit('size/{}/{}'.format(impl, mode))
                    ref = refc(x)
                    tolv = 1e-12 * n * max(1.0, float(np.max(np.abs(ref))))

                    def call():
                        F = _dft_ops(odl, spc, impl, inverse)
                        xe = spc.element(x.copy())
                        if mode == 'oop':
                            return F(xe).asarray(), xe.asarray()
                        if mode == 'out':
                            o = spc.element()
                            o.asarray()[...] = np.nan
                            F(xe, out=o)
                            return o.asarray(), xe.asarray()
                        F(xe, out=xe)
                        return xe.asarray(), None
                    res, e = safe(call)
                    key = 'dft size impl={} {} {} shape={} complex'.format(
                        impl, 'inverse' if inverse else 'forward', mode, shape)
                    if e is not None or not np.max(np.abs(res[0] - ref)) <= tolv:
                        viol(ctx, key, 'differs from numpy.fft on a copy: {!r}'.format(
                            e if e is not None else 'max dev {:.3g} (tol {:.3g})'.format(
                                float(np.max(np.abs(res[0] - ref))), tolv))[:300], desc)
                    elif res[1] is not None and not np.array_equal(res[1], x):
                        viol(ctx, key, 'input modified', desc)
                    # (no model line: the model is size-independent and its naive sum is O(n^2 * n))
            # half-complex forward and inverse (out-of-place and out given)
            for mode in ('oop', 'out'):
                x = _big(rng, shape, 'float64')
                desc = {'kind': 'size', 'impl': impl, 'shape': shape, 'hc': True, 'mode': mode}
                ctx.case(('size-hc', impl, shape, mode))
                ctx.hit('size/{}/hc'.format(impl))
                ref = np.fft.rfftn(x)
                tolv = 1e-12 * n * max(1.0, float(np.max(np.abs(ref))))

                def callhc():
                    F = _dft_ops(odl, spr, impl, False, hc=True)
                    Fi = _dft_ops(odl, spr, impl, True, hc=True)
                    if mode == 'oop':
                        y = F(spr.element(x.copy()))
                        return y.asarray(), Fi(F.range.element(ref.copy())).asarray()
                    o = F.range.element()
                    F(spr.element(x.copy()), out=o)
                    z = spr.element()
                    Fi(F.range.element(ref.copy()), out=z)
                    return o.asarray(), z.asarray()
                res, e = safe(callhc)
                key = 'dft size impl={} halfcomplex {} shape={}'.format(impl, mode, shape)
                if e is not None or not np.max(np.abs(res[0] - ref)) <= tolv or \
                        not np.max(np.abs(res[1] - x)) <= 1e-12 * n * 10:
                    viol(ctx, key, 'forward/inverse differ from numpy.fft: {!r}'.format(
                        e if e is not None else (float(np.max(np.abs(res[0] - ref))),
                                                 float(np.max(np.abs(res[1] - x)))))[:300], desc)
            # continuous FT, in-place pyfftw paths with a destroying planner
            if impl == 'pyfftw':
                for dt in ('complex128', 'float64'):
                    sp = odl.uniform_discr([-1.0] * nd, [1.0] * nd, shape, dtype=dt)
                    x = _big(rng, shape, dt) / 8
                    desc = {'kind': 'size', 'impl': impl, 'shape': shape, 'dtype': dt, 'ft': True}
                    for eff in ('estimate', 'measure'):
                        ctx.case(('size-ft', shape, dt, eff))
                        ctx.hit('size/pyfftw/ft-planning_effort=' + eff)

                        def callft():
                            Fn = FT(sp, halfcomplex=False, impl='numpy')
                            Fp = FT(sp, halfcomplex=False, impl='pyfftw')
                            yn = Fn(x).asarray()
                            yp = Fp(sp.element(x.copy()), planning_effort=eff).asarray()
                            zp = Fp.inverse(Fp.range.element(yn.copy()), planning_effort=eff).asarray()
                            return yn, yp, zp
                        res, e = safe(callft)
                        key = 'ft size impl=pyfftw planning_effort={} dtype={} shape={}'.format(eff, dt, shape)
                        if e is not None or not np.max(np.abs(res[1] - res[0])) <= 1e-12 * n * max(
                                1.0, float(np.max(np.abs(res[0])))) or \
                                not np.max(np.abs(res[2] - x)) <= 1e-12 * n * 10:
                            viol(ctx, key, 'pyfftw differs from the numpy back-end / inverse does not recover '
                                 'x: {!r}'.format(e if e is not None else (
                                     float(np.max(np.abs(res[1] - res[0]))),
                                     float(np.max(np.abs(res[2] - x)))))[:300], desc)


HISTORY_ACTIONS = ('oop', 'out', 'alias', 'init', 'clear')


def run_histories(ctx, B):
    """Sequences of calls on ONE operator instance (cached FFTW plan, temporaries): each result is
    compared with numpy.fft on a copy and with the same call on a fresh operator."""
    odl = _odl()
    from odl.trafos import FourierTransform as FT
    rng = ctx.rng
    base = [('oop', 'alias'), ('alias', 'oop'), ('oop', 'out'), ('out', 'alias'), ('alias', 'out'),
            ('alias', 'alias'), ('init', 'alias'), ('init', 'oop', 'alias'), ('oop', 'init', 'alias'),
            ('alias', 'init', 'oop'), ('oop', 'clear', 'alias'), ('out', 'alias', 'oop', 'alias')]
    extra = [tuple(rng.choice(HISTORY_ACTIONS) for _ in range(6)) for _ in range(3 if ctx.quick else 20)]
    for impl in ('pyfftw', 'numpy'):
        for n in ((8, 128) if ctx.quick else (8, 128, 400)):
            sp = odl.uniform_discr(0, 1, n, dtype='complex128')
            for inverse in (False, True):
                ref = np.fft.ifft if inverse else np.fft.fft
                for seq in base + extra:
                    if impl == 'numpy' and ('init' in seq or 'clear' in seq):
                        continue
                    ctx.case(('history', impl, n, inverse, seq))
                    ctx.hit('history/dft/' + impl)
                    if impl == 'pyfftw':
                        # model: the executed plan always has the in-place-ness of the call
                        cached = 'none'
                        for act in seq:
                            if act == 'clear':
                                cached = 'none'
                            elif act == 'init':
                                cached = '0'
                            else:
                                ip = int(act == 'alias')

                                def cbr(ans, ip=ip, seq=seq):
                                    if ans != 'ok executed={}'.format(ip):
                                        ctx.disagree({'kind': 'history', 'seq': list(seq)},
                                                     'call in-place={}'.format(ip), ans)
                                B.add('planreuse given={} inplace={}'.format(cached, ip), cbr)
                                cached = str(ip)
                    F, e = safe(lambda: _dft_ops(odl, sp, impl, inverse))
                    desc = {'kind': 'history', 'impl': impl, 'n': n, 'inverse': inverse, 'seq': list(seq)}
                    for step, act in enumerate(seq):
                        x = _big(rng, (n,), 'complex128')

                        def do(F=F, act=act, x=x):
                            xe = sp.element(x.copy())
                            if act == 'init':
                                F.init_fftw_plan()
                                return None
                            if act == 'clear':
                                F.clear_fftw_plan()
                                return None
                            if act == 'oop':
                                return F(xe).asarray()
                            if act == 'out':
                                o = sp.element()
                                F(xe, out=o)
                                return o.asarray()
                            F(xe, out=xe)
                            return xe.asarray()
                        got, e = safe(do)
                        if e is None and got is None:
                            continue
                        r = ref(x)
                        tolv = 1e-12 * n * max(1.0, float(np.max(np.abs(r))))
                        if e is not None or not np.max(np.abs(got - r)) <= tolv:
                            viol(ctx, 'dft history impl={} {} n={} seq={} step={} ({})'.format(
                                impl, 'inverse' if inverse else 'forward', n, ','.join(seq), step, act),
                                'call {} of the sequence differs from numpy.fft (and from a fresh operator): '
                                '{!r}'.format(step, e if e is not None else 'max dev {:.3g}'.format(
                                    float(np.max(np.abs(got - r)))))[:300], desc)
                            break
    # FourierTransform histories: planning effort variants, temporaries, plans
    ft_seqs = [('est', 'meas'), ('meas', 'est'), ('tmp', 'meas', 'meas'), ('init', 'meas', 'out'),
               ('meas', 'init', 'est'), ('tmp', 'init', 'out', 'clear', 'meas'), ('out', 'tmp', 'est')]
    for dt in ('complex128', 'float64'):
        for n in ((8, 128) if ctx.quick else (8, 128, 400)):
            sp = odl.uniform_discr(-1.0, 1.0, n, dtype=dt)
            for hc in ((False, True) if dt == 'float64' else (False,)):
                Fn, _ = safe(lambda: FT(sp, halfcomplex=hc, impl='numpy'))
                for seq in ft_seqs:
                    ctx.case(('history-ft', dt, n, hc, seq))
                    ctx.hit('history/ft/pyfftw')
                    Fp, e = safe(lambda: FT(sp, halfcomplex=hc, impl='pyfftw'))
                    desc = {'kind': 'history_ft', 'dtype': dt, 'n': n, 'hc': hc, 'seq': list(seq)}
                    for step, act in enumerate(seq):
                        x = _big(rng, (n,), dt) / 8

                        def do(Fp=Fp, act=act, x=x):
                            if act == 'tmp':
                                Fp.create_temporaries()
                                return None
                            if act == 'init':
                                Fp.init_fftw_plan()
                                return None
                            if act == 'clear':
                                Fp.clear_fftw_plan()
                                Fp.clear_temporaries()
                                return None
                            xe = sp.element(x.copy())
                            if act == 'out':
                                o = Fp.range.element()
                                Fp(xe, out=o)
                                y = o.asarray()
                            else:
                                y = Fp(xe, planning_effort='estimate' if act == 'est' else 'measure').asarray()
                            z = Fp.inverse(Fp.range.element(y.copy()),
                                           planning_effort='measure' if act == 'meas' else 'estimate').asarray()
                            return y, z
                        got, e = safe(do)
                        if e is None and got is None:
                            continue
                        yn = Fn(x).asarray()
                        tolv = 1e-12 * n * max(1.0, float(np.max(np.abs(yn))))
                        if e is not None or not np.max(np.abs(got[0] - yn)) <= tolv or \
                                not np.max(np.abs(got[1] - x)) <= 1e-12 * n * 10:
                            viol(ctx, 'ft history impl=pyfftw dtype={} halfcomplex={} n={} seq={} step={} ({})'.format(
                                dt, hc, n, ','.join(seq), step, act),
                                'call {} differs from the numpy back-end / inverse does not recover x: '
                                '{!r}'.format(step, e if e is not None else (
                                    float(np.max(np.abs(got[0] - yn))), float(np.max(np.abs(got[1] - x)))))[:300],
                                desc)
                            break


# --------------------------------------------------------------------------
# G. wavelet family cross and argument-form strata

WAVELET_FAMILIES = ('haar', 'db', 'sym', 'coif', 'bior', 'rbio', 'dmey')


def run_wavelet_families(ctx, B):
    """Every discrete PyWavelets family: the adjoint is exposed iff the wavelet is ORTHOGONAL
    (pywt's own attribute), with the documented OpNotImplementedError otherwise; when exposed with
    periodization on a dyadic size the adjoint identity holds; inverse(forward) = id always."""
    import pywt
    odl = _odl()
    rng = ctx.rng
    for fam in WAVELET_FAMILIES:
        names = pywt.wavelist(fam, kind='discrete')
        if ctx.quick and len(names) > 3:
            names = [names[0]] + rng.sample(names[1:], 2)
        for wv in names:
            w = pywt.Wavelet(wv)
            n1 = 64 if w.dec_len <= 32 else 128
            variants = [((n1,), None, 'pywt_periodic'), ((n1,), None, rng.choice(
                [m for m in DOCUMENTED_MODES if m != 'pywt_periodic']))]
            if w.dec_len <= 8:
                variants.append(((16, 16), rng.choice([None, (0,), (1,)]), 'pywt_periodic'))
            for shape, axes, mode in variants:
                sp = odl.uniform_discr([0] * len(shape), [2.0] * len(shape), shape)
                desc = {'kind': 'wavelet_family', 'wavelet': wv, 'shape': shape, 'axes': axes, 'mode': mode}
                ctx.case(('wfam', wv, shape, axes, mode))
                ctx.hit('wavelet-family/' + fam)
                key = 'wavelet family={} {} mode={} axes={} orthogonal={}'.format(
                    fam, wv, mode, axes, bool(w.orthogonal))
                W, e = safe(lambda: odl.trafos.WaveletTransform(sp, wavelet=wv, nlevels=1, pad_mode=mode,
                                                                axes=axes))
                if e is not None:
                    viol(ctx, key + ' constructor', repr(e)[:300], desc)
                    continue
                x = sp.element(_big(rng, shape, 'float64') / 4)
                # ODL cannot reconstruct better than its back-end: 'dmey' is an FIR APPROXIMATION of the
                # Meyer wavelet and PyWavelets' own waverecn(wavedecn(x)) is off by ~1e-2; the demanded
                # accuracy is relative to what PyWavelets achieves on the same data
                with warnings.catch_warnings():
                    warnings.simplefilter('ignore')
                    ax_p = axes if axes is not None else tuple(range(len(shape)))
                    cc = pywt.wavedecn(x.asarray(), wv, mode=DOCUMENTED_MODES[mode], level=1, axes=ax_p)
                    rr = pywt.waverecn(cc, wv, mode=DOCUMENTED_MODES[mode], axes=ax_p)
                    rr = rr[tuple(slice(0, k) for k in shape)]
                backend_err = float(np.max(np.abs(rr - x.asarray())))
                rtol_w = max(1e-8, 4 * backend_err)
                rt, e = safe(lambda: W.inverse(W(x)).asarray())
                if e is not None or not np.max(np.abs(rt - x.asarray())) <= rtol_w:
                    viol(ctx, key + ' roundtrip', 'W.inverse(W(x)) != x: {!r}'.format(
                        e if e is not None else float(np.max(np.abs(rt - x.asarray()))))[:300], desc)
                exposed = {}
                for nm, get in (('forward', lambda: W.adjoint), ('inverse', lambda: W.inverse.adjoint)):
                    A, e = safe(get)
                    exposed[nm] = e is None
                    if w.orthogonal:
                        ctx.hit('wavelet-family/adjoint-exposed')
                        if e is not None:
                            viol(ctx, key + ' adjoint-' + nm, 'orthogonal wavelet: adjoint must be exposed, '
                                 'got {!r}'.format(e)[:300], desc)
                    else:
                        ctx.hit('wavelet-family/adjoint-not-exposed')
                        if e is None or type(e).__name__ != 'OpNotImplementedError':
                            y = W.range.element(_big(rng, (W.range.size,), 'float64') / 4)
                            extra = ''
                            if e is None and nm == 'forward':
                                r2, _ = safe(lambda: (W(x).inner(y), x.inner(A(y))))
                                extra = '; returned operator: <Wx,y> = {} but <x,W*y> = {}'.format(*r2) if r2 else ''
                            viol(ctx, key + ' adjoint-' + nm, 'NON-orthogonal wavelet: documented '
                                 'OpNotImplementedError, got {}{}'.format(
                                     'an operator' if e is None else repr(e), extra)[:400], desc)
                if w.orthogonal and mode == 'pywt_periodic' and all(exposed.values()):
                    y = W.range.element(_big(rng, (W.range.size,), 'float64') / 4)
                    r, e = safe(lambda: (W(x).inner(y), x.inner(W.adjoint(y)),
                                         W.inverse.adjoint(x).inner(y), x.inner(W.inverse(y))))
                    atol_w = max(1e-8, 100 * backend_err) * max(1.0, abs(r[0]) if e is None else 1.0)
                    if e is not None or abs(r[0] - r[1]) > atol_w or abs(r[2] - r[3]) > atol_w:
                        viol(ctx, key + ' adjoint-identity', '{!r}'.format(e if e is not None else r)[:300], desc)

                def cb(ans, exposed=dict(exposed), desc=desc):
                    m = ans == 'ok 1'
                    if exposed.get('forward') != m or exposed.get('inverse') != m:
                        ctx.disagree(desc, 'adjoint exposed: {}'.format(exposed), ans)
                B.add('adjexposed orth={} weights=1'.format(int(bool(w.orthogonal))), cb)


def _same_op(a, b, x):
    """None if operators a, b have equal domain, range (incl. grid) and values on x, else a text"""
    if a.domain != b.domain:
        return 'domains differ'
    if a.range != b.range:
        return 'ranges differ: {!r} vs {!r}'.format(a.range, b.range)[:300]
    ya, yb = a(x), b(x)
    d = float(np.max(np.abs(np.asarray(ya) - np.asarray(yb)))) if np.asarray(ya).size else 0.0
    if d > 1e-12 * max(1.0, float(np.max(np.abs(np.asarray(ya))))):
        return 'values differ by {:.3g}'.format(d)
    return None


def axes_forms(canon, ndim):
    """documented spellings of the canonical axes tuple `canon`"""
    forms = [('tuple', tuple(canon)), ('list', list(canon)), ('ndarray', np.array(canon)),
             ('negative', tuple(a - ndim for a in canon))]
    if len(canon) == 1:
        a = canon[0]
        forms += [('int', int(a)), ('np.int64', np.int64(a)), ('negative-int', int(a - ndim))]
    if list(canon) == list(range(len(canon))):
        forms.append(('range', range(len(canon))))
    return forms


def run_argforms(ctx, B):
    odl = _odl()
    import pywt
    from odl.trafos import (DiscreteFourierTransform as DFT, DiscreteFourierTransformInverse as IDFT,
                            FourierTransform as FT, FourierTransformInverse as IFT, WaveletTransform as WT)
    from odl.trafos.util.ft_utils import reciprocal_grid, dft_preprocess_data, dft_postprocess_data
    rng = ctx.rng
    for shape in ((3, 4), (2, 3, 4)):
        nd = len(shape)
        spc = odl.uniform_discr([-1.0] * nd, [1.0] * nd, shape, dtype='complex128')
        spr = odl.uniform_discr([-1.0] * nd, [1.0] * nd, shape)
        xc = spc.element(_big(rng, shape, 'complex128') / 4)
        canons = [(0,), (nd - 1,), tuple(range(nd))] + ([(0, nd - 1)] if nd == 3 else [])
        for canon in canons:
            forms = axes_forms(canon, nd)
            if canon == tuple(range(nd)):
                forms.append(('None', None))
            for fname, form in forms:
                for cname, mk in (('DFT', lambda ax: DFT(spc, axes=ax, impl='numpy')),
                                  ('IDFT', lambda ax: IDFT(spc, axes=ax, impl='numpy')),
                                  ('FT', lambda ax: FT(spc, axes=ax, impl='numpy')),
                                  ('IFT', lambda ax: IFT(spc, axes=ax, impl='numpy')),
                                  ('FT-hc', lambda ax: FT(spr, axes=ax, impl='numpy', halfcomplex=True))):
                    if cname.startswith(('FT', 'IFT')) and form is None:
                        continue      # None is documented for the DFT operators only
                    desc = {'kind': 'argform', 'class': cname, 'shape': shape, 'axes_form': fname,
                            'axes': repr(form), 'canonical': canon}
                    ctx.case(('argform-axes', cname, shape, canon, fname))
                    ctx.hit('argform/{}/axes'.format('dft' if 'DFT' in cname else 'ft'))
                    res, e = safe(lambda: (mk(form), mk(canon)))
                    key = 'argument form {} axes={} ({}) canonical={} ndim={}'.format(
                        cname, form if not isinstance(form, np.ndarray) else list(form), fname, canon, nd)
                    if e is not None:
                        viol(ctx, key, 'constructor raised {!r}'.format(e)[:300], desc)
                        continue
                    a, b = res
                    xin = (a.domain.element(_big(rng, a.domain.shape, str(a.domain.dtype)) / 4))
                    pr, e = safe(lambda: _same_op(a, b, xin))
                    if e is not None or pr is not None or tuple(a.axes) != tuple(canon):
                        viol(ctx, key, 'differs from the operator built with axes={}: {} (axes attribute '
                             '{})'.format(canon, pr if e is None else repr(e), getattr(a, 'axes', None))[:400], desc)

                    def cb(ans, a=a, desc=desc):
                        if ans != 'ok ' + nl(a.axes):
                            ctx.disagree(desc, 'axes attribute {}'.format(a.axes), ans)
                    wire = 'none' if form is None else (str(int(form)) if np.ndim(form) == 0 else nl(list(form)))
                    if cname == 'DFT':
                        B.add('normaxes ndim={} axes={}'.format(nd, wire), cb)
        # shift / halfcomplex / impl / sign forms (FT)
        for canon_shift in ((True,) * nd, (False,) * nd, tuple(i % 2 == 0 for i in range(nd))):
            sforms = [('tuple', canon_shift), ('list', list(canon_shift)), ('ndarray', np.array(canon_shift))]
            if len(set(canon_shift)) == 1:
                sforms += [('bool', canon_shift[0]), ('np.bool_', np.bool_(canon_shift[0]))]
            for fname, form in sforms:
                ctx.case(('argform-shift', shape, canon_shift, fname))
                ctx.hit('argform/ft/shift')
                res, e = safe(lambda: (FT(spc, shift=form, impl='numpy'), FT(spc, shift=canon_shift, impl='numpy')))
                key = 'argument form FT shift={!r} ({}) ndim={}'.format(
                    form if not isinstance(form, np.ndarray) else list(form), fname, nd)
                pr = None if e is not None else _same_op(res[0], res[1], xc)
                if e is not None or pr is not None:
                    viol(ctx, key, 'differs from shift={}: {}'.format(canon_shift, pr if e is None else repr(e))[:300],
                         {'kind': 'argform', 'shape': shape, 'shift_form': fname})
                # ft_utils functions with the same forms
                ctx.hit('argform/ft_utils')
                r2, e = safe(lambda: (reciprocal_grid(spc.grid, shift=form), reciprocal_grid(spc.grid, shift=canon_shift),
                                      dft_preprocess_data(xc.asarray(), shift=form),
                                      dft_preprocess_data(xc.asarray(), shift=canon_shift)))
                if e is not None or r2[0] != r2[1] or not np.array_equal(r2[2], r2[3]):
                    viol(ctx, 'argument form ft_utils shift={!r} ({})'.format(
                        form if not isinstance(form, np.ndarray) else list(form), fname),
                        'reciprocal_grid / dft_preprocess_data differ from the tuple form: {!r}'.format(e)[:300],
                        {'kind': 'argform'})
        for fname, kw, ckw in (('halfcomplex np.bool_', dict(halfcomplex=np.bool_(True)), dict(halfcomplex=True)),
                               ('halfcomplex default', dict(), dict(halfcomplex=True)),
                               ('impl upper-case', dict(impl='NumPy', halfcomplex=True), dict(impl='numpy', halfcomplex=True)),
                               ('sign default', dict(impl='numpy'), dict(impl='numpy', sign='-'))):
            ctx.case(('argform-misc', shape, fname))
            ctx.hit('argform/ft/options')
            kw.setdefault('impl', 'numpy')
            ckw.setdefault('impl', 'numpy')
            res, e = safe(lambda: (FT(spr, **kw), FT(spr, **ckw)))
            pr = None if e is not None else _same_op(res[0], res[1], spr.element(_big(rng, shape, 'float64')))
            if e is not None or pr is not None:
                viol(ctx, 'argument form FT {} ndim={}'.format(fname, nd), '{}'.format(pr if e is None else repr(e))[:300],
                     {'kind': 'argform'})
        # ft_utils with axes forms
        for canon in [(0,), (nd - 1,)]:
            for fname, form in axes_forms(canon, nd):
                ctx.case(('argform-utils', shape, canon, fname))
                ctx.hit('argform/ft_utils')
                r2, e = safe(lambda: (reciprocal_grid(spc.grid, shift=True, axes=form),
                                      reciprocal_grid(spc.grid, shift=True, axes=canon),
                                      dft_preprocess_data(xc.asarray(), shift=False, axes=form),
                                      dft_preprocess_data(xc.asarray(), shift=False, axes=canon)))
                if e is not None or r2[0] != r2[1] or not np.array_equal(r2[2], r2[3]):
                    viol(ctx, 'argument form ft_utils axes={} ({}) canonical={}'.format(
                        form if not isinstance(form, np.ndarray) else list(form), fname, canon),
                        'reciprocal_grid / dft_preprocess_data differ from the tuple form: {!r}'.format(e)[:300],
                        {'kind': 'argform'})
        # documented equivalences
        ctx.hit('equiv/inverse-inverse')
        for cname, F in (('DFT', DFT(spc, impl='numpy')), ('FT', FT(spc, impl='numpy', shift=(True,) + (False,) * (nd - 1))),
                         ('FT-hc', FT(spr, impl='numpy'))):
            xin = F.domain.element(_big(rng, shape, str(F.domain.dtype)) / 4)
            ctx.case(('equiv', cname, shape))
            pr, e = safe(lambda: _same_op(F.inverse.inverse, F, xin))
            if e is not None or pr is not None:
                viol(ctx, 'equivalence {} inverse.inverse ndim={}'.format(cname, nd), str(pr if e is None else repr(e))[:300],
                     {'kind': 'equiv'})
            ctx.hit('equiv/adjoint-adjoint')
            pr, e = safe(lambda: (_same_op(F.adjoint.adjoint, F, xin), _same_op(F.adjoint, F.inverse, F(xin))))
            if e is not None or any(p is not None for p in pr):
                viol(ctx, 'equivalence {} adjoint.adjoint / adjoint = inverse ndim={}'.format(cname, nd),
                     str(pr if e is None else repr(e))[:300], {'kind': 'equiv'})
        ctx.hit('equiv/axes-split')
        for shifts in ((True,) * nd, tuple(i % 2 == 1 for i in range(nd))):
            def split():
                Fall = FT(spc, impl='numpy', shift=shifts)
                y = xc
                for a in range(nd):
                    Fa = FT(y.space, axes=a, impl='numpy', shift=shifts[a])
                    y = Fa(y)
                return Fall(xc).asarray(), y.asarray(), Fall.range.grid, y.space.grid
            r, e = safe(split)
            ctx.case(('equiv-split', shape, shifts))
            if e is not None or not np.max(np.abs(r[0] - r[1])) <= 1e-12 * max(1.0, float(np.max(np.abs(r[0])))) \
                    or not r[2].approx_equals(r[3], atol=1e-12):
                viol(ctx, 'equivalence FT axis by axis (axes=0, then 1, ...) vs all axes ndim={} shifts={}'.format(nd, shifts),
                     '{!r}'.format(e if e is not None else float(np.max(np.abs(r[0] - r[1]))))[:300], {'kind': 'equiv'})
        ctx.hit('equiv/sign-normalisation')
        for sign in ('-', '+'):
            for axes in (tuple(range(nd)), (0,)):
                N = int(np.prod([shape[a] for a in axes]))
                r, e = safe(lambda: (DFT(spc, axes=axes, sign=sign, impl='numpy')(xc).asarray(),
                                     IDFT(spc, axes=axes, sign=sign, impl='numpy')(xc).asarray()))
                ctx.case(('equiv-sign', shape, sign, axes))
                if e is not None or not np.max(np.abs(r[0] - N * r[1])) <= 1e-12 * max(1.0, float(np.max(np.abs(r[0])))):
                    viol(ctx, 'equivalence DFT(sign={s}) = prod(shape[axes]) * IDFT(sign={s}) axes={a} ndim={n}'.format(
                        s=sign, a=axes, n=nd), '{!r}'.format(e if e is not None else float(np.max(np.abs(r[0] - N * r[1]))))[:300],
                        {'kind': 'equiv'})
    # wavelet argument forms
    spw = odl.uniform_discr([0, 0], [1, 1], (8, 12))
    xw = spw.element(_big(rng, (8, 12), 'float64') / 4)
    for canon in ((0,), (1,), (0, 1)):
        forms = axes_forms(canon, 2) + ([('None', None)] if canon == (0, 1) else [])
        for fname, form in forms:
            ctx.case(('argform-wavelet', canon, fname))
            ctx.hit('argform/wavelet/axes')
            res, e = safe(lambda: (WT(spw, 'db2', nlevels=1, pad_mode='symmetric', axes=form),
                                   WT(spw, 'db2', nlevels=1, pad_mode='symmetric', axes=canon)))
            pr = None if e is not None else _same_op(res[0], res[1], xw)
            if e is None and pr is None:
                pr = _same_op(res[0].inverse, res[1].inverse, res[1](xw))
            if e is not None or pr is not None:
                viol(ctx, 'argument form WaveletTransform axes={} ({}) canonical={}'.format(
                    form if not isinstance(form, np.ndarray) else list(form), fname, canon),
                    '{}'.format(pr if e is None else repr(e))[:300], {'kind': 'argform'})
    for fname, kw, ckw in (('pad_mode upper-case', dict(pad_mode='Symmetric'), dict(pad_mode='symmetric')),
                           ('pad_mode default', dict(), dict(pad_mode='constant', pad_const=0)),
                           ('pad_const 0.0', dict(pad_mode='constant', pad_const=0.0), dict(pad_mode='constant')),
                           ('nlevels np.int64', dict(nlevels=np.int64(2)), dict(nlevels=2)),
                           ('nlevels None = max', dict(nlevels=None),
                            dict(nlevels=pywt.dwtn_max_level((8, 12), 'db2'))),
                           ('wavelet object', dict(wavelet=pywt.Wavelet('db2')), dict(wavelet='db2')),
                           ('wavelet upper-case', dict(wavelet='DB2'), dict(wavelet='db2'))):
        ctx.case(('argform-wavelet-misc', fname))
        ctx.hit('argform/wavelet/options')
        base = dict(wavelet='db2', nlevels=1)
        res, e = safe(lambda: (WT(spw, **dict(base, **kw)), WT(spw, **dict(base, **ckw))))
        pr = None if e is not None else _same_op(res[0], res[1], xw)
        if e is not None or pr is not None:
            viol(ctx, 'argument form WaveletTransform {}'.format(fname), '{}'.format(pr if e is None else repr(e))[:300],
                 {'kind': 'argform'})


def run_rejections(ctx, B):
    """Constructor rejection paths (malformed stream): forward sign '+' with halfcomplex, and a
    non-shifted halved axis.  ORACLE: the documented rule; correspondence: the model's status."""
    odl = _odl()
    from odl.trafos import (DiscreteFourierTransform as DFT, DiscreteFourierTransformInverse as IDFT,
                            FourierTransform as FT, FourierTransformInverse as IFT)
    for dt in ('float64', 'complex128'):
        sp = odl.uniform_discr([0, 0], [1, 1], (4, 5), dtype=dt)
        real = dt == 'float64'
        for cls, name, inverse in ((DFT, 'dft', False), (IDFT, 'dft', True), (FT, 'ft', False),
                                   (IFT, 'ft', True)):
            for sign in ('-', '+'):
                for hc in (False, True):
                    for shifts in (((True, True), (True, False)) if name == 'ft' else (None,)):
                        kw = dict(sign=sign, halfcomplex=hc, impl='numpy')
                        if shifts is not None:
                            kw['shift'] = shifts
                        res, e = safe(lambda: cls(sp, **kw))
                        fwdplus = (sign == '+') != inverse
                        hce = hc and real
                        expect_err = (fwdplus and hce) or (name == 'ft' and hce and not shifts[-1])
                        desc = {'kind': 'ctor', 'class': cls.__name__, 'dtype': dt, 'sign': sign,
                                'hc': hc, 'shifts': shifts}
                        ctx.case(('ctor', cls.__name__, dt, sign, hc, shifts))
                        ctx.hit('ctor/' + ('rejects' if e is not None else 'accepts'))
                        got = None if e is None else exc_kind(e)
                        if (got == 'err:value') != expect_err or (got not in (None, 'err:value')):
                            viol(ctx, 'constructor {} dtype={} sign={} halfcomplex={} shift={}'.format(
                                cls.__name__, dt, sign, hc, shifts),
                                'documented: {}; got {!r}'.format(
                                    'ValueError' if expect_err else 'accepted', e), desc)

                        def cb(ans, got=got, desc=desc):
                            if ans != (got or 'ok'):
                                ctx.disagree(desc, got or 'ok', ans)
                        B.add('ctor kind={} fwdplus={} hc={} lastshift={}'.format(
                            name, int(fwdplus), int(hce), int(shifts[-1]) if shifts else 1), cb)


# --------------------------------------------------------------------------

EXPECTED_BRANCHES = [
    'ft/mixed shift + equal lengths', 'factors/mixed shift + equal lengths',
    'size/numpy/oop', 'size/numpy/alias', 'size/pyfftw/oop', 'size/pyfftw/out', 'size/pyfftw/alias',
    'size/pyfftw/hc', 'size/numpy/hc', 'size/pyfftw/ft-planning_effort=measure',
    'history/dft/pyfftw', 'history/dft/numpy', 'history/ft/pyfftw',
    'wavelet-family/haar', 'wavelet-family/db', 'wavelet-family/sym', 'wavelet-family/coif',
    'wavelet-family/bior', 'wavelet-family/rbio', 'wavelet-family/dmey',
    'wavelet-family/adjoint-exposed', 'wavelet-family/adjoint-not-exposed',
    'argform/dft/axes', 'argform/ft/axes', 'argform/ft/shift', 'argform/ft/options', 'argform/ft_utils',
    'argform/wavelet/axes', 'argform/wavelet/options', 'equiv/inverse-inverse', 'equiv/adjoint-adjoint',
    'equiv/axes-split', 'equiv/sign-normalisation',
    'factors_nd/mixed-shift-equal-lengths', 'factors_nd/mixed-shift', 'factors_nd/uniform-shift',
    'ft/numpy/c2c/mixedshift', 'ft/pyfftw/c2c/mixedshift', 'ft/numpy/r2c/mixedshift',
    'ft/pyfftw/r2c/mixedshift', 'ft/numpy/hc/allshift', 'ft/pyfftw/hc/allshift',
    'ft/model-variant=sep', 'ft/pyfftw/planning_effort=measure',
    'recip/odd/shift/hc', 'recip/even/noshift/hc', 'recip/odd/noshift/hc', 'recip/even/shift/hc',
    'pre/shift', 'pre/noshift', 'dft/numpy/hc/minus', 'dft/pyfftw/hc/minus', 'dft/numpy/full/plus',
    'dft/pyfftw/full/plus', 'wavelet/adjoint/default', 'wavelet/adjoint/weighting',
    'wavelet/adjoint/bdry', 'adjoint/forward-op/full', 'adjoint/forward-op/hc', 'adjoint/inverse-op/full',
    'adjoint/inverse-op/hc', 'adjoint/scaled-identity', 'adjoint/exponent-not-2', 'dftctor/default-range/one-point-axis',
    'dftctor/default-range/ok', 'dftctor/given-range', 'dft/one-point-axis', 'wavelet/scales', 'dft/base-class-direct', 'ft/postprocess-default-out',
    'pyfftw_call/direct/forward/full', 'pyfftw_call/direct/forward/hc',
    'pyfftw_call/direct/backward/full', 'pyfftw_call/direct/backward/hc', 'pyfftw_call/direct/plan-reuse',
    'pyfftw_call/direct/plan-aliasing-mismatch', 'pyfftw_call/direct/threads=cpu_count',
    'pyfftw_call/direct/axes=None', 'pyfftw_call/direct/wisdom/import-missing-file',
    'pyfftw_call/direct/wisdom/export-filename', 'pyfftw_call/direct/wisdom/import-filename',
    'pyfftw_call/direct/wisdom/export-handle', 'pyfftw_call/direct/wisdom/import-handle',
    'pyfftw_call/direct/rejects', 'pyfftw_call/direct/real-input-full', 'ctor/rejects', 'ctor/accepts', 'padmode/err', 'padmode/ok']

_STATE = {'extraction_broken': False}


def regenerate(ctx):
    _STATE['extraction_broken'] = False
    out = []
    for name, mod in (('extract(PAD_MODES_ODL2PYWT -> Gen/WaveletPad.lean)', extract_waveletpad),
                      ('extract(reciprocal_grid, dft_postprocess_data tables -> Gen/RecipGrid.lean)',
                       extract_recipgrid)):
        try:
            changed = mod.regenerate()
            detail = 'regenerated' if changed else 'unchanged'
            if getattr(mod, 'LAST', None):
                detail += ' (source={})'.format(mod.LAST['source'])
                ctx.extra['recipgrid_table_source'] = dict(mod.LAST)
            out.append((name, True, detail))
        except Exception as e:  # grammar no longer matches the source: broken obligation
            _STATE['extraction_broken'] = True
            out.append((name, False, '{}: {}'.format(type(e).__name__, e)))
    return out


def run(ctx):
    B = Batch(ctx)
    run_grids(ctx, B)
    run_factors(ctx, B)
    run_factors_nd(ctx, B)
    B.flush()
    run_dft(ctx, B)
    run_dft_complex_hc(ctx, B)
    run_adjoint(ctx, B)
    run_pyfftw_direct(ctx, B)
    B.flush()
    run_ft(ctx, B)
    B.flush()
    run_backend_agreement(ctx)
    run_gaussian(ctx)
    run_padmode(ctx, B)
    run_rejections(ctx, B)
    run_sizes(ctx, B)
    run_histories(ctx, B)
    run_wavelet_families(ctx, B)
    run_argforms(ctx, B)
    run_wavelets(ctx, B)
    B.flush()
    # generator coverage that must not get lost silently
    missing = [b for b in EXPECTED_BRANCHES if not ctx.branches.get(b)]
    ctx.extra['unhit_expected_branches'] = missing
    for b in missing:
        ctx.disagree({'kind': 'coverage'}, 'expected branch never generated', b)
    # The runner starts `search` only when NO violation was seen; the open known finding is seen
    # on every run, so a broken extraction / a disagreement with only known violations would
    # never be searched.  Do it here.
    known = core.load_known('C18')
    unexplained = [v for v in ctx.violations if core.match_known(v, known) is None]
    if (ctx.disagreements or _STATE['extraction_broken']) and not unexplained:
        ctx.notes.append('deep search started from run(): extraction broken={} disagreements={}'.format(
            _STATE['extraction_broken'], len(ctx.disagreements)))
        search(ctx, [])


def search(ctx, broken):
    """An obligation / the extraction / the correspondence broke but the oracle was silent in
    `run`: enumerate thoroughly on the REAL code with the oracle only."""
    saved = ctx.tier
    ctx.tier = 'thorough'
    B = Batch(ctx)
    try:
        run_grids(ctx, B)
        run_factors(ctx, B)
        run_factors_nd(ctx, B)
        B.lines, B.cbs = [], []
        run_dft(ctx, B, oracle_only=True)
        run_adjoint(ctx, B, oracle_only=True)
        run_pyfftw_direct(ctx, B, oracle_only=True)
        run_ft(ctx, B, oracle_only=True)
        run_backend_agreement(ctx)
        run_padmode(ctx, B)
        run_sizes(ctx, B)
        run_histories(ctx, B)
        run_wavelet_families(ctx, B)
        run_argforms(ctx, B)
        B.lines, B.cbs = [], []
        run_wavelets(ctx, B, oracle_only=True)
    finally:
        ctx.tier = saved


def replay(ctx, case):
    B = Batch(ctx)
    n0 = len(ctx.violations)
    kind = case.get('kind')
    if kind == 'dft':
        run_dft_case(ctx, B, case, oracle_only=True)
    elif kind == 'ft':
        run_ft_case(ctx, B, case, oracle_only=True)
    elif kind == 'dftadj':
        run_adjoint_case(ctx, B, case, oracle_only=True)
    elif kind and kind.startswith('pyfftw_direct'):
        run_pyfftw_direct(ctx, B, oracle_only=True)
    elif kind == 'dftadj-exponent':
        run_adjoint(ctx, B, cfgs=[], oracle_only=True)
    elif kind == 'wavelet':
        run_wavelet_case(ctx, B, case, oracle_only=True)
    elif kind == 'dft_complex_hc':
        run_dft_complex_hc(ctx)
    else:
        run_grids(ctx, B)
        run_factors(ctx, B)
        run_padmode(ctx, B)
    new = ctx.violations[n0:]
    return '; '.join(v['key'] + ' :: ' + v['what'] for v in new[:3]) if new else None
