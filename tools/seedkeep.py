#!/usr/bin/env python3
"""tools/seedkeep.py Cxx /tmp/seed_cxx [--tier quick] [--only bugN]

For every seeded bug delivered by an independent agent under <dir>/out/bug*/ :
  1. confirm the demo passes on the unmodified scratch worktree and fails with the patch,
  2. confirm the repository's own test suite still passes with the patch (3873 passed),
  3. run ./check Cxx against the patched scratch worktree (ODL_REPO=…; /repo is never touched),
  4. keep the bug as /verif/seeded/<Cxx>-<n>/ {patch.diff, demo.py, meta.json} with what was run
     and whether / how the check detected it.
Nothing is kept unless 1 and 2 hold.
"""
import json
import os
import re
import shutil
import subprocess
import sys
import time

HERE = os.path.dirname(os.path.dirname(os.path.abspath(__file__)))
BASE_PASSED = 3873


def sh(cmd, cwd=None, env=None, timeout=3600):
    e = dict(os.environ)
    if env:
        e.update(env)
    p = subprocess.run(cmd, shell=True, cwd=cwd, env=e, stdout=subprocess.PIPE,
                       stderr=subprocess.STDOUT, text=True, timeout=timeout)
    return p.returncode, p.stdout


def main():
    pid, d = sys.argv[1], sys.argv[2].rstrip('/')
    tier = 'quick'
    only = None
    base = 0
    if '--base' in sys.argv:
        base = int(sys.argv[sys.argv.index('--base') + 1])
    if '--tier' in sys.argv:
        tier = sys.argv[sys.argv.index('--tier') + 1]
    if '--only' in sys.argv:
        only = sys.argv[sys.argv.index('--only') + 1]
    # --neutral: the delivered changes are HARMLESS rewrites (demo passes in both states); the
    # check is expected to stay silent; kept under /verif/neutral/ with what the check said
    neutral = '--neutral' in sys.argv
    wt = os.path.join(d, 'wt')
    # bring the scratch worktree to /repo's current HEAD (fix commits land continuously; the
    # models follow /repo HEAD, so a seed must be judged on top of it)
    sh('git checkout -q -- . && git clean -fdq', cwd=wt)
    rch, head = sh('git -C /repo rev-parse HEAD')
    sh('git checkout -q --detach ' + head.strip(), cwd=wt)
    bugs = sorted(b for b in os.listdir(os.path.join(d, 'out')) if b.startswith('bug'))
    for b in bugs:
        if only and b != only:
            continue
        bd = os.path.join(d, 'out', b)
        patch = os.path.join(bd, 'patch.diff')
        if not os.path.exists(patch):
            continue
        sh('git checkout -q -- . && git clean -fdq', cwd=wt)
        rc0, out0 = sh('/venv/bin/python demo.py', cwd=bd, env={'PYTHONPATH': wt})
        rca, outa = sh('git apply ' + patch, cwd=wt)
        if rca != 0:
            print('== {} {}: patch does not apply: {}'.format(pid, b, outa[-200:]))
            continue
        rc1, out1 = sh('/venv/bin/python demo.py', cwd=bd, env={'PYTHONPATH': wt})
        rct, outt = sh('/venv/bin/python -m pytest -q -p no:cacheprovider --timeout=900 -n 6 '
                       '2>&1 | tail -3', cwd=wt, env={'PYTHONPATH': wt})
        m = re.search(r'(\d+) passed', outt)
        passed = int(m.group(1)) if m else -1
        failed = re.search(r'(\d+) failed', outt)
        tries = 0
        while (passed != BASE_PASSED or failed) and passed >= BASE_PASSED - 2 and tries < 2:
            # the suite has a rare load-dependent flake (also on the clean tree): re-run
            tries += 1
            rct, outt = sh('/venv/bin/python -m pytest -q -p no:cacheprovider --timeout=900 -n 4 '
                           '2>&1 | tail -3', cwd=wt, env={'PYTHONPATH': wt})
            m = re.search(r'(\d+) passed', outt)
            passed = int(m.group(1)) if m else -1
            failed = re.search(r'(\d+) failed', outt)
        ok_demo = (rc0 == 0 and rc1 == 0) if neutral else (rc0 == 0 and rc1 != 0)
        ok_suite = (passed == BASE_PASSED and not failed)
        t0 = time.time()
        rcc, outc = sh('./check {} --tier {}'.format(pid, tier), cwd=HERE, env={'ODL_REPO': wt})
        wall = time.time() - t0
        vio = [l for l in outc.split('\n') if l.startswith('VIOLATION')]
        fail_inputs = [l.strip() for l in outc.split('\n') if l.strip().startswith('failing input')
                       or l.strip().startswith('no longer checks')]
        detected = bool(vio)
        how = 'silent (as it should be)' if neutral else 'missed'
        if detected:
            how = 'no-failing-input-found (broken obligation only)' \
                if vio[0].rstrip().endswith('no-failing-input-found') \
                else 'violation with concrete failing input'
        summ = outc.strip().split('\n')[-1]
        print('== {} {}: demo clean rc={} patched rc={} | suite passed={} | check rc={} {} ({:.0f}s)'
              .format(pid, b, rc0, rc1, passed, rcc, how, wall))
        for l in fail_inputs[:3]:
            print('     ' + l[:300])
        print('     ' + summ[:300])
        if not (ok_demo and ok_suite):
            print('     NOT KEPT (demo or suite condition not met)')
            sh('git checkout -q -- . && git clean -fdq', cwd=wt)
            continue
        meta = {}
        try:
            with open(os.path.join(bd, 'meta.json')) as f:
                meta = json.load(f)
        except Exception:
            pass
        n = str(base + int(re.sub(r'\D', '', b) or '0'))
        dest = os.path.join(HERE, 'neutral' if neutral else 'seeded', '{}-{}'.format(pid, n))
        os.makedirs(dest, exist_ok=True)
        shutil.copy(patch, os.path.join(dest, 'patch.diff'))
        shutil.copy(os.path.join(bd, 'demo.py'), os.path.join(dest, 'demo.py'))
        meta_out = {
            'property': pid,
            'summary': meta.get('summary', ''),
            'needs': meta.get('needs', '') or meta.get('why_harmless', ''),
            'kind': 'harmless rewrite (property still holds)' if neutral else 'seeded defect',
            'rounding_may_differ': meta.get('rounding_may_differ', None),
            'files': meta.get('files', []),
            'origin': 'independent sub-agent given only the property text and a scratch worktree',
            'repo_head_when_confirmed': head.strip()[:10],
            'confirmed': {
                'demo_on_unmodified_tree': 'exit {} ({})'.format(rc0, out0.strip().split('\n')[-1][:120]),
                'demo_with_patch': 'exit {} ({})'.format(rc1, out1.strip().split('\n')[-1][:200]),
                'test_suite_with_patch': '{} passed (baseline {})'.format(passed, BASE_PASSED),
                'commands': [
                    'git -C <scratch worktree> apply patch.diff',
                    'PYTHONPATH=<scratch worktree> /venv/bin/python demo.py',
                    'cd <scratch worktree> && PYTHONPATH=<scratch worktree> /venv/bin/python -m pytest -q -p no:cacheprovider --timeout=900 -n 6',
                    'ODL_REPO=<scratch worktree> ./check {} --tier {}'.format(pid, tier)],
            },
            'check_result': {
                'tier': tier, 'exit': rcc, 'detected': detected, 'how': how,
                'violation_lines': [l[:300] for l in vio[:5]],
                'first_reports': [l[:400] for l in fail_inputs[:3]],
                'summary_line': summ[:400],
            },
        }
        with open(os.path.join(dest, 'meta.json'), 'w') as f:
            json.dump(meta_out, f, indent=1)
        sh('git checkout -q -- . && git clean -fdq', cwd=wt)
    sh('git checkout -q -- . && git clean -fdq', cwd=wt)
    sh('PYTHONDONTWRITEBYTECODE=1 /venv/bin/python tools/regen_all.py', cwd=HERE)


if __name__ == '__main__':
    main()
