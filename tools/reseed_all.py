#!/usr/bin/env python3
"""tools/reseed_all.py [--jobs N] [--tier quick] [Cxx ...]

Re-judges every kept seeded defect (seeded/<id>/) and every kept harmless rewrite
(neutral/<id>/) against the CURRENT /verif machinery and the CURRENT /repo HEAD:

  * one scratch worktree of /repo HEAD per property under /tmp/reseed_<pid> (removed at the end;
    /repo's working tree is never touched),
  * the demo is run on the clean worktree and with the patch (a seeded defect must still pass /
    fail, a harmless rewrite must pass in both states),
  * `ODL_REPO=<worktree> ./check Cxx --tier T` is run with the patch applied,
  * `check_result` (and `rechecked_at_repo_head`) of meta.json are rewritten.

The repository suite is NOT re-run here (it was run when the change was kept, see `confirmed`).
"""
import concurrent.futures
import glob
import json
import os
import re
import subprocess
import sys

HERE = os.path.dirname(os.path.dirname(os.path.abspath(__file__)))


def sh(cmd, cwd=None, env=None, timeout=3600):
    e = dict(os.environ)
    if env:
        e.update(env)
    p = subprocess.run(cmd, shell=True, cwd=cwd, env=e, stdout=subprocess.PIPE,
                       stderr=subprocess.STDOUT, text=True, timeout=timeout)
    return p.returncode, p.stdout


def one_property(pid, items, tier, head):
    wt = '/tmp/reseed_{}'.format(pid.lower())
    sh('git -C /repo worktree remove --force {} 2>/dev/null; rm -rf {}'.format(wt, wt))
    rc, out = sh('git -C /repo worktree add -q --detach {} {}'.format(wt, head))
    if rc != 0:
        return ['{}: cannot create worktree: {}'.format(pid, out[-200:])]
    lines = []
    try:
        for kind, d in items:
            sid = os.path.basename(d)
            neutral = kind == 'neutral'
            patch = os.path.join(d, 'patch.diff')
            sh('git checkout -q -- . && git clean -fdq', cwd=wt)
            rc0, out0 = sh('/venv/bin/python demo.py', cwd=d, env={'PYTHONPATH': wt, 'PYTHONDONTWRITEBYTECODE': '1'})
            rca, outa = sh('git apply ' + patch, cwd=wt)
            mpath = os.path.join(d, 'meta.json')
            meta = json.load(open(mpath))
            if rca != 0:
                meta['check_result'] = {'tier': tier, 'detected': False, 'how': 'patch no longer applies to /repo HEAD',
                                        'exit': None, 'first_reports': [], 'summary_line': outa[-200:]}
                meta['rechecked_at_repo_head'] = head[:10]
                json.dump(meta, open(mpath, 'w'), indent=1)
                lines.append('== {} {}: PATCH DOES NOT APPLY at {}'.format(kind, sid, head[:10]))
                continue
            rc1, out1 = sh('/venv/bin/python demo.py', cwd=d, env={'PYTHONPATH': wt, 'PYTHONDONTWRITEBYTECODE': '1'})
            rcc, outc = sh('./check {} --tier {}'.format(pid, tier), cwd=HERE, env={'ODL_REPO': wt})
            vio = [l for l in outc.split('\n') if l.startswith('VIOLATION')]
            reports = [l.strip() for l in outc.split('\n') if l.strip().startswith('failing input')
                       or l.strip().startswith('no longer checks')]
            detected = bool(vio)
            if detected:
                how = 'no-failing-input-found (broken obligation only)' \
                    if vio[0].rstrip().endswith('no-failing-input-found') \
                    else 'violation with concrete failing input'
            else:
                how = 'silent (as it should be)' if neutral else 'missed'
            summ = outc.strip().split('\n')[-1]
            demo_ok = (rc0 == 0 and rc1 == 0) if neutral else (rc0 == 0 and rc1 != 0)
            meta['check_result'] = {'tier': tier, 'exit': rcc, 'detected': detected, 'how': how,
                                    'violation_lines': [l[:300] for l in vio[:5]],
                                    'first_reports': [l[:400] for l in reports[:3]],
                                    'summary_line': summ[:400]}
            meta['rechecked_at_repo_head'] = head[:10]
            meta['demo_at_recheck'] = 'clean exit {} / patched exit {}{}'.format(
                rc0, rc1, '' if demo_ok else '  (UNEXPECTED)')
            json.dump(meta, open(mpath, 'w'), indent=1)
            lines.append('== {} {}: demo {}/{}{} | check rc={} {} | {}'.format(
                kind, sid, rc0, rc1, '' if demo_ok else ' UNEXPECTED', rcc, how, summ[:160]))
    finally:
        sh('git -C /repo worktree remove --force ' + wt)
        sh('rm -rf ' + wt)
    return lines


def main():
    args = sys.argv[1:]
    jobs, tier = 3, 'quick'
    if '--jobs' in args:
        i = args.index('--jobs'); jobs = int(args[i + 1]); del args[i:i + 2]
    if '--tier' in args:
        i = args.index('--tier'); tier = args[i + 1]; del args[i:i + 2]
    only_kind = None
    if '--neutral-only' in args:
        args.remove('--neutral-only'); only_kind = 'neutral'
    if '--seeded-only' in args:
        args.remove('--seeded-only'); only_kind = 'seeded'
    want = set(a.upper() for a in args)
    _, head = sh('git -C /repo rev-parse HEAD')
    head = head.strip()
    per = {}
    for kind in ('seeded', 'neutral'):
        if only_kind and kind != only_kind:
            continue
        for d in sorted(glob.glob(os.path.join(HERE, kind, '*'))):
            if not os.path.exists(os.path.join(d, 'patch.diff')):
                continue
            try:
                pid = json.load(open(os.path.join(d, 'meta.json')))['property']
            except Exception:
                pid = re.match(r'(C\d\d)', os.path.basename(d)).group(1)
            if want and pid not in want:
                continue
            per.setdefault(pid, []).append((kind, d))
    with concurrent.futures.ThreadPoolExecutor(max_workers=jobs) as ex:
        futs = {ex.submit(one_property, pid, items, tier, head): pid for pid, items in sorted(per.items())}
        for f in concurrent.futures.as_completed(futs):
            for l in f.result():
                print(l, flush=True)
    sh('PYTHONDONTWRITEBYTECODE=1 /venv/bin/python tools/regen_all.py', cwd=HERE)


if __name__ == '__main__':
    main()
