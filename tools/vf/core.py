"""Common machinery for all property checks.

Flow of one run (see DESIGN.md section 2.1):
  1. regenerate generated Lean files from /repo (translator tie)
  2. lake build of the property's proof module + axiom audit  -> obligations
  3. correspondence: same cases through the real code and the Lean driver
  4. decide: violations (oracle failures on the real code), known findings,
     broken obligations / disagreements -> search -> VIOLATION lines
  5. evidence file
Exit codes: 0 held, 1 violation, 2 infrastructure failure.
"""
from __future__ import annotations

import fcntl
import hashlib
import json
import os
import random
import re
import subprocess
import sys
import time
import traceback
from fractions import Fraction

VERIF = os.path.dirname(os.path.dirname(os.path.dirname(os.path.abspath(__file__))))
LEAN = os.path.join(VERIF, 'lean')
REPO = os.environ.get('ODL_REPO', '/repo')
ALLOWED_AXIOMS = {'propext', 'Classical.choice', 'Quot.sound'}
FORBIDDEN = re.compile(
    r'\bsorry\b|\badmit\b|^\s*axiom\s|native_decide|bv_decide|implemented_by|'
    r'\bunsafe\s|maxHeartbeats\s+0\b')


class Infra(Exception):
    """Infrastructure failure: exit 2, never a verdict."""


# --------------------------------------------------------------------------
# exact rationals on the wire

def frac(x):
    """Exact Fraction of a python/numpy real scalar (floats are dyadic rationals)."""
    import numpy as np
    if isinstance(x, Fraction):
        return x
    if isinstance(x, (bool, np.bool_)):
        return Fraction(int(x))
    if isinstance(x, (int, np.integer)):
        return Fraction(int(x))
    if isinstance(x, (float, np.floating)):
        xf = float(x)
        if xf != xf or xf in (float('inf'), float('-inf')):
            raise ValueError('non-finite')
        return Fraction(xf)
    raise TypeError('cannot convert {!r}'.format(type(x)))


def fs(x):
    """Wire form of a rational."""
    f = frac(x)
    return str(f.numerator) if f.denominator == 1 else '{}/{}'.format(f.numerator, f.denominator)


def fl(xs):
    xs = list(xs)
    return ','.join(fs(x) for x in xs) if xs else '-'


def fmat(rows):
    rows = list(rows)
    return ';'.join(fl(r) for r in rows) if rows else '-'


def pfrac(s):
    if '/' in s:
        a, b = s.split('/')
        return Fraction(int(a), int(b))
    return Fraction(int(s))


def pfl(s):
    if s in ('', '-'):
        return []
    return [pfrac(t) for t in s.split(',')]


def pfmat(s):
    if s in ('', '-'):
        return []
    return [pfl(r) for r in s.split(';')]


# --------------------------------------------------------------------------
# Lean side

class _Lock:
    def __init__(self, name='lake'):
        os.makedirs(os.path.join(LEAN, '.lake'), exist_ok=True)
        self.path = os.path.join(LEAN, '.lake', name + '.lock')

    def __enter__(self):
        self.f = open(self.path, 'w')
        fcntl.flock(self.f, fcntl.LOCK_EX)
        return self

    def __exit__(self, *a):
        fcntl.flock(self.f, fcntl.LOCK_UN)
        self.f.close()


def write_if_changed(path, content):
    try:
        with open(path) as f:
            if f.read() == content:
                return False
    except FileNotFoundError:
        pass
    os.makedirs(os.path.dirname(path), exist_ok=True)
    tmp = path + '.tmp{}'.format(os.getpid())
    with open(tmp, 'w') as f:
        f.write(content)
    os.replace(tmp, path)
    return True


def lake_build(targets, timeout=3000):
    """Build lake targets; returns (ok, output)."""
    with _Lock():
        p = subprocess.run(['lake', 'build'] + list(targets), cwd=LEAN,
                           stdout=subprocess.PIPE, stderr=subprocess.STDOUT,
                           text=True, timeout=timeout)
    return p.returncode == 0, p.stdout


def lean_run_file(path, stdin_text=None, timeout=3000, run=False):
    cmd = ['lake', 'env', 'lean'] + (['--run'] if run else []) + [path]
    p = subprocess.run(cmd, cwd=LEAN, input=stdin_text, stdout=subprocess.PIPE,
                       stderr=subprocess.PIPE, text=True, timeout=timeout)
    return p.returncode, p.stdout, p.stderr


def _blank_comments(text):
    """Lean source with comments blanked, line numbers preserved. Nesting-aware (Lean allows
    /- /- -/ -/), covers docstrings (/-- -/, /-! -/) and line comments; string literals are
    copied verbatim (a `--` or `/-` inside a string is not a comment)."""
    out, i, n, depth = [], 0, len(text), 0
    while i < n:
        two = text[i:i + 2]
        if two == '/-':
            depth += 1
            out.append('  ')
            i += 2
        elif two == '-/' and depth:
            depth -= 1
            out.append('  ')
            i += 2
        elif depth:
            out.append('\n' if text[i] == '\n' else ' ')
            i += 1
        elif two == '--':
            j = text.find('\n', i)
            j = n if j < 0 else j
            out.append(' ' * (j - i))
            i = j
        elif text[i:i + 3] == "'\"'":          # the character literal '"'
            out.append(text[i:i + 3])
            i += 3
        elif text[i] == '"':
            j = i + 1
            while j < n and text[j] != '"':
                j += 2 if text[j] == '\\' else 1
            out.append(text[i:j + 1])
            i = j + 1
        else:
            out.append(text[i])
            i += 1
    return ''.join(out)


def props_theorems(pid):
    """(name, first_line, last_line) of every theorem in Props/<pid>.lean."""
    path = os.path.join(LEAN, 'OdlModel', 'Props', pid + '.lean')
    out = []
    with open(path) as f:
        text = f.read()
    # block comments / docstrings are blanked (line numbers kept) so that a docstring line that
    # happens to begin with the word "theorem" is not taken for a declaration
    lines = _blank_comments(text).split('\n')
    starts = []
    for i, l in enumerate(lines, 1):
        m = re.match(r'^(?:private\s+|protected\s+)?theorem\s+(\S+)', l)
        if m:
            starts.append((m.group(1), i))
    for k, (name, ln) in enumerate(starts):
        end = starts[k + 1][1] - 1 if k + 1 < len(starts) else len(lines)
        out.append((name, ln, end))
    return out


def source_audit(files):
    """Grep the Lean sources for forbidden constructs outside comments."""
    bad = []
    for path in files:
        with open(path) as f:
            text = f.read()
        # strip block comments and line comments
        text2 = _blank_comments(text)
        for i, l in enumerate(text2.split('\n'), 1):
            if FORBIDDEN.search(l):
                bad.append('{}:{}: {}'.format(os.path.relpath(path, LEAN), i, l.strip()))
    return bad


def lean_files():
    out = []
    for root, _, files in os.walk(os.path.join(LEAN, 'OdlModel')):
        for fn in files:
            if fn.endswith('.lean'):
                out.append(os.path.join(root, fn))
    return sorted(out)


class Obligation:
    def __init__(self, name, kind, ok, detail=''):
        self.name, self.kind, self.ok, self.detail = name, kind, ok, detail

    def as_dict(self):
        return {'name': self.name, 'kind': self.kind, 'ok': self.ok,
                'detail': self.detail[:400]}


def prove(pid, tier, extra_targets=()):
    """Build Props/<pid> and audit axioms. Returns list[Obligation]."""
    obs = []
    thms = props_theorems(pid)
    target = 'OdlModel.Props.' + pid
    ok, out = lake_build([target] + list(extra_targets))
    errs = {}  # file -> [(line, msg)]
    for m in re.finditer(r'^error: (\S+?\.lean):(\d+):(\d+): (.*)$', out, flags=re.M):
        errs.setdefault(m.group(1), []).append((int(m.group(2)), m.group(4)))
    props_rel = 'OdlModel/Props/{}.lean'.format(pid)
    other_errs = [(f, e) for f, es in errs.items() if not f.endswith(props_rel) for e in es]
    bad_src = source_audit(lean_files())
    axioms = {}
    if ok:
        audit = 'import {}\n'.format(target) + ''.join(
            '#print axioms {}\n'.format(n) for n, _, _ in thms)
        apath = os.path.join(LEAN, '.lake', 'audit_{}_{}.lean'.format(pid, os.getpid()))
        with open(apath, 'w') as f:
            f.write(audit)
        try:
            rc, so, se = lean_run_file(apath)
        finally:
            try:
                os.remove(apath)
            except OSError:
                pass
        txt = so + se
        for m in re.finditer(r"'([^']+)' depends on axioms: \[([^\]]*)\]", txt, flags=re.S):
            axioms[m.group(1)] = {a.strip() for a in m.group(2).replace('\n', ' ').split(',') if a.strip()}
        for m in re.finditer(r"'([^']+)' does not depend on any axioms", txt):
            axioms[m.group(1)] = set()
    partial_axioms = None
    if not ok and errs and not other_errs:
        # Only the property file itself has errors. Lean elaborates past a failed declaration
        # (it becomes `sorryAx`), so re-elaborate the file with the axiom audit appended: every
        # theorem that still checks and does not rest on a failed one is attributed precisely.
        try:
            src = open(os.path.join(LEAN, props_rel)).read()
            apath = os.path.join(LEAN, '.lake', 'audit_partial_{}_{}.lean'.format(pid, os.getpid()))
            with open(apath, 'w') as f:
                f.write(src + '\n' + ''.join('#print axioms {}\n'.format(n) for n, _, _ in thms))
            try:
                rc, so, se = lean_run_file(apath)
            finally:
                try:
                    os.remove(apath)
                except OSError:
                    pass
            txt = so + se
            partial_axioms = {}
            for m in re.finditer(r"'([^']+)' depends on axioms: \[([^\]]*)\]", txt, flags=re.S):
                partial_axioms[m.group(1)] = {a.strip() for a in
                                              m.group(2).replace('\n', ' ').split(',') if a.strip()}
            for m in re.finditer(r"'([^']+)' does not depend on any axioms", txt):
                partial_axioms[m.group(1)] = set()
        except Exception:  # noqa: fall back to the conservative attribution
            partial_axioms = None
    for name, a, b in thms:
        if not ok:
            mine = [e for f, es in errs.items() if f.endswith(props_rel)
                    for e in es if a <= e[0] <= b]
            if mine:
                obs.append(Obligation(name, 'theorem', False, 'lean error: ' + mine[0][1]))
            elif partial_axioms is not None and name in partial_axioms:
                ax = partial_axioms[name]
                if ax <= ALLOWED_AXIOMS:
                    obs.append(Obligation(name, 'theorem', True, 'axioms: ' + ','.join(sorted(ax)) +
                                          ' (checked although another theorem of the file fails)'))
                elif 'sorryAx' in ax:
                    obs.append(Obligation(name, 'theorem', False,
                                          'rests on a theorem of this file that no longer checks'))
                else:
                    obs.append(Obligation(name, 'theorem', False,
                                          'uses axioms ' + ','.join(sorted(ax - ALLOWED_AXIOMS))))
            elif other_errs or not errs:
                obs.append(Obligation(name, 'theorem', False,
                                      'dependency failed to build: ' +
                                      (str(other_errs[0]) if other_errs else out[-300:])))
            else:
                # another theorem in the file failed; this one was not shown to check
                obs.append(Obligation(name, 'theorem', False, 'module did not compile'))
            continue
        ax = axioms.get(name)
        if ax is None:
            obs.append(Obligation(name, 'theorem', False, 'axiom audit produced no line'))
        elif not ax <= ALLOWED_AXIOMS:
            obs.append(Obligation(name, 'theorem', False,
                                  'uses axioms ' + ','.join(sorted(ax - ALLOWED_AXIOMS))))
        else:
            obs.append(Obligation(name, 'theorem', True, 'axioms: ' + ','.join(sorted(ax))))
    obs.append(Obligation('source-audit(no sorry/admit/axiom/native_decide/…)', 'audit',
                          not bad_src, '; '.join(bad_src[:5])))
    if tier == 'thorough' and ok:
        with _Lock():
            p = subprocess.run(['lake', 'env', 'leanchecker', target], cwd=LEAN,
                               stdout=subprocess.PIPE, stderr=subprocess.STDOUT, text=True,
                               timeout=3000)
        obs.append(Obligation('leanchecker ' + target, 'recheck', p.returncode == 0,
                              p.stdout[-300:]))
    return obs, out


DRIVER_TIME = [0.0]


def run_driver(pid, lines, timeout=3000):
    """Pipe protocol lines through Drivers/<pid>.lean; returns the answer lines."""
    if not lines:
        return []
    _t0 = time.time()
    try:
        return _run_driver(pid, lines, timeout)
    finally:
        DRIVER_TIME[0] += time.time() - _t0


def _run_driver(pid, lines, timeout=3000):
    text = '\n'.join(lines) + '\n'
    exe = os.path.join(LEAN, '.lake', 'build', 'bin', 'drv_' + pid.lower())
    if os.path.exists(exe) and os.environ.get('VERIF_NO_EXE') != '1':
        p = subprocess.run([exe], input=text, stdout=subprocess.PIPE, stderr=subprocess.PIPE,
                           text=True, timeout=timeout)
        rc, so, se = p.returncode, p.stdout, p.stderr
    else:
        rc, so, se = lean_run_file(os.path.join('Drivers', pid + '.lean'), text,
                                   timeout=timeout, run=True)
    outs = so.split('\n')
    if outs and outs[-1] == '':
        outs.pop()
    if rc != 0 or len(outs) != len(lines):
        raise DriverBroken('driver rc={} answered {} of {} lines; stderr: {}'.format(
            rc, len(outs), len(lines), se[-800:]))
    return outs


class DriverBroken(Exception):
    pass


# --------------------------------------------------------------------------
# run context

class Ctx:
    def __init__(self, pid, tier, seed):
        self.pid, self.tier, self.seed = pid, tier, seed
        self.rng = random.Random(hashlib.sha256('{}:{}'.format(pid, seed).encode()).digest())
        self.t0 = time.time()
        self.evaluations = 0
        self.signatures = set()       # distinct non-trivial case signatures
        self.branches = {}            # histogram of model branches / classes hit
        self.errors = {}              # histogram of error kinds hit
        self.samples = []
        self.disagreements = []       # correspondence mismatches
        self.violations = []          # oracle failures on the real code
        self.notes = []
        self.extra = {}
        self._per_key = {}

    @property
    def quick(self):
        return self.tier == 'quick'

    def hit(self, branch, n=1):
        self.branches[branch] = self.branches.get(branch, 0) + n

    def err(self, kind):
        self.errors[kind] = self.errors.get(kind, 0) + 1

    def case(self, signature=None, sample=None):
        """Count one evaluated case; `signature` (hashable) marks it non-trivial/distinct."""
        self.evaluations += 1
        if signature is not None:
            self.signatures.add(signature)
        if sample is not None and len(self.samples) < 12:
            self.samples.append(sample)

    def disagree(self, case, impl, model, stream='correspondence'):
        if len(self.disagreements) < 200:
            self.disagreements.append({'stream': stream, 'case': case,
                                       'impl': str(impl)[:2000], 'model': str(model)[:2000]})
        else:
            self.extra['disagreements_truncated'] = True

    def violation(self, key, what, replay):
        """Oracle failure on the real code. `key` identifies the failing input/call site
        (matched against known_findings.json); `replay` is a JSON-able case."""
        # per-key cap (a frequent class, e.g. a known finding, must not crowd out other
        # violations) plus a generous global cap
        n = self._per_key.get(key, 0)
        self._per_key[key] = n + 1
        if n < 5 and len(self.violations) < 1000:
            self.violations.append({'key': key, 'what': what, 'replay': replay})
        else:
            self.extra['violations_dropped_by_cap'] = \
                self.extra.get('violations_dropped_by_cap', 0) + 1

    def elapsed(self):
        return time.time() - self.t0


def load_known(pid):
    path = os.path.join(VERIF, 'known_findings.json')
    try:
        with open(path) as f:
            data = json.load(f)
    except FileNotFoundError:
        return []
    return [k for k in data.get('findings', []) if k.get('property') == pid and
            k.get('status', 'open') == 'open']


def match_known(v, known):
    for k in known:
        pat = k.get('match')
        if pat and re.search(pat, v['key']):
            return k
    return None


def write_replay(pid, name, obj):
    d = os.path.join(VERIF, 'out', 'replays', pid)
    os.makedirs(d, exist_ok=True)
    path = os.path.join(d, name + '.json')
    with open(path, 'w') as f:
        json.dump(obj, f, indent=1, default=str)
    return os.path.relpath(path, VERIF)


def main(pid, module):
    """Entry point used by ./check."""
    import argparse
    ap = argparse.ArgumentParser()
    ap.add_argument('--tier', default=os.environ.get('VERIF_TIER', 'quick'),
                    choices=['quick', 'thorough'])
    ap.add_argument('--replay', default=None)
    ap.add_argument('--skip-lean', action='store_true',
                    help='development only: do not build/audit the proofs')
    args = ap.parse_args(sys.argv[2:])
    seed = int(os.environ.get('VERIF_SEED', '0') or 0)
    ctx = Ctx(pid, args.tier, seed)
    try:
        if args.replay:
            with open(args.replay if os.path.isabs(args.replay)
                      else os.path.join(VERIF, args.replay)) as f:
                obj = json.load(f)
            return _replay(ctx, module, obj)
        return _run(ctx, module, args)
    except Infra as e:
        print('INFRA: {}'.format(e))
        return 2
    except subprocess.TimeoutExpired as e:
        print('INFRA: timeout {}'.format(e))
        return 2


def _replay(ctx, module, obj):
    fails = []
    for v in obj.get('violations', [obj]):
        if 'replay' not in v:
            continue
        r = module.replay(ctx, v['replay'])
        print('replay {}: {}'.format(v.get('key'), 'STILL FAILS: ' + str(r) if r else 'passes'))
        if r:
            fails.append(v)
    if obj.get('broken'):
        print('replay file names broken obligations/correspondence: {}'.format(
            [b['name'] for b in obj['broken']][:10]))
    if fails:
        print('VIOLATION property={} replay={}'.format(ctx.pid, obj.get('path', 'replayed')))
        return 1
    return 0


def _run(ctx, module, args):
    pid = ctx.pid
    obligations = []
    # 1. translator tie
    gen = getattr(module, 'regenerate', None)
    if gen is not None:
        try:
            for name, ok, detail in gen(ctx):
                obligations.append(Obligation(name, 'extraction', ok, detail))
        except Exception as e:  # extraction grammar no longer matches the source
            obligations.append(Obligation('extraction', 'extraction', False,
                                          '{}: {}'.format(type(e).__name__, e)))
    # 2. proofs
    build_log = ''
    if not args.skip_lean:
        try:
            obs, build_log = prove(pid, ctx.tier, getattr(module, 'EXTRA_TARGETS', ()))
        except subprocess.TimeoutExpired:
            raise
        except Exception as e:
            raise Infra('lean step failed: {}'.format(e))
        obligations.extend(obs)
    # 3. correspondence + oracle on the real code
    try:
        module.run(ctx)
        obligations.append(Obligation('correspondence(model vs /repo)', 'correspondence',
                                      not ctx.disagreements,
                                      '{} disagreements'.format(len(ctx.disagreements))))
    except DriverBroken as e:
        obligations.append(Obligation('correspondence(model vs /repo)', 'correspondence', False,
                                      'driver broken: {}'.format(e)))
    except (Infra, subprocess.TimeoutExpired, KeyboardInterrupt):
        raise
    except Exception as e:  # noqa
        # An exception that escapes the harness while it is executing code of the tree under
        # test (a traceback frame lies under <REPO>/odl) is behaviour of that tree the harness
        # did not expect: the correspondence is broken at that call (then the search runs).
        # Anything else is a defect of the machinery itself (exit 2).
        import traceback as _tb
        frames = _tb.extract_tb(e.__traceback__)
        lib = os.path.join(os.path.realpath(REPO), 'odl') + os.sep
        inlib = [f for f in frames if os.path.realpath(f.filename).startswith(lib)]
        if not inlib:
            raise
        last_h = [f for f in frames if not os.path.realpath(f.filename).startswith(lib)][-1]
        where = '{}:{} in {} -> {}:{} in {}'.format(
            os.path.basename(last_h.filename), last_h.lineno, last_h.name,
            os.path.relpath(inlib[-1].filename, os.path.realpath(REPO)), inlib[-1].lineno,
            inlib[-1].name)
        ctx.notes.append('run aborted by an unexpected exception from the library: ' + where)
        ctx.disagree({'kind': 'unexpected exception from the library during the run',
                      'where': where, 'harness_line': (last_h.line or '')[:200]},
                     'no exception', '{}: {}'.format(type(e).__name__, str(e)[:300]))
        obligations.append(Obligation('correspondence(model vs /repo)', 'correspondence', False,
                                      'run aborted: {} raised {}: {}'.format(
                                          where, type(e).__name__, str(e)[:200])))
    # model branches the harness declares it must exercise (module.EXPECTED_BRANCHES: list or
    # callable(ctx)); an unhit one is reported always and is a broken obligation in the
    # thorough tier (silent loss of generator coverage)
    exp = getattr(module, 'EXPECTED_BRANCHES', None)
    if exp is not None:
        try:
            exp_fn = exp
            exp = list(exp_fn(ctx)) if callable(exp_fn) else list(exp_fn)
            unhit = sorted(b for b in exp if not ctx.branches.get(b))
            if unhit and ctx.tier == 'thorough' and not ctx.disagreements and not ctx.violations:
                # a branch whose coverage depends on the random draw gets a second chance with
                # a derived seed before the coverage obligation is declared broken (hits,
                # violations and disagreements accumulate in the same context)
                ctx.notes.append('coverage second pass for: ' + ', '.join(unhit[:10]))
                ctx.rng = random.Random(hashlib.sha256(
                    '{}:{}:coverage-retry'.format(ctx.pid, ctx.seed).encode()).digest())
                try:
                    module.run(ctx)
                except DriverBroken:
                    pass
                exp = list(exp_fn(ctx)) if callable(exp_fn) else list(exp_fn)
                unhit = sorted(b for b in exp if not ctx.branches.get(b))
                for o in obligations:
                    if o.name == 'correspondence(model vs /repo)':
                        o.ok = not ctx.disagreements
                        o.detail = '{} disagreements'.format(len(ctx.disagreements))
            ctx.extra['expected_model_branches'] = len(exp)
            ctx.extra['unhit_model_branches'] = unhit
            if ctx.tier == 'thorough':
                obligations.append(Obligation('coverage(every expected model branch hit)',
                                              'coverage', not unhit, ', '.join(unhit[:20])))
        except Exception as e:  # noqa
            ctx.notes.append('EXPECTED_BRANCHES failed: {}'.format(e))
    broken = [o for o in obligations if not o.ok]
    # 4. a broken obligation is not by itself a violation: search the real code
    searched = False
    known_pre = load_known(pid)
    unlisted_pre = [v for v in ctx.violations if match_known(v, known_pre) is None]
    if broken and not unlisted_pre:
        # (violations that are all recorded known findings do not explain a broken
        # obligation: still search)
        searched = True
        s = getattr(module, 'search', None)
        if s is not None:
            try:
                s(ctx, broken)
            except DriverBroken:
                pass
    known = load_known(pid)
    new, seen_known = [], {}
    for v in ctx.violations:
        k = match_known(v, known)
        if k is not None:
            seen_known.setdefault(k['id'], (k, v))
        else:
            new.append(v)
    for kid, (k, v) in sorted(seen_known.items()):
        print('KNOWN-FINDING: property={} {} [{}]'.format(pid, k['what'], kid))
    rc = 0
    replay_path = None
    if new:
        rc = 1
        replay_path = write_replay(pid, 'violation_seed{}_{}'.format(ctx.seed, ctx.tier), {
            'property': pid, 'violations': new[:50],
            'broken': [b.as_dict() for b in broken],
            'disagreements': ctx.disagreements[:20]})
        for v in new[:5]:
            print('  failing input: {} :: {}'.format(v['key'], v['what'])[:600])
        print('VIOLATION property={} replay={}'.format(pid, replay_path))
    elif broken:
        # broken obligations explained entirely by known findings are not re-raised
        unexplained = broken
        if seen_known and all(o.kind == 'correspondence' for o in broken) and \
                getattr(module, 'KNOWN_EXPLAINS_DISAGREEMENT', False):
            unexplained = []
        if unexplained:
            rc = 1
            replay_path = write_replay(pid, 'broken_seed{}_{}'.format(ctx.seed, ctx.tier), {
                'property': pid, 'violations': [],
                'broken': [b.as_dict() for b in broken],
                'disagreements': ctx.disagreements[:50],
                'searched': searched,
                'build_log_tail': build_log[-3000:]})
            for b in broken[:8]:
                print('  no longer checks: [{}] {} :: {}'.format(b.kind, b.name, b.detail)[:500])
            print('VIOLATION property={} replay={} no-failing-input-found'.format(pid, replay_path))
    # 5. evidence
    n_ob = len(obligations)
    n_ok = len([o for o in obligations if o.ok])
    ev = {
        'property_id': pid, 'tier': ctx.tier, 'seed': ctx.seed, 'level': 'proof',
        'coverage': {
            'obligations': n_ob, 'discharged': n_ok,
            'checker_cmd': 'cd lean && lake build OdlModel.Props.{0} && lake env lean <#print axioms of every theorem in Props/{0}.lean>'.format(pid)
                           + (' && lake env leanchecker OdlModel.Props.{}'.format(pid) if ctx.tier == 'thorough' else ''),
            'trusted_base': getattr(module, 'TRUSTED', []) + [
                'Lean 4.33 kernel; axioms allowed: propext, Classical.choice, Quot.sound (audited per theorem this run)',
                'correspondence harness tools/harness/{}.py (generator coverage bounds the model-code tie)'.format(pid.lower())],
            'obligation_list': [o.as_dict() for o in obligations],
            'evaluations': ctx.evaluations,
            'distinct_nontrivial': len(ctx.signatures),
            'rule': getattr(module, 'RULE', ''),
            'samples': ctx.samples[:12],
            'branch_histogram': dict(sorted(ctx.branches.items())),
            'error_kinds': dict(sorted(ctx.errors.items())),
            'disagreements': len(ctx.disagreements),
            'known_findings_seen': sorted(seen_known),
        },
        'assumptions': getattr(module, 'ASSUMPTIONS', []),
        'wall_s': round(ctx.elapsed(), 2),
        'violations': len(new) + (1 if (rc == 1 and not new) else 0),
    }
    ev['coverage'].update(ctx.extra)
    ev['coverage']['driver_wall_s'] = round(DRIVER_TIME[0], 2)
    if ctx.notes:
        ev['coverage']['notes'] = ctx.notes[:40]
    # development runs against a scratch tree (ODL_REPO=…) must never overwrite the evidence
    # of /repo itself
    evdir = os.path.join(VERIF, 'evidence') if not os.environ.get('ODL_REPO') \
        else os.path.join(VERIF, 'out', 'evidence_dev')
    os.makedirs(evdir, exist_ok=True)
    with open(os.path.join(evdir, pid + '.json'), 'w') as f:
        json.dump(ev, f, indent=1, default=str)
    print('{} tier={} seed={} obligations={}/{} evaluations={} distinct={} disagreements={} '
          'violations={} known={} wall={:.1f}s'.format(
              pid, ctx.tier, ctx.seed, n_ok, n_ob, ctx.evaluations, len(ctx.signatures),
              len(ctx.disagreements), len(new), len(seen_known), ctx.elapsed()))
    return rc
