import importlib
import sys
import traceback

from vf import core


def main():
    if len(sys.argv) < 2:
        print('usage: ./check Cxx [--tier quick|thorough] [--replay path]')
        return 2
    pid = sys.argv[1]
    try:
        module = importlib.import_module('harness.' + pid.lower())
    except ImportError:
        traceback.print_exc()
        print('INFRA: no harness for {}'.format(pid))
        return 2
    try:
        return core.main(pid, module)
    except SystemExit:
        raise
    except Exception:
        traceback.print_exc()
        print('INFRA: unexpected exception in the checking machinery')
        return 2


if __name__ == '__main__':
    sys.exit(main())
