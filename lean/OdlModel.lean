-- Root of the `OdlModel` library. All submodules are built through the `OdlModel.*` glob.
import OdlModel.Common
