/-
C10 — proximals and solver building blocks are safe when `out` is aliased to the input.
Property theorems only.  The programs are the statement-for-statement models of the `_call`
bodies in `Model/ProxProg.lean`; every element-wise function, norm, projection and external
call is a parameter (`Fns K`), `K` is an arbitrary type with arithmetic *notation* (no laws
are used — the statements therefore also hold for IEEE floats, NaN and inf included; since
/repo 82e7c58 `out.set_zero()` writes exact zeros, so `ProximalL2` needs no hypothesis either).
-/
import OdlModel.Model.ProxProg
import OdlModel.Model.ProxAux
import OdlModel.Model.Call
import OdlModel.Lemmas.ProxProg
import OdlModel.Lemmas.Call
import OdlModel.Props.C03
import Mathlib.Tactic.SplitIfs
import Mathlib.Tactic.Tauto

namespace OdlModel.C10
open OdlModel.Prox

/-- `P(x, out=x)` leaves in `x` what `P(x, out=y)` leaves in a distinct `y`, whatever `y`
held before (`j`) and whatever uninitialised temporaries contain (`jk`, `jk'`). The initial
memory `m` is arbitrary: buffer 0 is `x`, buffers 2–5 the closed-over data. -/
def AliasSafe {K} (P : Stmt K) : Prop :=
  ∀ (jk jk' : Nat → Vec K) (m : Nat → Vec K) (j : Vec K),
    (run jk P 0 0 m).mem 0 = (run jk' P 0 1 (fun b => if b = 1 then j else m b)).mem 1

/-- Pre-existing buffers other than `out` (the input and the closed-over data, ids < 10) are
not written. -/
def Frame {K} (P : Stmt K) : Prop :=
  ∀ (jk : Nat → Vec K) (m : Nat → Vec K) (ob : Nat), ob ≤ 1 →
    ∀ b : Nat, b < 10 → b ≠ ob → (run jk P 0 ob m).mem b = m b

/-- `ProximalL1._call` with the `if x is out: x = x.copy()` guard removed (what the code
looked like before the repair recorded in known_findings.json). -/
def l1NoGuard {K} [Div K] [Mul K] [Add K] [Neg K] [OfNat K 1] (F : Fns K) (P : Par K) : Stmt K :=
  .bind .diff .x ;;
  .new .denom [.diff] (fun a i => F.abs (a 0 i)) ;;
  .set .denom [.denom] (fun a i => a 0 i / (P.sigma * P.lam)) ;;
  .set .denom [.denom] (fun a i => F.max (a 0 i) 1) ;;
  .set .out [.diff, .denom] (fun a i => a 0 i / a 1 i) ;;
  .set .out [.x, .out] (fun a i => 1 * a 0 i + (-1) * a 1 i)

/-- Integer instance used for non-vacuity examples. -/
def intFns : Fns Int where
  abs := fun a => a.natAbs
  sign := Int.sign
  sqrt := id
  square := fun a => a * a
  exp := id
  lambertw := id
  max := max
  min := min
  pow := fun a => a * a
  lt := fun a b => a < b
  le := fun a b => a ≤ b
  truthy := fun a => a ≠ 0
  ofBool := fun b => if b then 1 else 0
  inf := 1000000
  half := 0
  two := 2
  four := 4
  norm := fun v => (v 0).natAbs
  sum := fun v => v 0
  invSize := 1
  pwnorm := fun v i => (v i).natAbs
  pdiv := fun a b i => a i / b i
  sortAsc := id
  rev := id
  cumAvg := fun r v i => v i - r
  lastNonneg := fun _ => 0
  toIdx := Int.toNat
  argsortDesc := fun _ _ => 0
  take := fun v o i => v (o i).toNat
  wtau := fun r v _ i => v i - r
  bidx := id

def intPar : Par Int :=
  { lam := 1, sigma := 2, gamma := 1, radius := 1, eps := 0, cw := 1, a := 3, b := 5 }

end OdlModel.C10

open OdlModel.Prox OdlModel.Prox.Lemmas OdlModel.C10 OdlModel.Call OdlModel.Call.Lemmas OdlModel.C03

/-- Main theorem. For EVERY modelled `_call` body (all proximal classes of
`proximal_operators.py`, `ProximalSimplex`, `ProximalSum`, and the `default_ops` operators the
solvers apply in place), every flag combination (`g` given or not, `sigma` scalar or element,
`lower/upper` present or not), every scalar type, every choice of the element-wise functions /
norms / projections, every parameter value, every vector length and content, every junk:
the aliased call `P(x, out=x)` leaves in `x` exactly what the non-aliased call writes to `out`.
The only hypothesis is that a Boolean mask round-trips through its array representation
(`hF`); no arithmetic law is used, so the statement holds verbatim for IEEE doubles with
NaN/inf junk in `out` and in uninitialised temporaries. -/
theorem C10.alias_safe {K : Type} [Add K] [Sub K] [Mul K] [Div K] [Neg K] [OfNat K 0] [OfNat K 1]
    (F : Fns K) (hF : ∀ b, F.truthy (F.ofBool b) = b) (P : Par K) (id : ProxId) :
    AliasSafe (prog F P id) := by
  intro jk jk' m j
  cases id <;> (try rename_i a b) <;> (try cases a) <;> (try cases b) <;> (try rename_i a; cases a)
  all_goals
    simp [run, exec, prog, projL1, simplexStmt, l2Step, env0, Env.set, St.write, srcVals, cst, hF,
      ite_fst', ite_snd', ite_mem', ite_app']
  all_goals (try funext i)
  all_goals split_ifs
  all_goals (try (simp))
  all_goals simp_all

/-- The non-aliased result does not depend on what `out` held before nor on the contents of
uninitialised temporaries (`diff = domain.element()`): no body reads `out` or junk before
writing it. -/
theorem C10.out_junk_independent {K : Type} [Add K] [Sub K] [Mul K] [Div K] [Neg K]
    [OfNat K 0] [OfNat K 1]
    (F : Fns K) (hF : ∀ b, F.truthy (F.ofBool b) = b) (P : Par K) (id : ProxId)
    (jk jk' : Nat → Vec K) (m : Nat → Vec K) (j j' : Vec K) :
    (run jk (prog F P id) 0 1 (fun b => if b = 1 then j else m b)).mem 1 =
    (run jk' (prog F P id) 0 1 (fun b => if b = 1 then j' else m b)).mem 1 := by
  rw [← C10.alias_safe F hF P id jk jk m j, ← C10.alias_safe F hF P id jk jk' m j']

/-- Frame: no body writes to its input `x` (when `x` is not `out`) nor to the closed-over
data `g`, `sigma`, `lower`, `upper` — in the aliased and in the non-aliased call. -/
theorem C10.frame {K : Type} [Add K] [Sub K] [Mul K] [Div K] [Neg K] [OfNat K 0] [OfNat K 1]
    (F : Fns K) (P : Par K) (id : ProxId) : Frame (prog F P id) := by
  intro jk m ob hob b hb hne
  have hob' : ob = 0 ∨ ob = 1 := by omega
  have h9 : b ≠ 10 ∧ b ≠ 11 ∧ b ≠ 12 ∧ b ≠ 13 ∧ b ≠ 14 ∧ b ≠ 15 ∧ b ≠ 16 ∧ b ≠ 17 ∧ b ≠ 18 := by
    omega
  obtain ⟨h10, h11, h12, h13, h14, h15, h16, h17, h18⟩ := h9
  cases id <;> (try rename_i a b) <;> (try cases a) <;> (try cases b) <;> (try rename_i a; cases a)
  all_goals rcases hob' with rfl | rfl
  all_goals
    simp [run, exec, prog, projL1, simplexStmt, l2Step, env0, Env.set, St.write, srcVals, cst,
      ite_fst', ite_snd', ite_mem', ite_app', hne, h10, h11, h12, h13, h14, h15, h16, h17, h18]
  all_goals (try split_ifs)
  all_goals simp_all

/-- Every modelled `_call` body, packaged as an in-place leaf of the call-protocol model
(`Leaf.ofProg`), satisfies the leaf contract of C03 — including the aliased case `x is out`:
this is where `alias_safe` enters the combinator theorem. -/
theorem C10.prog_leaf_ok {K : Type} [Add K] [Sub K] [Mul K] [Div K] [Neg K] [OfNat K 0]
    [OfNat K 1] (F : Fns K) (hF : ∀ b, F.truthy (F.ofBool b) = b)
    (P : Par K) (id : ProxId) (jk : Nat → Vec K)
    (d : Nat → Vec K) : LeafOK (Leaf.ofProg jk (prog F P id) d) := by
  refine ⟨fun h => absurd rfl h, fun _ s x y hx hy => ?_⟩
  have hA := C10.alias_safe F hF P id
  refine ⟨by simp [Leaf.ofProg], ?_, ?_, by simp [Leaf.ofProg]⟩
  · simp only [Leaf.ofProg, write_mem_same]
    by_cases hxy : x = y
    · subst hxy
      simp only [if_true]
      rw [hA jk jk (localMem s x x d) (s.mem x),
        hA jk jk (fun b => if b = 0 then s.mem x else d b) (s.mem x)]
      congr 2
      funext b
      by_cases h1 : b = 1 <;> by_cases h0 : b = 0 <;> simp [localMem, h1, h0]
    · simp only [hxy, if_false]
      rw [hA jk jk (fun b => if b = 0 then s.mem x else d b) (s.mem y)]
      congr 2
      funext b
      by_cases h1 : b = 1 <;> by_cases h0 : b = 0 <;> simp_all [localMem]
  · intro b _ hne
    simp only [Leaf.ofProg]
    exact write_mem_other _ _ _ _ hne

/-- Alias safety lifted through the operator calculus (`proximal_translation`,
`proximal_arg_scaling`, `proximal_quadratic_perturbation`, `proximal_composition`,
`proximal_convex_conj` build their results with `+`, `*`, scalar and vector multiplication of
operators): for every expression tree, of any depth, whose leaves satisfy the leaf contract —
by `C10.prog_leaf_ok` every modelled proximal body does — the aliased call `op(x, out=x)`
returns `x` holding exactly what the non-aliased call `op(x, out=y)` leaves in `y`, and
neither writes any other existing object. -/
theorem C10.alias_safe_tree {K : Type} [Add K] [Mul K] [OfNat K 0] (hK : CommArith K)
    (jk jk' : Nat → Vec K) (e : Op K)
    (h : AllOK e) (hfn : e.fn = false) (s : St K) (x y : Nat) (hx : x < s.next)
    (hy : y < s.next) :
    ∃ s1 s2, callI jk e x x s = .ok x s1 ∧ callI jk' e x y s = .ok y s2 ∧
      s1.mem x = s2.mem y ∧ (∀ b : Nat, b < s.next → b ≠ x → s1.mem b = s.mem b) := by
  obtain ⟨s1, e1, v1, f1, _⟩ := C03.call_in_place hK jk e h hfn s x x hx hx
  obtain ⟨s2, e2, v2, _, _⟩ := C03.call_in_place hK jk' e h hfn s x y hx hy
  exact ⟨s1, s2, e1, e2, by rw [v1, v2], f1⟩

/-- Non-vacuity of `alias_safe_tree` with program leaves: `proximal_translation` of the L1
proximal, `Const(y) + ProxL1 ∘ (Id − Const(y))`, as a tree whose leaf is the MODEL PROGRAM of
`ProximalL1._call`, satisfies the hypotheses over ℤ. -/
example : AllOK (K := Int)
    (.vecsum (.comp (.leaf (Leaf.ofProg (fun _ _ => 0) (prog intFns intPar (.l1 false false))
        (fun _ _ => 0))) (.vecsum (.leaf (scalingLeaf 1)) (fun _ => -3))) (fun _ => 3)) :=
  ⟨⟨C10.prog_leaf_ok intFns (by intro b; cases b <;> simp [intFns]) intPar _ _ _,
    ⟨C03.scale_leaf_ok 1, rfl⟩⟩, rfl⟩

/-- `combine_proximals` builds a `DiagonalOperator`; the solvers call it as `op(x, out=x)` on a
product-space iterate. In-place loop of a block matrix whose blocks sit on the diagonal, at
most one per row, with `out` the SAME tuple as `x`: every block is evaluated aliased on its
own component, which no other block reads or writes. -/
theorem C10.diagonal_loop_alias {K : Type} [Add K] [Mul K] [OfNat K 0] (hK : CommArith K)
    (jk : Nat → Vec K) (m : Nat) (x : Nat → Nat)
    (hxinj : ∀ i i' : Nat, i < m → i' < m → x i = x i' → i = i') :
    ∀ (entries : List (Entry K)),
      (∀ e ∈ entries, AllOK e.op ∧ e.op.fn = false ∧ e.row < m ∧ e.col = e.row) →
      (entries.map (·.row)).Nodup →
      ∀ (s : St K) (done : List Nat), (∀ i : Nat, i < m → x i < s.next) →
      (∀ e ∈ entries, e.row ∉ done) →
      ∃ done' s', psoLoopI jk x x entries done s = .ok done' s' ∧
        (∀ e ∈ entries, s'.mem (x e.row) = den e.op (s.mem (x e.row))) ∧
        (∀ b : Nat, b < s.next → (∀ e ∈ entries, b ≠ x e.row) → s'.mem b = s.mem b) ∧
        (∀ i : Nat, i ∈ done' ↔ i ∈ done ∨ i ∈ entries.map (·.row)) ∧ s.next ≤ s'.next := by
  intro entries
  induction entries with
  | nil =>
    intro _ _ s done _ _
    exact ⟨done, s, rfl, fun e he => by simp at he, fun _ _ _ => rfl, fun i => by simp, le_refl _⟩
  | cons e rest ih =>
    intro hent hnd s done hx hdone
    obtain ⟨hop, hfn, hr, hc⟩ := hent e (by simp)
    have hd : e.row ∉ done := hdone e (by simp)
    simp only [List.map_cons, List.nodup_cons] at hnd
    obtain ⟨s1, e1, v1, f1, n1⟩ := C03.call_in_place hK jk e.op hop hfn s (x e.col) (x e.row)
      (by rw [hc]; exact hx _ hr) (hx _ hr)
    simp only [psoLoopI, hd, if_false, e1]
    have hrest : ∀ e' ∈ rest, e'.row ≠ e.row := fun e' he' h =>
      hnd.1 (by rw [← h]; exact List.mem_map_of_mem he')
    obtain ⟨done', s', es, vs, fs, ds, ns⟩ := ih (fun e' he' => hent e' (by simp [he'])) hnd.2 s1
      (e.row :: done) (fun i hi => by have := hx i hi; omega)
      (fun e' he' => by
        simp only [List.mem_cons, not_or]
        exact ⟨hrest e' he', hdone e' (by simp [he'])⟩)
    refine ⟨done', s', es, ?_, ?_, ?_, by omega⟩
    · intro e' he'
      simp only [List.mem_cons] at he'
      rcases he' with rfl | he'
      · rw [fs _ (by have := hx _ hr; omega) (fun e'' he'' h =>
            hrest e'' he'' (hxinj _ _ ((hent e'' (by simp [he''])).2.2.1) hr h.symm)), v1, hc]
      · have hne : x e'.row ≠ x e.row := fun h =>
          hrest e' he' (hxinj _ _ ((hent e' (by simp [he'])).2.2.1) hr h)
        rw [vs e' he', f1 _ (hx _ ((hent e' (by simp [he'])).2.2.1)) hne]
    · intro b hb hnb
      rw [fs b (by omega) (fun e' he' => hnb e' (by simp [he'])), f1 b hb (hnb e (by simp))]
    · intro i
      rw [ds i]
      simp only [List.mem_cons, List.map_cons]
      tauto

/-- `DiagonalOperator(P_0, …, P_{m-1})(x, out=x)` — the aliased call made by the solvers on the
result of `combine_proximals`: component `i` of `x` ends up holding `⟦P_i⟧(x_i)`, exactly what
the non-aliased call puts into `out_i` (`C03.pso_in_place`); nothing else is written. -/
theorem C10.diagonal_alias_safe {K : Type} [Add K] [Mul K] [OfNat K 0] (hK : CommArith K)
    (jk : Nat → Vec K) (ops : List (Op K)) (hops : ∀ op ∈ ops, AllOK op ∧ op.fn = false)
    (x : Nat → Nat) (s : St K) (hx : ∀ i : Nat, i < ops.length → x i < s.next)
    (hxinj : ∀ i i' : Nat, i < ops.length → i' < ops.length → x i = x i' → i = i') :
    ∃ done s', psoI jk ops.length (diagonalEntries ops) x x s = .ok done s' ∧
      (∀ i (hi : i < ops.length), s'.mem (x i) = den ops[i] (s.mem (x i))) ∧
      (∀ b : Nat, b < s.next → (∀ i : Nat, i < ops.length → b ≠ x i) → s'.mem b = s.mem b) := by
  have hmem : ∀ e ∈ diagonalEntries ops, ∃ i, ∃ hi : i < ops.length,
      e = ⟨i, i, ops[i]⟩ := by
    intro e he
    simp only [diagonalEntries, List.mem_iff_getElem, List.length_zipWith, List.length_range,
      Nat.min_self, List.getElem_zipWith, List.getElem_range] at he
    obtain ⟨i, hi, rfl⟩ := he
    exact ⟨i, hi, rfl⟩
  have hrows : (diagonalEntries ops).map (·.row) = List.range ops.length := by
    apply List.ext_getElem
    · simp [diagonalEntries]
    · intro i h1 h2
      simp [diagonalEntries]
  obtain ⟨done, s1, es, vs, fs, ds, _⟩ := C10.diagonal_loop_alias hK jk ops.length x hxinj
    (diagonalEntries ops)
    (fun e he => by
      obtain ⟨i, hi, rfl⟩ := hmem e he
      exact ⟨(hops _ (List.getElem_mem hi)).1, (hops _ (List.getElem_mem hi)).2, hi, rfl⟩)
    (by rw [hrows]; exact List.nodup_range)
    s [] hx (fun _ _ => by simp)
  have hdone : ∀ i : Nat, i < ops.length → i ∈ done := fun i hi => by
    rw [ds i, hrows]; simp [hi]
  have hz : ∀ b, (zeroRows x ops.length done s1).mem b = s1.mem b := by
    intro b
    simp only [zeroRows]
    rw [if_neg]
    rintro ⟨i, hi, hnd, _⟩
    exact hnd (hdone i hi)
  refine ⟨done, zeroRows x ops.length done s1, by simp only [psoI, es], ?_, ?_⟩
  · intro i hi
    have hin : (⟨i, i, ops[i]⟩ : Entry K) ∈ diagonalEntries ops := by
      simp only [diagonalEntries, List.mem_iff_getElem, List.length_zipWith, List.length_range,
        Nat.min_self, List.getElem_zipWith, List.getElem_range]
      exact ⟨i, hi, rfl⟩
    rw [hz]
    exact vs _ hin
  · intro b hb hnb
    rw [hz, fs b hb]
    intro e he
    obtain ⟨i, hi, rfl⟩ := hmem e he
    exact hnb i hi

/-- Remark on the strength of `alias_safe` (round-3 audit): a body whose ONLY write to `out` is
its last statement is alias safe by the semantics of `Stmt.set` (all sources are read before the
destination is overwritten) — for any function, element-wise or not. For such bodies
(box with one bound, l2, ccL2Sq/l2Sq without element sigma AND g, ccL1L2, ccKLCE, huber, simplex,
weighted sum constraint, scaling, lincomb, multiply, constant, zero) the theorem rests on the
assumption "one NumPy/ODL call reads its inputs before writing `out`" plus the correspondence
test; it has real content for the bodies that write `out` more than once (box with both bounds,
ccL2Sq/l2Sq with element sigma and g, ccL1, l1, l1l2, linfty, ccLinfty, ccKL, sum constraint,
power). -/
theorem C10.last_write_only_is_alias_safe {K : Type} (G : Vec K → Vec K → Vec K) :
    AliasSafe (Stmt.set .out [.x, .g] (fun a => G (a 0) (a 1))) := by
  intro jk jk' m j
  simp [run, exec, env0, St.write, srcVals]

/-- Sensitivity of the `proj_simplex` model: if `x_sor` were a VIEW of `x`
(`x.asarray().ravel()` instead of `.flatten()`), the in-place `x_sor.sort()` would write into
the input — the variant violates `Frame`. -/
theorem C10.simplex_with_view_writes_input :
    ¬ Frame (Stmt.bind .xs .x ;; Stmt.set .xs [.xs]
      (fun a => ({ intFns with sortAsc := fun v i => v i + 1 } : Fns Int).sortAsc (a 0))) := by
  intro h
  have := congrFun (h (fun _ _ => 0) (fun _ _ => 5) 1 (by omega) 0 (by omega) (by omega)) 0
  revert this
  simp [run, exec, env0, Env.set, St.write, srcVals]

/-- The theorem has teeth: `ProximalL1._call` WITHOUT its copy guard is not alias safe
(1-element witness over ℤ: x = 5, σλ = 2: aliased result 0, correct result 4). -/
theorem C10.l1_without_guard_fails : ¬ AliasSafe (l1NoGuard intFns intPar) := by
  intro h
  have := congrFun (h (fun _ _ => 0) (fun _ _ => 0) (fun _ _ => 5) (fun _ => 7)) 0
  revert this
  simp [run, exec, l1NoGuard, env0, Env.set, St.write, srcVals, intFns, intPar]

/-- Non-vacuity: a concrete aliased run of the real `ProximalL1` body over ℤ
(x = 5, σ = 2, λ = 1 ⇒ 5 − 5/max(5/2,1) = 5 − 2 = 3 with integer division). -/
example : (run (fun _ _ => 0) (prog intFns intPar (.l1 false false)) 0 0 (fun _ _ => 5)).mem 0 0 = 3 := by
  simp [run, exec, prog, env0, Env.set, St.write, srcVals, intFns, intPar]

example : AliasSafe (prog intFns intPar (.huber true)) :=
  C10.alias_safe intFns (by intro b; cases b <;> simp [intFns]) intPar (.huber true)

/-- LOCALITY (statelessness of the executed programs): the value a body leaves in `x` depends
only on the content of `x` and of the closed-over data `g`, `sigma`, `lower`, `upper` (buffers
0, 2–5) — not on any other object of the store, not on the junk in uninitialised temporaries:
for every program variant, scalar type, function instantiation and pair of stores that agree on
those five buffers. -/
theorem C10.result_depends_only_on_x_and_data {K : Type} [Add K] [Sub K] [Mul K] [Div K] [Neg K]
    [OfNat K 0] [OfNat K 1] (F : Fns K) (hF : ∀ b, F.truthy (F.ofBool b) = b) (P : Par K)
    (id : ProxId) (jk jk' : Nat → Vec K) (m m' : Nat → Vec K)
    (h0 : m 0 = m' 0) (h2 : m 2 = m' 2) (h3 : m 3 = m' 3) (h4 : m 4 = m' 4) (h5 : m 5 = m' 5) :
    (run jk (prog F P id) 0 0 m).mem 0 = (run jk' (prog F P id) 0 0 m').mem 0 := by
  cases id <;> (try rename_i a b) <;> (try cases a) <;> (try cases b) <;> (try rename_i a; cases a)
  all_goals
    simp [run, exec, prog, projL1, simplexStmt, l2Step, env0, Env.set, St.write, srcVals, cst, hF,
      ite_fst', ite_snd', ite_mem', ite_app', h0, h2, h3, h4, h5]
  all_goals (try funext i)
  all_goals split_ifs
  all_goals (try (simp))
  all_goals simp_all

/-- HISTORY INVARIANT (what the history strata test, for ALL histories): after ANY number `n` of
aliased calls `P(x, out=x)` on the same store — each with arbitrary junk in its temporaries, for
every program variant — the closed-over data are untouched and `x` holds the `n`-fold iterate of
the map `v ↦ P(v)` computed from a FRESH store: no state leaks from one call into the next. -/
theorem C10.history_invariant {K : Type} [Add K] [Sub K] [Mul K] [Div K] [Neg K]
    [OfNat K 0] [OfNat K 1] (F : Fns K) (hF : ∀ b, F.truthy (F.ofBool b) = b) (P : Par K)
    (id : ProxId) (jks : Nat → Nat → Vec K) (jk0 : Nat → Vec K) (m : Nat → Vec K) (n : Nat) :
    (∀ b : Nat, 2 ≤ b → b < 10 → aliasedCalls jks (prog F P id) n m b = m b) ∧
    aliasedCalls jks (prog F P id) n m 0 =
      iter (fun v => (run jk0 (prog F P id) 0 0 (fun b => if b = 0 then v else m b)).mem 0) n (m 0) := by
  induction n with
  | zero => exact ⟨fun _ _ _ => rfl, rfl⟩
  | succ n ih =>
    obtain ⟨ihd, ihv⟩ := ih
    constructor
    · intro b hb2 hb10
      simp only [aliasedCalls]
      rw [C10.frame F P id (jks n) _ 0 (by omega) b hb10 (by omega), ihd b hb2 hb10]
    · simp only [aliasedCalls, iter]
      rw [← ihv]
      apply C10.result_depends_only_on_x_and_data F hF P id
      · simp
      · simpa using ihd 2 (by omega) (by omega)
      · simpa using ihd 3 (by omega) (by omega)
      · simpa using ihd 4 (by omega) (by omega)
      · simpa using ihd 5 (by omega) (by omega)

/-- Non-vacuity: three aliased `ProximalL1` calls over ℤ (σλ = 2, integer division) from x = 9:
9 ↦ 7 ↦ 5 ↦ 3, data untouched. -/
example : aliasedCalls (fun _ _ _ => 0) (prog intFns intPar (.l1 false false)) 3 (fun _ _ => 9) 0 0 = 3 := by
  have h := (C10.history_invariant intFns (by intro b; cases b <;> simp [intFns]) intPar
    (.l1 false false) (fun _ _ _ => 0) (fun _ _ => 0) (fun _ _ => 9) 3).2
  rw [h]
  simp [iter, run, exec, prog, env0, Env.set, St.write, srcVals, intFns, intPar]

/-! ## Round 4: `_abs_pow_ufunc` and the gradient operators (`Model/ProxAux.lean`) -/

namespace OdlModel.C10

/-- Locality of a body: what the aliased call leaves in `x` depends only on `x` and on the
closed-over data (buffers 0, 2–5), not on other objects nor on junk. -/
def Local {K} (P : Stmt K) : Prop :=
  ∀ (jk jk' : Nat → Vec K) (m m' : Nat → Vec K),
    m 0 = m' 0 → m 2 = m' 2 → m 3 = m' 3 → m 4 = m' 4 → m 5 = m' 5 →
    (run jk P 0 0 m).mem 0 = (run jk' P 0 0 m').mem 0

/-- Integer instance of `AuxFns` for non-vacuity examples. -/
def intAux : AuxFns Int where
  log := id
  isZero := fun a => a = 0
  nonzero := fun a => a ≠ 0
  allFinite := fun _ => true
  absPow0 := fun _ => 1
  ge := fun a b => a ≥ b
  asg := fun v => 1 * v + 0 * v

/-- `HuberGradient._call` on a non-product space with `grad = x` instead of `grad = x / gamma`
(what the body would be if the division were skipped for `gamma == 1`): the masked assignment
`grad[index] = …` then writes into the caller's `x`. -/
def huberGradNoCopy {K} [Div K] (F : Fns K) (A : AuxFns K) (P : Par K) : Stmt K :=
  .new .nrm [.x] (fun a i => F.abs (a 0 i)) ;;
  .bind .tmp .x ;;
  .new .mask [.nrm] (fun a i => F.ofBool (A.ge (a 0 i) P.gamma)) ;;
  .set .tmp [.tmp, .x, .mask, .nrm]
    (fun a i => if F.truthy (a 2 (F.bidx i)) then a 1 i / a 3 (F.bidx i) else a 0 i) ;;
  bridge A .tmp

end OdlModel.C10

/-- ROUND 4. Alias safety of the additional modelled bodies: the three branches of
`PointwiseNorm._abs_pow_ufunc(fi, out, p)` — which `_call_vecfield_p` invokes as
`self._abs_pow_ufunc(out, out=out, p=1/exponent)`, the only `f(a, out=a)` site on space elements
outside odl/solvers — and the gradient operators of `default_functionals.py` that cannot raise
(`L1Gradient`, `L2Gradient`, `KLGradient`, `KLCCGradient`, `KLCrossEntCCGradient`,
`HuberGradient` through the default in-place bridge, `GroupL1Gradient` in place): for every
branch/flag, scalar type, function instantiation, parameter, length, content and junk,
`G(x, out=x)` leaves in `x` what `G(x, out=y)` leaves in `y`.
Content: `absPowSqrt`/`absPowGen` write `out` twice (the second statement must read only `out`);
for the bridged gradients and `GroupL1Gradient` `out` is written once, by the last statement — there
the statement says that the body computes its result in NEW objects before `out` is touched
(`C10.last_write_only_is_alias_safe` applies). `KLCrossEntropyGradient` (which raises for
non-positive input) is `C10.klce_gradient_alias_safe_partial` / `…_raise_writes_nothing`. -/
theorem C10.aux_alias_safe {K : Type} [Add K] [Sub K] [Mul K] [Div K] [Neg K] [OfNat K 0]
    [OfNat K 1] (F : Fns K) (A : AuxFns K) (hF : ∀ b, F.truthy (F.ofBool b) = b) (P : Par K)
    (id : AuxId) (hid : id.mayRaise = false) : AliasSafe (auxProg F A P id) := by
  intro jk jk' m j
  cases id <;> (try rename_i a; cases a)
  all_goals (try (simp [AuxId.mayRaise] at hid; done))
  all_goals
    simp [run, exec, auxProg, bridge, env0, Env.set, St.write, srcVals, cst, hF,
      ite_fst', ite_snd', ite_mem', ite_app']
  all_goals (try funext i)
  all_goals (try split_ifs)
  all_goals (try (simp))
  all_goals (try simp_all)

/-- `KLCrossEntropyGradient` on inputs where it does not raise (`np.all(np.isfinite(tmp))`, with
`tmp = log(x)` resp. `log(x / prior)`): the aliased call agrees with the non-aliased one.
(`_partial`: the unconditional `AliasSafe` is false for this body — on the raising path the
non-aliased `out` keeps its junk; see `C10.klce_gradient_raise_writes_nothing`.) -/
theorem C10.klce_gradient_alias_safe_partial {K : Type} [Add K] [Sub K] [Mul K] [Div K] [Neg K]
    [OfNat K 0] [OfNat K 1] (F : Fns K) (A : AuxFns K) (P : Par K) (g : Bool)
    (jk jk' : Nat → Vec K) (m : Nat → Vec K) (j : Vec K)
    (hfin : A.allFinite (fun i => A.log (if g then m 0 i / m 2 i else m 0 i)) = true) :
    (run jk (auxProg F A P (.gradKLCE g)) 0 0 m).mem 0 =
      (run jk' (auxProg F A P (.gradKLCE g)) 0 1 (fun b => if b = 1 then j else m b)).mem 1 := by
  cases g
  all_goals
    simp [run, exec, auxProg, bridge, env0, Env.set, St.write, srcVals,
      ite_fst', ite_snd', ite_mem', ite_app'] at hfin ⊢
  all_goals simp [hfin]

/-- The raising path of `KLCrossEntropyGradient` (some `log` not finite) writes NO existing
object — neither `x`, nor `out`, nor the prior: the exception leaves the caller's data intact,
aliased or not. -/
theorem C10.klce_gradient_raise_writes_nothing {K : Type} [Add K] [Sub K] [Mul K] [Div K] [Neg K]
    [OfNat K 0] [OfNat K 1] (F : Fns K) (A : AuxFns K) (P : Par K) (g : Bool)
    (jk : Nat → Vec K) (m : Nat → Vec K) (ob : Nat) (hob : ob ≤ 1)
    (hinf : A.allFinite (fun i => A.log (if g then m 0 i / m 2 i else m 0 i)) = false)
    (b : Nat) (hb : b < 10) : (run jk (auxProg F A P (.gradKLCE g)) 0 ob m).mem b = m b := by
  have hob' : ob = 0 ∨ ob = 1 := by omega
  have h9 : b ≠ 10 ∧ b ≠ 11 ∧ b ≠ 12 := by omega
  obtain ⟨h10, h11, h12⟩ := h9
  cases g <;> rcases hob' with rfl | rfl
  all_goals
    simp [run, exec, auxProg, bridge, env0, Env.set, St.write, srcVals,
      ite_fst', ite_snd', ite_mem', ite_app', h10, h11, h12] at hinf ⊢
  all_goals simp [hinf, h10, h11, h12]

/-- Frame for the round-4 bodies: none of them writes its input `x` (when `x` is not `out`) nor
the closed-over prior `g` — in particular `HuberGradient`'s masked assignment and
`GroupL1Gradient`'s in-place division hit copies. -/
theorem C10.aux_frame {K : Type} [Add K] [Sub K] [Mul K] [Div K] [Neg K] [OfNat K 0] [OfNat K 1]
    (F : Fns K) (A : AuxFns K) (P : Par K) (id : AuxId) : Frame (auxProg F A P id) := by
  intro jk m ob hob b hb hne
  have hob' : ob = 0 ∨ ob = 1 := by omega
  have h9 : b ≠ 10 ∧ b ≠ 11 ∧ b ≠ 12 ∧ b ≠ 13 ∧ b ≠ 14 ∧ b ≠ 15 := by omega
  obtain ⟨h10, h11, h12, h13, h14, h15⟩ := h9
  cases id <;> (try rename_i a; cases a)
  all_goals rcases hob' with rfl | rfl
  all_goals
    simp [run, exec, auxProg, bridge, env0, Env.set, St.write, srcVals, cst,
      ite_fst', ite_snd', ite_mem', ite_app', hne, h10, h11, h12, h13, h14, h15]
  all_goals (try split_ifs)
  all_goals (try simp_all)

/-- Locality of the round-4 bodies (see `Local`). -/
theorem C10.aux_local {K : Type} [Add K] [Sub K] [Mul K] [Div K] [Neg K] [OfNat K 0] [OfNat K 1]
    (F : Fns K) (A : AuxFns K) (hF : ∀ b, F.truthy (F.ofBool b) = b) (P : Par K) (id : AuxId) :
    Local (auxProg F A P id) := by
  intro jk jk' m m' h0 h2 h3 h4 h5
  cases id <;> (try rename_i a; cases a)
  all_goals
    simp [run, exec, auxProg, bridge, env0, Env.set, St.write, srcVals, cst, hF,
      ite_fst', ite_snd', ite_mem', ite_app', h0, h2, h3, h4, h5]
  all_goals (try funext i)
  all_goals (try split_ifs)
  all_goals (try (simp))
  all_goals (try simp_all)

/-- The leaf contract of C03 follows from alias safety ALONE, for ANY program of the buffer
language (generalises `C10.prog_leaf_ok`, whose proof used nothing else): every body proved
alias safe — now or later — can be a leaf of `C10.alias_safe_tree` / `C10.diagonal_alias_safe`. -/
theorem C10.alias_safe_leaf_ok {K : Type} (Q : Stmt K) (hA : AliasSafe Q) (jk : Nat → Vec K)
    (d : Nat → Vec K) : LeafOK (Leaf.ofProg jk Q d) := by
  refine ⟨fun h => absurd rfl h, fun _ s x y hx hy => ?_⟩
  refine ⟨by simp [Leaf.ofProg], ?_, ?_, by simp [Leaf.ofProg]⟩
  · simp only [Leaf.ofProg, write_mem_same]
    by_cases hxy : x = y
    · subst hxy
      simp only [if_true]
      rw [hA jk jk (localMem s x x d) (s.mem x),
        hA jk jk (fun b => if b = 0 then s.mem x else d b) (s.mem x)]
      congr 2
      funext b
      by_cases h1 : b = 1 <;> by_cases h0 : b = 0 <;> simp [localMem, h1, h0]
    · simp only [hxy, if_false]
      rw [hA jk jk (fun b => if b = 0 then s.mem x else d b) (s.mem y)]
      congr 2
      funext b
      by_cases h1 : b = 1 <;> by_cases h0 : b = 0 <;> simp_all [localMem]
  · intro b _ hne
    simp only [Leaf.ofProg]
    exact write_mem_other _ _ _ _ hne

/-- The gradient operators as leaves of operator expressions (e.g. the gradient of
`f.translated(y)`, `f * a`, `a * f` is built by the operator calculus from these bodies):
each round-4 body satisfies the leaf contract, so `C10.alias_safe_tree` applies to every tree
over them. -/
theorem C10.aux_leaf_ok {K : Type} [Add K] [Sub K] [Mul K] [Div K] [Neg K] [OfNat K 0]
    [OfNat K 1] (F : Fns K) (A : AuxFns K) (hF : ∀ b, F.truthy (F.ofBool b) = b)
    (P : Par K) (id : AuxId) (hid : id.mayRaise = false) (jk : Nat → Vec K) (d : Nat → Vec K) :
    LeafOK (Leaf.ofProg jk (auxProg F A P id) d) :=
  C10.alias_safe_leaf_ok _ (C10.aux_alias_safe F A hF P id hid) jk d

/-- HISTORY INVARIANT for ANY program that satisfies `Frame` and `Local` (generalises
`C10.history_invariant`): after any number of aliased calls on one store the data are unchanged
and `x` holds the n-fold iterate of the map computed from a fresh store. -/
theorem C10.history_invariant_of {K : Type} (Q : Stmt K) (hFr : Frame Q) (hL : Local Q)
    (jks : Nat → Nat → Vec K) (jk0 : Nat → Vec K) (m : Nat → Vec K) (n : Nat) :
    (∀ b : Nat, 2 ≤ b → b < 10 → aliasedCalls jks Q n m b = m b) ∧
    aliasedCalls jks Q n m 0 =
      iter (fun v => (run jk0 Q 0 0 (fun b => if b = 0 then v else m b)).mem 0) n (m 0) := by
  induction n with
  | zero => exact ⟨fun _ _ _ => rfl, rfl⟩
  | succ n ih =>
    obtain ⟨ihd, ihv⟩ := ih
    constructor
    · intro b hb2 hb10
      simp only [aliasedCalls]
      rw [hFr (jks n) _ 0 (by omega) b hb10 (by omega), ihd b hb2 hb10]
    · simp only [aliasedCalls, iter]
      rw [← ihv]
      apply hL
      · simp
      · simpa using ihd 2 (by omega) (by omega)
      · simpa using ihd 3 (by omega) (by omega)
      · simpa using ihd 4 (by omega) (by omega)
      · simpa using ihd 5 (by omega) (by omega)

/-- The round-4 bodies are stateless across any number of aliased calls (the driver executes
`aliasedCalls` on them; stream `aux-iterated-alias`). -/
theorem C10.aux_history_invariant {K : Type} [Add K] [Sub K] [Mul K] [Div K] [Neg K]
    [OfNat K 0] [OfNat K 1] (F : Fns K) (A : AuxFns K) (hF : ∀ b, F.truthy (F.ofBool b) = b)
    (P : Par K) (id : AuxId) (jks : Nat → Nat → Vec K) (jk0 : Nat → Vec K) (m : Nat → Vec K)
    (n : Nat) :
    (∀ b : Nat, 2 ≤ b → b < 10 → aliasedCalls jks (auxProg F A P id) n m b = m b) ∧
    aliasedCalls jks (auxProg F A P id) n m 0 =
      iter (fun v => (run jk0 (auxProg F A P id) 0 0 (fun b => if b = 0 then v else m b)).mem 0)
        n (m 0) :=
  C10.history_invariant_of _ (C10.aux_frame F A P id) (C10.aux_local F A hF P id) jks jk0 m n

/-- Sensitivity: `HuberGradient._call` with `grad = x` (no new object) violates `Frame` — the
non-aliased call would overwrite the caller's `x` (witness over ℤ: x = 6, gamma = 1: x becomes
6 / |6| = 1). -/
theorem C10.huber_gradient_without_copy_writes_input :
    ¬ Frame (huberGradNoCopy intFns intAux intPar) := by
  intro h
  have := congrFun (h (fun _ _ => 0) (fun _ _ => 6) 1 (by omega) 0 (by omega) (by omega)) 0
  revert this
  simp [run, exec, huberGradNoCopy, bridge, env0, Env.set, St.write, srcVals, intFns, intAux, intPar]

/-- Non-vacuity: aliased `_abs_pow_ufunc(out, out=out, p=0.5)` over ℤ (`sqrt := id`): −7 ↦ 7;
aliased `HuberGradient` (gamma = 1) at x = −6: −6 / |−6| = −1; and three aliased calls of the
general-p branch (`pow := square`): 2 ↦ 4 ↦ 16 ↦ 256 via `aux_history_invariant`. -/
example : (run (fun _ _ => 0) (auxProg intFns intAux intPar .absPowSqrt) 0 0 (fun _ _ => -7)).mem 0 0 = 7 := by
  simp [run, exec, auxProg, env0, St.write, srcVals, intFns]

example : (run (fun _ _ => 0) (auxProg intFns intAux intPar (.gradHuber false)) 0 0
    (fun _ _ => -6)).mem 0 0 = -1 := by
  simp [run, exec, auxProg, bridge, env0, Env.set, St.write, srcVals, intFns, intAux, intPar]

example : aliasedCalls (fun _ _ _ => 0) (auxProg intFns intAux intPar .absPowGen) 3
    (fun _ _ => 2) 0 0 = 256 := by
  have h := (C10.aux_history_invariant intFns intAux (by intro b; cases b <;> simp [intFns]) intPar
    .absPowGen (fun _ _ _ => 0) (fun _ _ => 0) (fun _ _ => 2) 3).2
  rw [h]
  simp [iter, run, exec, auxProg, env0, St.write, srcVals, intFns]

example : AliasSafe (auxProg intFns intAux intPar .gradGroupL1) :=
  C10.aux_alias_safe intFns intAux (by intro b; cases b <;> simp [intFns]) intPar .gradGroupL1 rfl

/-- Non-vacuity of the KLCE pair: with `intAux` (everything finite) the hypothesis of the
partial theorem holds; with `allFinite := false` that of the raise theorem holds. -/
example : (run (fun _ _ => 0) (auxProg intFns intAux intPar (.gradKLCE false)) 0 0
    (fun _ _ => 5)).mem 0 = (run (fun _ _ => 0) (auxProg intFns intAux intPar (.gradKLCE false)) 0 1
      (fun b => if b = 1 then (fun _ => 9) else (fun _ => 5))).mem 1 :=
  C10.klce_gradient_alias_safe_partial intFns intAux intPar false _ _ (fun _ _ => 5) (fun _ => 9) rfl

example : (run (fun _ _ => 0) (auxProg intFns { intAux with allFinite := fun _ => false } intPar
    (.gradKLCE true)) 0 1 (fun _ _ => 5)).mem 1 = fun _ => 5 :=
  C10.klce_gradient_raise_writes_nothing intFns _ intPar true _ (fun _ _ => 5) 1 (by omega) rfl 1
    (by omega)

/-! ### `RosenbrockGradient._call(x, out)`: loop of scalar assignments behind a copy guard
(the guard was added by /repo c0dbe5c after finding C10-F2; the model of the code is `rosenFixed`) -/

/-- The loop of `RosenbrockGradient._call` keeps the environment and the allocation counter and
writes only the object bound to `out` — for every list of indices (any domain size). -/
theorem C10.rosenbrock_loop_frame {K : Type} [Add K] [Sub K] [Mul K] [OfNat K 1]
    (c : K) (jk : Nat → Vec K) (is : List Nat) (env : Env) (s : St K) :
    (exec jk (rosenLoop c is) (env, s)).1 = env ∧
    (exec jk (rosenLoop c is) (env, s)).2.next = s.next ∧
    ∀ b, b ≠ env .out → (exec jk (rosenLoop c is) (env, s)).2.mem b = s.mem b := by
  induction is generalizing s with
  | nil => simp [rosenLoop, exec]
  | cons i is ih =>
    obtain ⟨h1, h2, h3⟩ := ih (s.write (env .out)
      ((fun a k => if k = i then rosenInnerVal c (a 1) i else a 0 k)
        (srcVals env s .out [.out, .x])))
    simp only [rosenLoop, rosenInner, exec]
    refine ⟨h1, by rw [h2]; rfl, fun b hb => ?_⟩
    rw [h3 b hb]
    simp [St.write, hb]

/-- When `x` and `out` are DIFFERENT objects, the loop leaves in `out[k]`, for every index `k` of
the list, the interior formula evaluated on the (unchanged) input; other entries keep their value. -/
theorem C10.rosenbrock_loop_value {K : Type} [Add K] [Sub K] [Mul K] [OfNat K 1]
    (c : K) (jk : Nat → Vec K) (is : List Nat) (env : Env) (s : St K) (hxo : env .x ≠ env .out) :
    (exec jk (rosenLoop c is) (env, s)).2.mem (env .out) =
      fun k => if k ∈ is then rosenInnerVal c (s.mem (env .x)) k else s.mem (env .out) k := by
  induction is generalizing s with
  | nil => simp [rosenLoop, exec]
  | cons i is ih =>
    simp only [rosenLoop, rosenInner, exec]
    rw [ih]
    funext k
    simp only [St.write, srcVals, List.getD_cons_zero, List.getD_cons_succ, hxo, if_true, if_false,
      List.mem_cons]
    by_cases hk : k ∈ is <;> by_cases hi : k = i <;> simp [hk, hi]

namespace OdlModel.C10
/-- The gradient of the Rosenbrock functional as the code means it (entries `k < n`). -/
def rosenSpec {K} [Add K] [Sub K] [Mul K] [Neg K] [OfNat K 1] (c : K) (n : Nat) (v : Vec K)
    (k : Nat) : K :=
  if k = n - 1 then rosenLastVal c n v else if k = 0 then rosenFirstVal c v
  else rosenInnerVal c v k
end OdlModel.C10

/-- `RosenbrockGradient._call(x, out)` with `out` NOT `x`, every size `n ≥ 2`, every scale, every
scalar type: entry `k < n` of `out` receives the gradient formula evaluated on the input. -/
theorem C10.rosenbrock_gradient_computes_spec {K : Type} [Add K] [Sub K] [Mul K] [Neg K]
    [OfNat K 1] (c : K) (n : Nat) (hn : 2 ≤ n) (jk : Nat → Vec K) (env : Env) (s : St K)
    (hxo : env .x ≠ env .out) (k : Nat) (hk : k < n) :
    (exec jk (rosenProg c n) (env, s)).2.mem (env .out) k = rosenSpec c n (s.mem (env .x)) k := by
  obtain ⟨h1, h2, h3⟩ := C10.rosenbrock_loop_frame c jk ((List.range (n - 2)).map (· + 1)) env s
  have hv := C10.rosenbrock_loop_value c jk ((List.range (n - 2)).map (· + 1)) env s hxo
  have hx := h3 (env .x) hxo
  simp only [rosenProg, exec]
  generalize exec jk (rosenLoop c ((List.range (n - 2)).map (· + 1))) (env, s) = E at h1 h2 h3 hv hx
  obtain ⟨env', s'⟩ := E
  simp only at h1 h2 h3 hv hx
  subst h1
  simp only [exec, St.write, srcVals, List.getD_cons_zero, List.getD_cons_succ, hxo, if_true,
    if_false, hv, hx, rosenSpec]
  by_cases hl : k = n - 1
  · simp [hl]
  · by_cases h0 : k = 0
    · simp [hl, h0]
    · have hmem : k ∈ (List.range (n - 2)).map (· + 1) := by
        simp only [List.mem_map, List.mem_range]
        exact ⟨k - 1, by omega, by omega⟩
      simp [hl, h0, hmem]

/-- `RosenbrockGradient._call` as it is in /repo (since c0dbe5c, with `if out is x: x = x.copy()`),
every size `n ≥ 2`, every scale, every scalar type: the aliased call `G(x, out=x)` leaves in every
entry `k < n` of `x` what the non-aliased call writes to `out[k]` — the gradient formula on the
original input. (Entrywise for `k < n`: the body assigns scalars, entries beyond the domain size
are not part of the element.) Executed by the driver (`aux id=rosen`), stream aux-correspondence. -/
theorem C10.rosenbrock_gradient_fixed_alias_safe {K : Type} [Add K] [Sub K] [Mul K] [Neg K]
    [OfNat K 1] (c : K) (n : Nat) (hn : 2 ≤ n) (jk jk' : Nat → Vec K) (m : Nat → Vec K)
    (j : Vec K) (k : Nat) (hk : k < n) :
    (run jk (rosenFixed c n) 0 0 m).mem 0 k = rosenSpec c n (m 0) k ∧
    (run jk' (rosenFixed c n) 0 1 (fun b => if b = 1 then j else m b)).mem 1 k
      = rosenSpec c n (m 0) k := by
  constructor
  · have := C10.rosenbrock_gradient_computes_spec c n hn jk ((env0 0 0).set .x 10)
      { mem := fun b => if b = 10 then m 0 else m b, next := 11 } (by simp [Env.set, env0]) k hk
    simpa [run, rosenFixed, exec, env0, Env.set, srcVals] using this
  · have := C10.rosenbrock_gradient_computes_spec c n hn jk' (env0 0 1)
      { mem := fun b => if b = 1 then j else m b, next := 10 } (by simp [env0]) k hk
    simpa [run, rosenFixed, exec, env0, srcVals] using this

/-- The assignments after the guard write only the object bound to `out`, whatever the
environment (any domain size). -/
theorem C10.rosenbrock_body_frame {K : Type} [Add K] [Sub K] [Mul K] [Neg K] [OfNat K 1]
    (c : K) (n : Nat) (jk : Nat → Vec K) (env : Env) (s : St K) (b : Nat) (hb : b ≠ env .out) :
    (exec jk (rosenProg c n) (env, s)).2.mem b = s.mem b := by
  obtain ⟨h1, h2, h3⟩ := C10.rosenbrock_loop_frame c jk ((List.range (n - 2)).map (· + 1)) env s
  simp only [rosenProg, exec]
  generalize exec jk (rosenLoop c ((List.range (n - 2)).map (· + 1))) (env, s) = E at h1 h2 h3
  obtain ⟨env', s'⟩ := E
  simp only at h1 h2 h3
  subst h1
  simp [exec, St.write, hb, h3 b hb]

/-- Frame for `RosenbrockGradient._call` as it is in /repo (`rosenFixed`), every domain size `n`
and scale `c`: the input `x` (when it is not `out`) and every other existing object are left
alone; in the aliased call the copy is a new object. -/
theorem C10.rosenbrock_gradient_frame {K : Type} [Add K] [Sub K] [Mul K] [Neg K] [OfNat K 1]
    (c : K) (n : Nat) : Frame (rosenFixed c n) := by
  intro jk m ob hob b hb hne
  have hob' : ob = 0 ∨ ob = 1 := by omega
  rcases hob' with rfl | rfl
  · have := C10.rosenbrock_body_frame c n jk ((env0 0 0).set .x 10)
      { mem := fun b' => if b' = 10 then m 0 else m b', next := 11 } b
      (by simpa [Env.set, env0] using hne)
    have h10 : b ≠ 10 := by omega
    simpa [run, rosenFixed, exec, env0, Env.set, srcVals, h10] using this
  · have := C10.rosenbrock_body_frame c n jk (env0 0 1) { mem := m, next := 10 } b
      (by simpa [env0] using hne)
    simpa [run, rosenFixed, exec, env0] using this

namespace OdlModel.C10
/-- `RosenbrockGradient._call` as it was BEFORE /repo c0dbe5c: the assignments without the copy
guard (OLD variant, kept for the sensitivity theorem only; not the code of /repo). -/
def rosenOld {K} [Add K] [Sub K] [Mul K] [Neg K] [OfNat K 1] (c : K) (n : Nat) : Stmt K :=
  rosenProg c n
end OdlModel.C10

/-- Sensitivity (former finding C10-F2, repaired in /repo by c0dbe5c): the OLD body WITHOUT the
copy guard (`rosenOld`) is NOT alias safe — with `out is x` the assignment `out[i] = …` reads
`x[i-1]`, which the previous iteration has already overwritten (witness over ℤ: n = 4, c = 1,
x = (1, 2, −1, 1)). The guard of `rosenFixed` is what `rosenbrock_gradient_fixed_alias_safe`
needs. -/
theorem C10.rosenbrock_gradient_alias_fails : ¬ AliasSafe (rosenOld (1 : Int) 4) := by
  intro h
  have := congrFun (h (fun _ _ => 0) (fun _ _ => 0)
    (fun _ k => if k = 0 then 1 else if k = 1 then 2 else if k = 2 then -1 else 1) (fun _ => 0)) 2
  revert this
  simp [run, exec, rosenOld, rosenProg, rosenLoop, rosenInner, rosenInnerVal, rosenFirstVal,
    rosenLastVal, env0, St.write, srcVals, List.range, List.range.loop]

/-- Non-vacuity of `rosenbrock_gradient_computes_spec` / `…_fixed_alias_safe`: n = 4, c = 1,
x = (1, 2, −1, 1) over ℤ: entry 2 of the gradient is 2(−1 − 4) − 4(1 − 1)(−1) − 2(1 + 1) = −14, by
the repaired aliased call as well. -/
example : (run (fun _ _ => 0) (rosenFixed (1 : Int) 4) 0 0
    (fun _ k => if k = 0 then 1 else if k = 1 then 2 else if k = 2 then -1 else 1)).mem 0 2 = -14 := by
  rw [(C10.rosenbrock_gradient_fixed_alias_safe (1 : Int) 4 (by omega) _ (fun _ _ => 0) _
    (fun _ => 0) 2 (by omega)).1]
  simp [rosenSpec, rosenInnerVal]

/-! ### Round 5: both paths of the default in-place bridge (`AuxFns.asg`) -/

/-- What the in-place call of a bridged gradient leaves in `x` (aliased) is the assign map `asg`
applied entrywise to the value the out-of-place `_call(x)` returns (shown for `L1Gradient`,
`KLGradient` without prior, `KLCrossEntCCGradient` without prior; by symbolic execution of the
executed programs). Consequently: from 100 entries on (`asg = id`, the copy path) the in-place
result IS the out-of-place value, and below 100 entries (`asg v = 1*v + 0*v`) it differs exactly
where `1*v + 0*v ≠ v` — for IEEE doubles the entries ±inf (finding C10-F3 / C01-F3). Both paths are
executed by the driver (stream aux-correspondence, space kinds with fewer than / at least 100
entries). -/
theorem C10.bridged_gradient_value {K : Type} [Add K] [Sub K] [Mul K] [Div K] [Neg K] [OfNat K 0]
    [OfNat K 1] (F : Fns K) (A : AuxFns K) (P : Par K) (jk : Nat → Vec K) (m : Nat → Vec K) :
    (run jk (auxProg F A P .gradL1) 0 0 m).mem 0 = (fun i => A.asg (F.sign (m 0 i))) ∧
    (run jk (auxProg F A P (.gradKL false)) 0 0 m).mem 0
      = (fun i => A.asg (1 * ((-1) * 1 / m 0 i) + 1 * 1)) ∧
    (run jk (auxProg F A P (.gradKLCECC false)) 0 0 m).mem 0 = (fun i => A.asg (F.exp (m 0 i))) := by
  refine ⟨?_, ?_, ?_⟩ <;>
    simp [run, exec, auxProg, bridge, env0, Env.set, St.write, srcVals]

/-- Copy path (elements with at least 100 entries): with `asg = id` the aliased in-place call of
`L1Gradient` leaves exactly `sign(x)` — the out-of-place value, no arithmetic involved. -/
theorem C10.bridge_copy_path_exact {K : Type} [Add K] [Sub K] [Mul K] [Div K] [Neg K] [OfNat K 0]
    [OfNat K 1] (F : Fns K) (A : AuxFns K) (hA : ∀ v, A.asg v = v) (P : Par K)
    (jk : Nat → Vec K) (m : Nat → Vec K) :
    (run jk (auxProg F A P .gradL1) 0 0 m).mem 0 = fun i => F.sign (m 0 i) := by
  rw [(C10.bridged_gradient_value F A P jk m).1]
  funext i
  exact hA _

/-- Non-vacuity: over ℤ with the copy path, aliased `L1Gradient` at x = −7 gives −1. -/
example : (run (fun _ _ => 0) (auxProg intFns { intAux with asg := id } intPar .gradL1) 0 0
    (fun _ _ => -7)).mem 0 0 = -1 := by
  rw [C10.bridge_copy_path_exact intFns _ (fun _ => rfl)]
  simp [intFns]

/-! ### Extra round: `x = out =` the closed-over element itself -/

namespace OdlModel.C10
/-- `P(d, out=d)` for `d` the closed-over data object in buffer `d` (2 = `g`, 3 = element `sigma`)
leaves in it what the non-aliased call on a COPY of `d` (`x` = buffer 0 holding the same values,
`out` = buffer 1 with arbitrary content) writes to `out`. -/
def SelfAliasSafe {K} (P : Stmt K) (d : Nat) : Prop :=
  ∀ (jk jk' : Nat → Vec K) (m : Nat → Vec K) (j : Vec K),
    (run jk P d d m).mem d =
      (run jk' P 0 1 (fun b => if b = 0 then m d else if b = 1 then j else m b)).mem 1
end OdlModel.C10

/-- The three bodies repaired by /repo 94ea956 / bc301ca, as they are now: called in place ON
THEIR OWN DATA ELEMENT — `ProximalConvexConjKL` on `g`, `ProximalConvexConjL2Squared` and
`ProximalL2Squared` (element `sigma`, with or without `g`) on `sigma` and on `g` — they leave in
it what the non-aliased call on a copy returns; every scalar type, no arithmetic law. Executed by
the driver (`self=` runs) and compared with the real calls in the stratum self-alias. -/
theorem C10.self_alias_safe_repaired {K : Type} [Add K] [Sub K] [Mul K] [Div K] [Neg K]
    [OfNat K 0] [OfNat K 1] (F : Fns K) (P : Par K) :
    SelfAliasSafe (prog F P (.ccKL true)) 2 ∧
    SelfAliasSafe (prog F P (.ccL2Sq true true)) 3 ∧ SelfAliasSafe (prog F P (.ccL2Sq true true)) 2 ∧
    SelfAliasSafe (prog F P (.ccL2Sq true false)) 3 ∧
    SelfAliasSafe (prog F P (.l2Sq true true)) 3 ∧ SelfAliasSafe (prog F P (.l2Sq true true)) 2 ∧
    SelfAliasSafe (prog F P (.l2Sq true false)) 3 := by
  refine ⟨?_, ?_, ?_, ?_, ?_, ?_, ?_⟩ <;> intro jk jk' m j <;>
    simp [run, exec, prog, env0, Env.set, St.write, srcVals,
      ite_fst', ite_snd', ite_mem', ite_app']

namespace OdlModel.C10
/-- `ProximalL2Squared._call` (element `sigma`, data `g`) as it was BEFORE /repo bc301ca: no copy
of `sig` when `sig is out` (OLD variant, sensitivity only). -/
def l2SqOld {K} [Add K] [Mul K] [Div K] [OfNat K 1] (F : Fns K) (P : Par K) : Stmt K :=
  .ifIs .x .out
    (.new .t2 [.g] (fun a i => F.two * P.lam * a 0 i) ;;
     .new .tmp [.sig, .t2] (fun a i => a 0 i * a 1 i) ;;
     .set .out [.x, .tmp] (fun a i => 1 * a 0 i + 1 * a 1 i))
    (.new .t2 [.g] (fun a i => F.two * P.lam * a 0 i) ;;
     .set .out [.sig, .t2] (fun a i => a 0 i * a 1 i) ;;
     .set .out [.x, .out] (fun a i => 1 * a 0 i + 1 * a 1 i)) ;;
  .new .t1 [.sig] (fun a i => 1 + F.two * a 0 i * P.lam) ;;
  .set .out [.out, .t1] (fun a i => a 0 i / a 1 i)
end OdlModel.C10

/-- Sensitivity (former finding C10-F5): without the guard `if sig is out: sig = sig.copy()` the
body is NOT safe on its own step-size element (witness over ℤ: sigma = 3, g = 1, lam = 1). -/
theorem C10.l2sq_without_sigma_guard_fails : ¬ SelfAliasSafe (l2SqOld intFns intPar) 3 := by
  intro h
  have := congrFun (h (fun _ _ => 0) (fun _ _ => 0)
    (fun b _ => if b = 3 then 3 else 1) (fun _ => 0)) 0
  revert this
  simp [run, exec, l2SqOld, env0, Env.set, St.write, srcVals, intFns, intPar]
